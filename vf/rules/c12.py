"""C12 — PLAIN text parses back: writer/reader sibling agreement (the inverse law itself is not applicable)."""
from ..facts import ty_adt, tystr, walk_ty, place_local, place_proj, op_place, strip_refs
from ..cfg import CFG, Tracer, thaw
from .. import dt, instance
from . import c01

PLAIN = "conjure_object::plain::Plain"
FROM_PLAIN = "conjure_object::plain::FromPlain"
BORROWED = {"str": "alloc::string::String", "[u8]": "bytes::bytes::Bytes"}

EXPLANATION = (
    "The inverse law parse(to_plain(v)) == v for every double, instant, integer and uuid is a statement about Display/FromStr of "
    "std, chrono and uuid over value domains and is NOT decided (not applicable to static analysis). Decided are the structural "
    "clauses that writer and reader are siblings which must agree: (R12.1) every owned type with Plain has FromPlain and vice "
    "versa (str / [u8] / &T are the borrowed forms); (R12.2) Plain for f64 writes the constants \"Infinity\" / \"-Infinity\" exactly "
    "on the == +inf / == -inf branches and otherwise defers to Display, FromPlain maps the same two constants back and otherwise "
    "defers to str::parse::<f64>; (R12.3) binary uses Base64Display(_, &STANDARD) <-> STANDARD.decode (the padded standard "
    "alphabet, same constant), datetime writes Item::Fixed(Fixed::RFC3339) and reads parse_from_rfc3339 then with_timezone(Utc), "
    "bearer token writes as_str() and reads through FromStr; (R12.4) every delegating Plain impl resolves to Display of its own Self "
    "and every delegating FromPlain to str::parse of its own Self; (R12.5) generated aliases delegate to the aliased type's impls "
    "and wrap with their own constructor, generated enums' as_str / from_str tables are inverse; (R12.6) the HTTP parameter "
    "decoders hand the received text to from_plain unmodified (only item selection, HeaderValue::to_str and reference "
    "conversions lie between the request and the parser: no trimming / case folding / replacing).")


def same_parser(c, a, b):
    """two text entry points (from_plain / from_str) are the same function of their input: with their private helpers spliced in
    they make the same external calls (same callees, same type arguments) on the unmodified input — e.g. both delegate to
    one private `parse_checked`"""
    from .. import inline as _inl
    VIEW = ("core::ops::deref::Deref::deref", "core::convert::AsRef::as_ref", "core::borrow::Borrow::borrow")

    def sig(x):
        ex = _inl.expand(c, x, depth=3, pred=lambda cb: cb.d.get("vis") != "pub" or cb.name == "new", lower=True)
        ext = sorted((t["call"]["def"], tuple(tystr(s_) for s_ in t["call"].get("substs") or [])) for _, t in ex.calls() if not t["call"].get("local") and t["call"]["def"] not in VIEW)
        firsts = [t for _, t in ex.calls() if t["call"]["name"] in ("parse", "from_str", "decode", "captures", "is_match") and t["args"]]
        rooted = all(Tracer(ex).root_locals(t["args"][-1] if t["call"]["name"] in ("captures", "is_match") else t["args"][0]) <= {1} for t in firsts[:1])
        return ext, rooted
    sa, sb = sig(a), sig(b)
    return bool(sa[0]) and sa[0] == sb[0] and sa[1] and sb[1]


def f64_tables(ctx, c, wb, rb):
    """R12.2 as two decision tables (constant propagation through local helpers, newtype wrappers, combinators): the writer
    evaluated for +inf, -inf, NaN (either sign) and finite values, the reader for the two spellings and for other texts.
    Returns False when the code leaves the interpretable fragment (the path-based form of the rule is used instead)."""
    from .. import minterp
    F = ctx.F
    I = minterp.Interp(F, c, inline=lambda d_, rid: rid.startswith("conjure_object::") and rid not in (wb.id, rb.id), max_depth=4)
    nan = float("nan")
    wrows, rrows = [], []
    try:
        for label, v, spelling in (("+inf", float("inf"), "Infinity"), ("-inf", float("-inf"), "-Infinity"), ("NaN", nan, None), ("-NaN", -nan, None),
                                   ("1.5", 1.5, None), ("-0.0", -0.0, None), ("1e300", 1e300, None)):
            r = I.run(wb, [v] + [("sym", "fmt")] * (wb.argc - 1))
            if not (isinstance(r, tuple) and r and r[0] == "call" and r[1].endswith("Display::fmt") or isinstance(r, tuple) and r and r[0] == "call" and "Display" in r[1]):
                return False
            wrows.append((label, v, spelling, r[2][0] if r[2] else None))

        def find_parse(x, text):
            if isinstance(x, tuple) and x and x[0] == "call":
                if ("parse" in x[1] or "from_str" in x[1]) and any(a == text for a in x[2]):
                    return True
                return any(find_parse(a, text) for a in x[2])
            if isinstance(x, (tuple, list)):
                return any(find_parse(a, text) for a in x if isinstance(a, (tuple, list)))
            return False
        PARSE_F64 = {"def": "core::str::<impl str>::parse", "name": "parse", "local": False, "substs": [{"prim": "f64"}]}
        for text, exp in (("Infinity", float("inf")), ("-Infinity", float("-inf")), ("1.5", None), ("-0", None), ("inf", None), ("-inf", None), ("infinity", None), ("NaN", None), ("", None), ("x", None)):
            r = I.run(rb, [text])
            model = I.call(rb, PARSE_F64, [text], 0)      # what str::parse::<f64>() itself returns for this text
            same = find_parse(r, text)
            if not same and minterp.is_adt(r) and minterp.is_adt(model) and r[1] == model[1] == "core::result::Result" and r[2] == model[2]:
                a_, b_ = (r[3][0] if r[3] else None), (model[3][0] if model[3] else None)
                import math as _m
                same = r[2] == 1 or (isinstance(a_, float) and isinstance(b_, float) and ((a_ != a_ and b_ != b_) or (a_ == b_ and _m.copysign(1, a_) == _m.copysign(1, b_))))
            rrows.append((text, exp, r, same))
    except minterp.Unsupported:
        return False
    for label, v, spelling, arg in wrows:
        if spelling is not None:
            ctx.check(arg == spelling, "R12.2", wb.loc(), f"f64|writes|{spelling}", f"Plain for f64 writes {arg!r} for {label}; the Conjure spelling is {spelling!r}", instance=f"f64: {spelling!r} iff == {label}")
        else:
            same = isinstance(arg, float) and (arg == v or (arg != arg and v != v))
            ctx.check(same, "R12.2", wb.loc(), "f64|display", f"Plain for f64 writes {arg!r} for {label}; values that are not an infinity must go to Display of the value itself", instance=f"f64: {label} -> Display (NaN prints as NaN)")
    ctx.ok("R12.2", wb.loc(), "f64 writer: 2 spellings + Display (decision table over 7 value classes)")
    got = {}
    for text, exp, r, parses in rrows:
        if exp is not None:
            val = r[3][0] if minterp.is_adt(r) and r[1] == "core::result::Result" and r[2] == 0 and r[3] else None
            got[text] = val
        else:
            ctx.check(parses, "R12.2", rb.loc(), "f64|reader-fallback",
                      f"FromPlain for f64 must return what str::parse::<f64>() returns for the text {text!r} (got {minterp.show(I, r)[:80]})", instance="f64 reader: otherwise str::parse::<f64>")
    ctx.check(got == {"Infinity": float("inf"), "-Infinity": float("-inf")}, "R12.2", rb.loc(), "f64|reader-table", f"FromPlain for f64 maps {got}; expected Infinity -> +inf, -Infinity -> -inf (the writer's spellings)",
              instance="f64 reader: Infinity -> inf, -Infinity -> -inf")
    return True


def run(ctx):
    ctx.explanation = EXPLANATION
    ctx.assumptions = ["Display/FromStr of bool, i32, f64 (finite and NaN), String, Uuid and chrono's RFC 3339 formatter/parser are mutually inverse (std / uuid / chrono)"]
    F = ctx.F
    c = F.crate("conjure_object")
    ctx.units["conjure_object bodies"] = len(c.bodies)
    pl = {}
    fp = {}
    for i in c.impls:
        if i.get("trait") == PLAIN:
            pl[tystr(i["self_ty"])] = i
        if i.get("trait") == FROM_PLAIN:
            fp[tystr(i["self_ty"])] = i
    owned_pl = set()
    for t in pl:
        if t.startswith("&"):
            continue
        owned_pl.add(BORROWED.get(t, t))
    ctx.floor("R12.1", "Plain impls", len(pl), 13)
    for t in sorted(owned_pl | set(fp)):
        ctx.check(t in owned_pl and t in fp, "R12.1", "conjure-object/src/plain.rs", f"pair|{t}",
                  f"type {t} has {'Plain' if t in owned_pl else 'no Plain'} and {'FromPlain' if t in fp else 'no FromPlain'}: every PLAIN-capable type needs both directions",
                  instance=f"{t}: Plain + FromPlain")
    # ---------------- R12.2 f64
    wb = c.methods_of_impl(pl["f64"]).get("fmt") if "f64" in pl else None
    rb = c.methods_of_impl(fp["f64"]).get("from_plain") if "f64" in fp else None
    if wb is None or rb is None:
        ctx.violation("R12.2", "conjure_object", "f64|anchor", "Plain / FromPlain for f64 not found")
    else:
        # table form: writer and reader share one constant table of (spelling, value) pairs
        def spelling_tables(body):
            out = []
            items = set()

            def walk(o):
                if isinstance(o, dict):
                    cst = o.get("c")
                    if isinstance(cst, dict) and isinstance(cst.get("item"), str):
                        items.add(cst["item"])
                    for v in o.values():
                        walk(v)
                elif isinstance(o, list):
                    for v in o:
                        walk(v)
            for x in [body] + c.closures_of(body):
                walk(x.d.get("blocks"))
                walk(x.d.get("promoted"))
            for it in items:
                cb = [x for x in c.bodies if x.kind in ("const", "static") and x.path == it]
                if cb:
                    pairs = []
                    for bb, j, s_ in cb[0].stmts():
                        if s_["r"].get("agg") == "tuple" and len(s_["r"]["ops"]) == 2:
                            a_, b_ = [(o.get("c") or {}) for o in s_["r"]["ops"]]
                            if "str" in a_ and "float" in b_:
                                pairs.append((a_["str"], b_["float"]))
                    if pairs:
                        out.append((it, sorted(pairs)))
            return out
        wt, rt = spelling_tables(wb), spelling_tables(rb)
        table_form = bool(wt) and wt == rt
    if rb is not None:
        from .. import inline as _inl
        rbx = _inl.expand(c, rb, depth=2, pred=lambda cb: cb.d.get("vis") != "pub", lower=True)
        foreign = sorted({tystr(x_) for _, t in rbx.calls() if t["call"]["name"] in ("parse", "from_str") and ("core::str" in t["call"]["def"] or "FromStr" in t["call"]["def"])
                          for x_ in (t["call"].get("substs") or [])[-1:] if tystr(x_) not in ("f64", "str", "conjure_object::plain::PlainDouble") and "param" not in x_ and not (ty_adt(x_) or "").startswith("conjure_object::")})
        ctx.check(not foreign, "R12.2", rb.loc(), "f64|reader-single-parser", f"FromPlain for f64 also parses the text as {foreign}: a second number grammar on the same text loses what only f64 distinguishes (the sign of \"-0\", digits beyond the other type's range)",
                  instance="f64 reader: the text is parsed as f64 only", nontrivial=False)
    if wb is not None and rb is not None and table_form:
        spec_pairs = sorted([("Infinity", "inf"), ("-Infinity", "-inf")])
        ctx.check(len(wt) == 1 and wt[0][1] == spec_pairs, "R12.2", wb.loc(), "f64|table", f"the shared spelling table of Plain / FromPlain for f64 is {wt}; specification: {spec_pairs}", instance=f"f64: writer and reader share the table {spec_pairs}")
        disp = [tystr(t["call"]["substs"][0]) for x in [wb] + c.closures_of(wb) for _, t in x.calls() if t["call"]["def"] == "core::fmt::Display::fmt"]
        ctx.check(sorted(disp) == ["f64", "str"], "R12.2", wb.loc(), "f64|writer-complete", f"Plain for f64 (table form) must write a table spelling or defer to Display of the value; Display calls on {disp}", instance="f64 writer: table spelling or Display")
        ps = [t for x in [rb] + c.closures_of(rb) for _, t in x.calls() if t["call"]["name"] == "parse" and [tystr(y) for y in t["call"]["substs"]] == ["f64"]]
        ctx.check(len(ps) == 1, "R12.2", rb.loc(), "f64|reader-fallback", "FromPlain for f64 must defer to str::parse::<f64> otherwise", instance="f64 reader: otherwise str::parse::<f64>")
    elif wb is not None and rb is not None and f64_tables(ctx, c, wb, rb):
        pass
    elif wb is not None and rb is not None:
        cfg = CFG(wb)
        tr = Tracer(wb)
        seen = {}
        finite = 0
        for bb, t in wb.calls():
            f = t["call"]
            if f["def"] != "core::fmt::Display::fmt":
                continue
            pos, neg = c01.float_tests(wb, cfg, bb, tr, 1)
            st = tystr(f["substs"][0])
            cst = dt.resolve_const(wb, t["args"][0])
            if st == "str" and cst is not None and "str" in cst:
                exp = {"Infinity": "inf", "-Infinity": "-inf"}.get(cst["str"])
                ctx.check(exp is not None and pos == {exp}, "R12.2", wb.loc(t["ln"]), f"f64|writes|{cst['str']}", f"Plain for f64 writes {cst['str']!r} under tests {sorted(pos)}; expected exactly the == {exp} branch",
                          instance=f"f64: {cst['str']!r} iff == {exp}")
                seen[cst["str"]] = pos
            elif st == "f64":
                finite += 1
                ctx.check(not pos and neg == {"inf", "-inf"}, "R12.2", wb.loc(t["ln"]), "f64|display", f"Plain for f64 defers to Display under tests +{sorted(pos)} -{sorted(neg)}; it must do so exactly for values that are not an infinity",
                          instance="f64: otherwise Display (NaN prints as NaN)")
            else:
                ctx.violation("R12.2", wb.loc(t["ln"]), f"f64|other-display|{st}", f"Plain for f64 formats a {st}")
        ctx.check(set(seen) == {"Infinity", "-Infinity"} and finite == 1, "R12.2", wb.loc(), "f64|writer-complete", f"Plain for f64: spellings {sorted(seen)}, display paths {finite}", instance="f64 writer: 2 spellings + Display")
        # reader
        cfg = CFG(rb)
        got = {}
        for bb, j, s in rb.stmts():
            r = s["r"]
            if r.get("agg") == "adt" and r.get("variant") == "Ok" and r["ops"]:
                cst = dt.resolve_const(rb, r["ops"][0])
                if cst and "float" in cst:
                    pos = set()
                    for sbb, allowed, allv in dt.edge_conditions(cfg, bb):
                        atom = dt.switch_atom(rb, sbb)
                        if atom[0] == "call":
                            se = dt.str_eq_const(rb, atom[1])
                            if se and dt.bool_polarity(allowed):
                                pos.add(se[1])
                    got[cst["float"]] = pos
        ctx.check(got == {"inf": {"Infinity"}, "-inf": {"-Infinity"}}, "R12.2", rb.loc(), "f64|reader-table", f"FromPlain for f64 maps {got}; expected Infinity -> +inf, -Infinity -> -inf (the writer's spellings)",
                  instance="f64 reader: Infinity -> inf, -Infinity -> -inf")
        ps = [t for _, t in rb.calls() if t["call"]["name"] == "parse" and [tystr(x) for x in t["call"]["substs"]] == ["f64"]]
        ctx.check(len(ps) == 1, "R12.2", rb.loc(), "f64|reader-fallback", "FromPlain for f64 must defer to str::parse::<f64> otherwise", instance="f64 reader: otherwise str::parse::<f64>")
    # ---------------- R12.3 engines and formats
    bw = c.methods_of_impl(pl["[u8]"]).get("fmt") if "[u8]" in pl else None
    br = c.methods_of_impl(fp["bytes::bytes::Bytes"]).get("from_plain") if "bytes::bytes::Bytes" in fp else None
    if bw is not None and br is not None:
        # the rendering / parsing may sit in a private helper shared by the [u8] and Bytes impls
        from .. import inline as _inline
        bw = _inline.expand(c, bw, depth=2, pred=lambda cb: cb.d.get("vis") != "pub")
        br = _inline.expand(c, br, depth=2, pred=lambda cb: cb.d.get("vis") != "pub")
        ew, er = c01.uses_b64_standard(bw), c01.uses_b64_standard(br)
        disp = [t for _, t in bw.calls() if "Base64Display" in t["call"]["def"]]
        dec = [t for _, t in br.calls() if t["call"]["def"] == "base64::engine::Engine::decode"]
        ctx.check(ew == [c01.B64_STD] and er == [c01.B64_STD] and len(disp) == 1 and len(dec) == 1, "R12.3", bw.loc(), "binary|engine",
                  f"binary PLAIN: writer engines {ew}, reader engines {er}; both must be the padded standard alphabet", instance="binary: Base64Display(STANDARD) <-> STANDARD.decode")
    else:
        ctx.violation("R12.3", "conjure_object", "binary|anchor", "Plain for [u8] / FromPlain for Bytes not found")
    dtk = [k for k in pl if k.startswith("chrono::datetime::DateTime")]
    if dtk and dtk[0] in fp:
        w = c.methods_of_impl(pl[dtk[0]])["fmt"]
        r = c.methods_of_impl(fp[dtk[0]])["from_plain"]
        fixed = [s for _, _, s in w.stmts() if s["r"].get("agg") == "adt" and s["r"]["adt"].endswith("format::Fixed")]
        rd = [t for x in [r] + c.closures_of(r) for _, t in x.calls() if t["call"]["name"] == "parse_from_rfc3339"]
        tz = [t for x in [r] + c.closures_of(r) for _, t in x.calls() if t["call"]["name"] == "with_timezone" and any("Utc" in tystr(s) for s in t["call"]["substs"])]
        ctx.check(len(fixed) == 1 and fixed[0]["r"]["variant"] == "RFC3339" and len(rd) == 1 and len(tz) == 1, "R12.3", w.loc(), "datetime|rfc3339",
                  f"datetime PLAIN: writer format item {[s['r']['variant'] for s in fixed]}, reader {[t['call']['name'] for t in rd]}", instance="datetime: Fixed::RFC3339 <-> parse_from_rfc3339 . with_timezone(Utc)")
    else:
        ctx.violation("R12.3", "conjure_object", "datetime|anchor", "datetime PLAIN impls not found")
    bt = "conjure_object::bearer_token::BearerToken"
    if bt in pl and bt in fp:
        w = c.methods_of_impl(pl[bt])["fmt"]
        names = [t["call"]["name"] for _, t in w.calls()]
        ctx.check("as_str" in names and "fmt" in names, "R12.3", w.loc(), "token|writer", "bearer token PLAIN text must be its as_str()", instance="BearerToken: as_str() <-> FromStr")
    # ---------------- R12.4 delegation targets
    n = 0
    for ty, i in sorted(pl.items()):
        if ty.startswith("&") or ty in ("f64", "[u8]", bt) or ty.startswith("chrono::"):
            continue
        b = c.methods_of_impl(i)["fmt"]
        calls = [t for _, t in b.calls() if t["call"]["name"] == "fmt"]
        n += 1
        if ty == "bytes::bytes::Bytes":
            ok = len(calls) == 1 and calls[0]["call"]["def"] == PLAIN + "::fmt" and tystr(calls[0]["call"]["substs"][0]) == "[u8]"
            if not ok and "[u8]" in pl:
                # or: renders through the same private helper / the same external calls and engine as Plain for [u8]
                from .. import inline as _inline
                TRANSP = ("core::ops::deref::Deref::deref", "core::convert::AsRef::as_ref", "core::borrow::Borrow::borrow")

                def sig(x):
                    ex = _inline.expand(c, x, depth=2, pred=lambda cb: cb.d.get("vis") != "pub")
                    return sorted(t["call"]["def"] for _, t in ex.calls() if not t["call"].get("local") and t["call"]["def"] not in TRANSP), c01.uses_b64_standard(ex)
                ok = sig(b) == sig(c.methods_of_impl(pl["[u8]"])["fmt"]) and bool(sig(b)[0])
            ctx.check(ok, "R12.4", b.loc(), f"plain|{ty}", "Plain for Bytes must delegate to Plain for [u8]", instance="Bytes -> Plain for [u8]")
            continue
        ok = len(calls) == 1 and calls[0]["call"]["def"] == "core::fmt::Display::fmt" and tystr(calls[0]["call"]["substs"][0]) == ty
        if not ok and len(calls) == 1 and calls[0]["call"]["def"] == "core::fmt::Display::fmt" and tystr(calls[0]["call"]["substs"][0]) == "str":
            # Display of the value's own text accessor (as_str / AsRef<str> / Deref): the same text <Self as Display> prints
            roots, via = dt.transforming_calls(b, calls[0]["args"][0])
            ok = len(via) == 1 and via[0]["call"]["name"] in ("as_str", "as_ref", "deref", "borrow") and ty_adt(strip_refs(b.local_ty(place_local(op_place(via[0]["args"][0]))))) == ty_adt({"adt": ty}) \
                and Tracer(b).root_locals(via[0]["args"][0]) == {1}
        if not ok and len(calls) == 1 and calls[0]["call"]["def"] == "core::fmt::Display::fmt":
            # or: formats the same component of the value, with the same std Display impl, as <Self as Display>::fmt does
            # (e.g. both print the wrapped i64) — decided with the local accessors (Deref, as_*) spliced in
            from .. import inline as _inline
            dsp = [x for x in c.bodies if x.trait == "core::fmt::Display" and x.name == "fmt" and tystr(x.self_ty or {}) == ty]

            def leaf(x):
                ex = _inline.expand(c, x, depth=2)
                lf = [t for _, t in ex.calls() if t["call"]["def"] == "core::fmt::Display::fmt"]
                if len(lf) != 1 or [t for _, t in ex.calls() if t["call"]["name"] in ("write_str", "write_fmt", "pad")]:
                    return None
                srcs = Tracer(ex).sources(lf[0]["args"][0])

                def norm(s_):
                    if s_[0] == "field":
                        return ("field", norm(s_[1]), tuple(e for e in thaw_list(s_[2]) if e is not None))
                    return s_
                return tystr(lf[0]["call"]["substs"][0]), frozenset(norm(s_) for s_ in srcs)

            def thaw_list(fr):
                from ..cfg import thaw
                out = []
                for e in thaw(fr):
                    if isinstance(e, dict) and "f" in e:
                        out.append(("f", e["f"]))
                return out
            if len(dsp) == 1:
                la, lb = leaf(b), leaf(dsp[0])
                ok = la is not None and la == lb
        ctx.check(ok, "R12.4", b.loc(), f"plain|{ty}", f"Plain for {ty} must resolve to <{ty} as Display>::fmt; found {[(t['call']['def'], tystr(t['call']['substs'][0])) for t in calls]}", instance=f"{ty}: Plain -> Display of Self")
    for ty, i in sorted(fp.items()):
        if ty in ("f64", "bytes::bytes::Bytes") or ty.startswith("chrono::"):
            continue
        b = c.methods_of_impl(i)["from_plain"]
        calls = [t for _, t in b.calls() if t["call"]["name"] in ("parse", "from_str")]
        n += 1
        ok = len(calls) == 1 and tystr(calls[0]["call"]["substs"][-1 if calls[0]["call"]["name"] == "parse" else 0]) == ty
        if not ok and not calls:
            # through the type's own constructor `T::new(s)`, itself a plain delegation to FromStr
            news = [t for _, t in b.calls() if t["call"].get("local") and t["call"]["name"] == "new" and tystr(t["call"].get("self_ty") or {}) == ty]
            if len(news) == 1:
                nb_ = c.body(news[0]["call"]["id"])
                inner = [t for _, t in nb_.calls() if t["call"]["name"] in ("parse", "from_str")] if nb_ is not None else []
                ok = len(inner) == 1 and tystr(inner[0]["call"]["substs"][-1 if inner[0]["call"]["name"] == "parse" else 0]) == ty and Tracer(nb_).root_locals(inner[0]["args"][0]) == {1} \
                    and Tracer(b).root_locals(news[0]["args"][0]) == {1}
        if not ok:
            # or: FromPlain and FromStr share one private parsing function
            fsb = [x for x in c.bodies if x.trait == "core::str::traits::FromStr" and x.name == "from_str" and tystr(x.self_ty or {}) == ty]
            ok = len(fsb) == 1 and same_parser(c, b, fsb[0])
        ctx.check(ok, "R12.4", b.loc(), f"fromplain|{ty}", f"FromPlain for {ty} must resolve to str::parse::<{ty}>; found {[(t['call']['name'], [tystr(x) for x in t['call']['substs']]) for t in calls]}", instance=f"{ty}: FromPlain -> FromStr of Self")
    ctx.floor("R12.4", "delegating PLAIN impls", n, 8)
    # ---------------- R12.5 generated aliases
    ct = F.crate("conjure_test")
    na = 0
    for i in ct.impls:
        tr = i.get("trait")
        if tr not in (PLAIN, FROM_PLAIN) or not instance.config_of(i["id"]):
            continue
        a = ty_adt(i["self_ty"])
        ad = ct.adts.get(a)
        if ad is None or ad["kind"] != "struct":
            continue  # enums: tables checked by C10
        na += 1
        inner = ad["variants"][0]["fields"][0]["ty"]
        ms = ct.methods_of_impl(i)
        if tr == PLAIN:
            b = ms["fmt"]
            calls = [t for _, t in b.calls() if t["call"]["def"] == PLAIN + "::fmt"]
            ok = len(calls) == 1 and tystr(strip_refs(calls[0]["call"]["substs"][0])) == tystr(inner)
            ctx.check(ok, "R12.5", b.loc(), f"{a}|plain", f"{a}: Plain must delegate to the aliased type {tystr(inner)}; found {[tystr(t['call']['substs'][0]) for t in calls]}", instance=f"{a.split('::')[-1]}: Plain -> {tystr(inner)}")
        else:
            b = ms["from_plain"]
            calls = [t for _, t in b.calls() if t["call"]["def"] == FROM_PLAIN + "::from_plain"]
            wrap = [t for _, t in b.calls() if t["call"]["name"] == "map" and any((x.get("c") or {}).get("fn", {}).get("def", "").startswith(a) for x in t["args"])]
            wrap2 = [s for _, _, s in b.stmts() if s["r"].get("agg") == "adt" and s["r"]["adt"] == a]
            ok = len(calls) == 1 and tystr(calls[0]["call"]["substs"][0]) == tystr(inner) and (wrap or wrap2)
            ctx.check(ok, "R12.5", b.loc(), f"{a}|fromplain", f"{a}: FromPlain must parse the aliased type {tystr(inner)} and wrap it in the alias; found {[tystr(t['call']['substs'][0]) for t in calls]}", instance=f"{a.split('::')[-1]}: FromPlain -> {tystr(inner)} -> alias")
    ctx.floor("R12.5", "generated alias PLAIN impls", na, 20)

    # ---------------- R12.6 decoders parse the received text itself
    ch = F.crate("conjure_http")
    SELECT = {"only_item", "optional_item", "next", "to_str", "as_ref", "as_str", "into_iter", "iter", "map", "as_bytes", "deref", "borrow"}
    nfp = 0
    for b in ch.bodies:
        for bb, t in b.calls():
            if t["call"]["def"] != FROM_PLAIN + "::from_plain" or not t["args"]:
                continue
            nfp += 1
            bad, work, seen = [], [t["args"][0]], set()
            vt = dt.value_tracer(b)
            while work:
                op = work.pop()
                roots, calls = dt.transforming_calls(b, op, vt)
                for c_ in calls:
                    if id(c_) in seen:
                        continue
                    seen.add(id(c_))
                    if c_["call"]["name"] in SELECT:
                        if c_["args"]:
                            work.append(c_["args"][0])
                    else:
                        bad.append(c_["call"]["name"])
            ctx.check(not bad, "R12.6", b.loc(t["ln"]), f"{b.path.split('::{closure')[0]}|from_plain|unmodified-input",
                      f"{b.path}: the text handed to from_plain passes through {bad}: a parameter must be parsed from exactly the text that was sent (PLAIN strings may legitimately start or end with any character)",
                      instance=f"{b.path.split('::')[-2] if '::' in b.path else b.path}: from_plain(received text)")
    ctx.floor("R12.6", "from_plain calls in the HTTP parameter decoders", nfp, 1)
    # ---------------- R12.7 a path parameter's PLAIN text reaches from_plain as sent ('/' inside it included): shared with C07
    from . import c07, c15
    ctx.include(c15, {"O7"}, "R12.8", "the PLAIN text of every safelong in range (17 characters for the most negative ones) must parse back")
    from . import c19 as _c19
    ctx.include(_c19, {"R19.9"}, "R12.9", "the PLAIN text of a parameter value (the empty text of an empty string or binary included) must reach the parser and come back as that value")
    ctx.include(c07, {"R7.5", "R7.9"}, "R12.7", "the PLAIN text of a path parameter (Base64 and tokens may contain '/') must reach the parser as the client wrote it")
