"""C15 — no path ever produces a safelong outside ±(2^53−1): proof by construction-site induction."""
from ..facts import ty_adt, tystr, walk_ty, place_local, place_proj, op_place, strip_refs
from ..cfg import CFG, Tracer
from .. import inline, dt, consteval

LEVEL = "proof"
SL = "conjure_object::safe_long::SafeLong"
CMAX = (1 << 53) - 1
CMIN = -CMAX
WORKSPACE = ["conjure_object", "conjure_serde", "conjure_error", "conjure_http", "conjure_codegen", "conjure_macros",
             "conjure_rust", "conjure_test"]
FORGE = ("transmute", "transmute_copy", "zeroed", "uninitialized", "assume_init", "read", "read_unaligned", "read_volatile",
         "from_raw", "from_raw_parts", "from_raw_parts_mut")
NARROW_OK = {  # lossless integer conversions into i64 (source type set)
    "i64": {"i8", "i16", "i32", "i64", "u8", "u16", "u32", "isize"},
}

EXPLANATION = (
    "Proof by induction over program steps that every value of type SafeLong lies in [-(2^53-1), 2^53-1]: (O1) the "
    "representation is private and no code hands out mutable access to it; (O2) every construction site "
    "Aggregate(SafeLong) in the whole workspace is enumerated from the compiler's MIR and is a folded in-range constant, "
    "a widening of a <=32-bit integer, a copy/default, or control-dependent on v >= Cmin and v <= Cmax for the same "
    "never-reassigned v; (O3) Cmin/Cmax fold to exactly -(2^53-1) / 2^53-1 and the accepted interval equals the "
    "specification's (so every in-range integer is accepted and out-of-range input reaches only the Err return); "
    "(O4) no transmute / raw read / zeroed instantiation mentions the type; (O5) every conversion route feeds the checked "
    "constructor through lossless integer conversions only (i64::try_from / str::parse::<i64> / i64::deserialize), so "
    "accepted values keep their value. NOT decided: nothing about text formatting of i64 (std).")


def mentions_sl(t):
    return any(n.get("adt") == SL for n in walk_ty(t))


def interval_for(ctx, crate, body, cfg, site_bb, vlocal):
    """(lo, hi, unknown_conditions) implied for local v by the branch outcomes dominating site_bb"""
    tr = Tracer(body)
    lo, hi = None, None
    unknown = []
    for s, allowed, allv in dt.edge_conditions(cfg, site_bb):
        atom = dt.switch_atom(body, s)
        pol = dt.bool_polarity(allowed)
        if atom[0] == "call" and pol is not None and atom[1]["call"]["def"] in RANGE_CONTAINS and len(atom[1]["args"]) == 2 \
                and Tracer(body, through_calls=False).root_locals(atom[1]["args"][1]) == {vlocal}:
            # (lo..=hi).contains(&v) / (lo..hi).contains(&v)
            rb_ = range_bounds(crate, body, atom[1]["args"][0])
            if rb_ is None:
                unknown.append((s, "range with non-constant bounds"))
                continue
            rlo, rhi = rb_
            if RANGE_CONTAINS[atom[1]["call"]["def"]] == "exclusive":
                rhi -= 1
            if pol:
                lo = rlo if lo is None else max(lo, rlo)
                hi = rhi if hi is None else min(hi, rhi)
            else:
                unknown.append((s, "outside a range (not an interval)"))
            continue
        if atom[0] != "bin" or pol is None:
            unknown.append((s, atom[0]))
            continue
        op, a, b = atom[1], atom[2], atom[3]
        ra, rb = tr.root_locals(a), tr.root_locals(b)
        if ra == {vlocal}:
            other = b
        elif rb == {vlocal}:
            other = a
            op = {"Lt": "Gt", "Le": "Ge", "Gt": "Lt", "Ge": "Le"}.get(op, op)
        else:
            unknown.append((s, "bin on other values"))
            continue
        val = bound_value(crate, body, other)
        if val is None:
            unknown.append((s, "non-constant bound"))
            continue
        if not pol:
            op = {"Lt": "Ge", "Le": "Gt", "Gt": "Le", "Ge": "Lt", "Eq": "Ne", "Ne": "Eq"}[op]
        if op == "Ge":
            lo = val if lo is None else max(lo, val)
        elif op == "Gt":
            lo = val + 1 if lo is None else max(lo, val + 1)
        elif op == "Le":
            hi = val if hi is None else min(hi, val)
        elif op == "Lt":
            hi = val - 1 if hi is None else min(hi, val - 1)
        else:
            unknown.append((s, "equality test"))
    return lo, hi, unknown


RANGE_CONTAINS = {"core::ops::range::RangeInclusive::<Idx>::contains": "inclusive", "core::ops::range::Range::<Idx>::contains": "exclusive"}


def range_bounds(crate, body, op):
    """(lo, hi) of a RangeInclusive / Range operand built from constant bounds: a promoted `lo..=hi`, or a range constructed
    in the body from foldable bounds"""
    folded = fold_range(crate, body, op)
    if folded is not None:
        return folded
    r = dt.resolve_copy(body, op)
    # strip reborrows down to the defining constant / statement
    seen = 0
    while r[0] == "def" and r[1][1] != "T" and "ref" in r[1][2]["r"] and seen < 6:
        seen += 1
        pl = r[1][2]["r"]["ref"]
        r = dt.resolve_copy(body, {"cp": pl if isinstance(pl, int) else pl["l"]})
    if r[0] == "const" and "promoted" in r[1]:
        pb = body.d["promoted"][r[1]["promoted"]]
        for blk in pb["blocks"]:
            t = blk["t"]
            if "call" in t and t["call"]["def"] in ("core::ops::range::RangeInclusive::<Idx>::new",) and len(t["args"]) == 2:
                vals = [(a.get("c") or {}).get("int") for a in t["args"]]
                if all(isinstance(v, int) for v in vals):
                    return vals[0], vals[1]
            for st in blk["s"]:
                if "d" in st and st["r"].get("agg") == "adt" and st["r"]["adt"] in ("core::ops::range::Range",):
                    vals = [(a.get("c") or {}).get("int") for a in st["r"]["ops"]]
                    if all(isinstance(v, int) for v in vals):
                        return vals[0], vals[1]
        return None
    if r[0] == "def" and r[1][1] == "T" and r[1][2]["call"]["def"] == "core::ops::range::RangeInclusive::<Idx>::new":
        vals = [bound_value(crate, body, a) for a in r[1][2]["args"]]
        if all(isinstance(v, int) for v in vals):
            return vals[0], vals[1]
    if r[0] == "def" and r[1][1] != "T" and r[1][2]["r"].get("agg") == "adt" and r[1][2]["r"]["adt"] == "core::ops::range::Range":
        vals = [bound_value(crate, body, a) for a in r[1][2]["r"]["ops"]]
        if all(isinstance(v, int) for v in vals):
            return vals[0], vals[1]
    return None


def fold_operand(crate, body, op, depth=0):
    """value of an operand that depends on constants only (literals, const items evaluated through their initialisers,
    promoted constants, calls of foldable functions on such values) — by the decision-table interpreter; None otherwise"""
    from .. import minterp
    I = minterp.Interp(body.facts, crate, inline=lambda d_, rid: rid.startswith(crate.name + "::"), max_depth=3)

    def ev(o, dep):
        if dep > 12:
            raise minterp.Unsupported("depth")
        if o.get("c") is not None:
            return I.operand(body, {}, o)
        p = op_place(o)
        l = place_local(p)
        if 1 <= l <= body.argc:
            raise minterp.Unsupported("parameter")
        d = dt.single_def(body, l)
        if d is None:
            raise minterp.Unsupported("no single definition")
        if d[1] == "T":
            base = I.call(body, d[2]["call"], [ev(a, dep + 1) for a in d[2]["args"]], 0)
        else:
            r = d[2]["r"]
            if "use" in r:
                base = ev(r["use"], dep + 1)
            elif "ref" in r:
                base = ev({"cp": r["ref"]}, dep + 1)
            elif "un" in r or "bin" in r or "cast" in r or "agg" in r:
                env = {}
                for k in ("a", "b", "cast"):
                    if isinstance(r.get(k), dict) and op_place(r[k]) is not None:
                        env[place_local(op_place(r[k]))] = ev({"cp": place_local(op_place(r[k]))}, dep + 1)
                for o2 in r.get("ops", []):
                    if op_place(o2) is not None:
                        env[place_local(op_place(o2))] = ev({"cp": place_local(op_place(o2))}, dep + 1)
                base = I.rvalue(body, env, r)
            else:
                raise minterp.Unsupported("rvalue")
        proj = [e for e in place_proj(p) if e != "*"]
        if proj:
            return I.place(body, {l: base}, {"l": l, "p": proj})
        return base
    try:
        return ev(op, depth)
    except (minterp.Unsupported, KeyError, IndexError, TypeError):
        return None


def fold_range(crate, body, op):
    from .. import minterp
    v = fold_operand(crate, body, op)
    if minterp.is_adt(v) and v[1] in ("core::ops::range::RangeInclusive", "core::ops::range::Range") and len(v[3]) >= 2 \
            and all(isinstance(x, int) and not isinstance(x, bool) for x in v[3][:2]):
        return v[3][0], v[3][1]
    return None


def bound_value(crate, body, op):
    """integer value of a bound operand: literal, or deref of the result of a foldable local function"""
    r = dt.resolve_copy(body, op)
    if r[0] == "const":
        return r[1].get("int")
    if r[0] == "place":
        # (*_x) where _x = Deref::deref(&_y), _y = call f()
        p = r[1]
        l = place_local(p)
        d = dt.single_def(body, l)
        # (_y).0 where _y = call f(): the representation field of a foldable SafeLong-returning function
        if d and d[1] == "T" and [e.get("f") for e in place_proj(p) if isinstance(e, dict)] == [0] and all(isinstance(e, dict) for e in place_proj(p)):
            return fold_call(crate, d[2])
        if d and d[1] == "T" and d[2]["call"]["def"] == "core::ops::deref::Deref::deref":
            inner = dt.resolve_copy(body, d[2]["args"][0])
            if inner[0] == "def" and inner[1][1] == "T":
                return fold_call(crate, inner[1][2])
            if inner[0] == "def" and "ref" in inner[1][2]["r"]:
                src = dt.single_def(body, place_local(inner[1][2]["r"]["ref"]))
                if src and src[1] == "T":
                    return fold_call(crate, src[2])
    if r[0] == "def" and r[1][1] == "T":
        return fold_call(crate, r[1][2])
    return None


def fold_call(crate, term):
    f = term["call"]
    if not f.get("local") or term["args"]:
        return None
    b = crate.body(f["id"])
    if b is None:
        return None
    try:
        v = consteval.fold_function(b, crate)
    except consteval.NotConst:
        return None
    if isinstance(v, tuple) and v and v[0] == "adt" and len(v[2]) == 1:
        return v[2][0]
    return v if isinstance(v, int) else None


def boundary_table(ctx, c, b):
    """A function of one integer (of any width) into Result<SafeLong, _>, evaluated on the boundary values of the safe range
    and of its parameter type (decision-table interpreter; casts wrap, TryFrom narrows or fails): True when it returns
    Ok(SafeLong(v)) exactly for v in range and Err otherwise, False when some probe differs, None when it leaves the
    interpretable fragment."""
    from .. import minterp as _mi
    p = int_prim(b.local_ty(1)) if b.argc == 1 else None
    if p is None:
        return None
    bits = consteval.INT_BITS[p]
    signed = p.startswith("i")
    tmin, tmax = (-(1 << (bits - 1)), (1 << (bits - 1)) - 1) if signed else (0, (1 << bits) - 1)
    cands = [CMIN - 1, CMIN, CMIN + 1, -1, 0, 1, CMAX - 1, CMAX, CMAX + 1, -(1 << 63), (1 << 63) - 1, 1 << 63, (1 << 64) - 1, 1 << 64, (1 << 64) + CMAX, (1 << 127) - 1, -(1 << 127),
             (1 << 128) - 1, (1 << 128) - CMAX, (1 << 128) - CMAX - 1, (1 << 64) - CMAX, tmin, tmax, tmax - CMAX, tmax - CMAX + 1]
    probes = sorted({v for v in cands if tmin <= v <= tmax})
    I_ = _mi.Interp(ctx.F, c, inline=lambda d_, rid: rid.startswith("conjure_object::") and rid != b.id, max_depth=4)
    try:
        for v_ in probes:
            r_ = I_.run(b, [v_])
            if not (_mi.is_adt(r_) and r_[1] == "core::result::Result"):
                return None
            is_ok = r_[2] == 0
            payload = r_[3][0] if is_ok and r_[3] else None
            val_ok = _mi.is_adt(payload) and payload[1] == SL and payload[3] and payload[3][0] == v_
            if (CMIN <= v_ <= CMAX) != bool(is_ok and val_ok) or (not (CMIN <= v_ <= CMAX) and r_[2] != 1):
                return False
    except _mi.Unsupported:
        return None
    return True


def _int_range(p):
    bits = consteval.INT_BITS[p]
    return (-(1 << (bits - 1)), (1 << (bits - 1)) - 1) if p.startswith("i") else (0, (1 << bits) - 1)


def int_prim(t):
    return t.get("prim") if t and t.get("prim") in consteval.INT_BITS else None


def run(ctx):
    ctx.explanation = EXPLANATION
    ctx.assumptions = ["rustc type checking, MIR construction (facts are the compiler's analysis-phase MIR of every workspace crate)",
                       "std integer conversions (From/TryFrom/str::parse) are value preserving or fail",
                       "field privacy is enforced by the compiler for all crates outside conjure_object"]
    co = ctx.F.crate("conjure_object")
    adt = co.adts.get(SL)
    if adt is None:
        ctx.violation("O1", "conjure_object", "anchor|SafeLong", f"ADT {SL} not found")
        return
    # ---------------- O1 private representation, no mutable access
    f0 = adt["variants"][0]["fields"]
    o1 = len(adt["variants"]) == 1 and len(f0) == 1 and f0[0]["vis"] == "priv" and tystr(f0[0]["ty"]) == "i64"
    ctx.check(o1, "O1", f"{adt['file']}:{adt['line']}", "SafeLong|private-i64", f"SafeLong must be a single private i64 field; found {[(f['name'], f['vis'], tystr(f['ty'])) for f in f0]}",
              instance="SafeLong(priv i64)")
    bad_traits = ("core::ops::deref::DerefMut", "core::convert::AsMut", "core::borrow::BorrowMut", "core::ops::index::IndexMut")
    mut_impls = [i for i in co.impls if i.get("trait") in bad_traits and ty_adt(i["self_ty"]) == SL]
    ctx.check(not mut_impls, "O1", "conjure_object", "SafeLong|no-mut-traits", f"mutable-access trait impls for SafeLong: {[i['trait'] for i in mut_impls]}",
              instance="no DerefMut/AsMut/BorrowMut/IndexMut for SafeLong")
    n_mut = 0
    scanned = 0
    for b in co.bodies:
        for bb, j, s in b.stmts():
            scanned += 1
            # &mut into the field or assignment through the field of a SafeLong-typed place
            for place, is_write in ((s["d"], True), (s["r"].get("ref") if s["r"].get("mut") else None, False), (s["r"].get("rawptr"), False)):
                if place is None or isinstance(place, int):
                    continue
                t = b.local_ty(place["l"])
                cur = t
                for e in place["p"]:
                    if e == "*":
                        cur = cur.get("ref") or cur.get("ptr") if cur else None
                    elif isinstance(e, dict) and "f" in e:
                        if cur and cur.get("adt") == SL:
                            n_mut += 1
                            ctx.violation("O1", b.loc(s["ln"]), f"{b.id}|mut-field", f"{b.id}: {'writes' if is_write else 'mutably borrows'} the representation field of a SafeLong in place")
                        cur = dt.place_ty(b, ctx.F, {"l": place["l"], "p": place["p"][:place["p"].index(e) + 1]}) if cur else None
                    else:
                        cur = None
    ctx.check(n_mut == 0, "O1", "conjure_object", "SafeLong|no-field-writes", "in-place writes / &mut borrows of the field exist", instance=f"{scanned} statements scanned: no write or &mut to SafeLong.0")
    ctx.obligation("O1 private representation, no mutable access", o1 and not mut_impls and n_mut == 0)

    # ---------------- O2/O3 construction sites, workspace-wide
    sites = []
    for cn in WORKSPACE:
        c = ctx.F.crate(cn)
        ctx.units[f"{cn} bodies"] = len(c.bodies)
        for b in c.bodies:
            for bb, j, s in b.stmts():
                if s["r"].get("agg") == "adt" and s["r"]["adt"] == SL:
                    sites.append((c, b, bb, j, s))
            for pk, p in enumerate(b.d.get("promoted", [])):
                for blk in p["blocks"]:
                    for s in blk["s"]:
                        if "d" in s and s["r"].get("agg") == "adt" and s["r"]["adt"] == SL:
                            ctx.violation("O2", b.loc(), f"{b.id}|promoted-site", f"{b.id}: SafeLong constructed inside a promoted constant (not analysable)")
    all_ok = True
    bounds_seen = {}
    guarded = 0
    for c, b, bb, j, s in sites:
        op = s["r"]["ops"][0]
        where = b.loc(s["ln"])
        kind = None
        detail = ""
        # K1 constant
        try:
            if b.argc == 0:
                v = consteval.fold_function(b, c)
                if isinstance(v, tuple) and v[0] == "adt":
                    val = v[2][0]
                    if CMIN <= val <= CMAX:
                        kind = "K1"
                        detail = f"constant {val}"
                        bounds_seen[b.name] = val
        except consteval.NotConst:
            pass
        if kind is None:
            fv = fold_operand(c, b, op)
            if isinstance(fv, int) and not isinstance(fv, bool) and CMIN <= fv <= CMAX:
                kind, detail = "K1", f"constant {fv}"
                if b.argc == 0:
                    bounds_seen[b.name] = fv
        tr = Tracer(b)
        if kind is None:
            r = dt.resolve_copy(b, op)
            # K2 widening of <=32 bit integer through i64::from / lossless cast
            if r[0] == "def" and r[1][1] == "T":
                t = r[1][2]
                f = t["call"]
                if f["def"] == "core::convert::From::from" and tystr(f["substs"][0]) == "i64" and tystr(f["substs"][1]) in ("u8", "i8", "u16", "i16", "u32", "i32"):
                    kind, detail = "K2", f"i64::from({tystr(f['substs'][1])})"
                elif f["def"] == "core::default::Default::default" and tystr(f["substs"][0]) == "i64":
                    kind, detail = "K4", "i64::default()"
            elif r[0] == "def" and "cast" in r[1][2]["r"]:
                rv = r[1][2]["r"]
                src = b.local_ty(place_local(op_place(rv["cast"]))) if op_place(rv["cast"]) is not None else None
                if rv["kind"].startswith("IntToInt") and int_prim(src) in ("u8", "i8", "u16", "i16", "u32", "i32"):
                    kind, detail = "K2", f"{int_prim(src)} as i64"
            elif r[0] == "place":
                # K4 copy of the field of an existing SafeLong
                bt = dt.place_ty(b, ctx.F, {"l": r[1]["l"], "p": [e for e in r[1]["p"]][:-1]}) if not isinstance(r[1], int) and r[1]["p"] else None
                while bt and "ref" in bt:
                    bt = bt["ref"]
                if bt and bt.get("adt") == SL:
                    kind, detail = "K4", "copy of an existing SafeLong's field"
            elif r[0] == "const" and "int" in r[1] and CMIN <= r[1]["int"] <= CMAX:
                kind, detail = "K1", f"literal {r[1]['int']}"
        if kind is None:
            # K3 guarded
            roots = tr.root_locals(op)
            if len(roots) == 1:
                v = next(iter(roots))
                reassigned = bool(b.defs().get(v)) and 1 <= v <= b.argc
                cfg = CFG(b)
                lo, hi, unknown = interval_for(ctx, c, b, cfg, bb, v)
                if not reassigned and not unknown and lo == CMIN and hi == CMAX and tystr(b.local_ty(v)) == "i64":
                    kind, detail = "K3", f"control-dependent on {CMIN} <= _{v} <= {CMAX} (inclusive, same local, never reassigned)"
                    guarded += 1
                    # every Ok return of this function is the guarded one (no clamping route)
                    for okbb, oj, os_ in dt.ok_return_blocks(b):
                        l2, h2, u2 = interval_for(ctx, c, b, cfg, okbb, v)
                        ctx.check(l2 == CMIN and h2 == CMAX and not u2, "O3", b.loc(os_["ln"]), f"{b.id}|ok-only-in-range",
                                  f"{b.id}: an Ok(..) return is reachable under interval [{l2}, {h2}] (extra conditions {u2}); out-of-range input must be an error, in-range input must be accepted",
                                  instance=f"{b.name}: Ok returned exactly for [{CMIN}, {CMAX}]")
                else:
                    detail = f"guard interval [{lo}, {hi}], unknown conditions {unknown}, reassigned={reassigned}; required exactly [{CMIN}, {CMAX}]"
        if kind is None and b.argc == 1 and int_prim(b.local_ty(1)) and tystr(b.local_ty(1)) != "i64" and c.name == "conjure_object" and boundary_table(ctx, c, b) is True:
            kind, detail = "K5", f"selected by the range test: Ok(SafeLong(v)) exactly for {CMIN} <= v <= {CMAX} on the boundary probes of {tystr(b.local_ty(1))}, Err otherwise"
            guarded += 1
        if kind is None and b.argc == 1 and tystr(b.local_ty(1)) == "i64" and c.name == "conjure_object":
            # K5 the value is built eagerly and *selected* by the range test (`in_range.then_some(SafeLong(v)).ok_or(..)`): the
            # function is evaluated on the boundary values; it must return Ok(SafeLong(v)) exactly for v in range, so an
            # out-of-range SafeLong never leaves it (decision table over the 9 boundary probes, not a path argument)
            from .. import minterp as _mi
            I_ = _mi.Interp(ctx.F, c, inline=lambda d_, rid: rid.startswith("conjure_object::") and rid != b.id, max_depth=4)
            probes = [CMIN - 1, CMIN, CMIN + 1, -1, 0, 1, CMAX - 1, CMAX, CMAX + 1, -(1 << 63), (1 << 63) - 1]
            try:
                good = True
                for v_ in probes:
                    r_ = I_.run(b, [v_])
                    is_ok = _mi.is_adt(r_) and r_[1] == "core::result::Result" and r_[2] == 0
                    payload = r_[3][0] if is_ok and r_[3] else None
                    val_ok = _mi.is_adt(payload) and payload[1] == SL and payload[3] and payload[3][0] == v_
                    if (CMIN <= v_ <= CMAX) != bool(is_ok and val_ok) or (not (CMIN <= v_ <= CMAX) and not (_mi.is_adt(r_) and r_[2] == 1)):
                        good = False
                if good:
                    kind, detail = "K5", f"selected by the range test: Ok(SafeLong(v)) exactly for {CMIN} <= v <= {CMAX} on {len(probes)} boundary probes, Err otherwise"
                    guarded += 1
            except _mi.Unsupported:
                pass
        ok = kind is not None
        all_ok = all_ok and ok
        ctx.check(ok, "O2", where, f"{b.id}|construction-site",
                  f"{b.id}: SafeLong constructed from an unchecked operand ({detail or 'not a range-checked, constant or <=32-bit value'})",
                  instance=f"{b.id}: {kind} {detail}")
    ctx.floor("O2", "SafeLong construction sites in the workspace", len(sites), 4)
    ctx.check(guarded >= 1, "O2", "conjure_object", "guarded-site-exists", "no range-checked construction site found (the checked constructor is gone)", instance="checked constructor present")
    ctx.obligation("O2 every construction site is constant / widening / copy / range-guarded", all_ok and len(sites) >= 10 and guarded >= 1,
                   f"{len(sites)} sites")
    # O3 exact bounds of the public min/max
    # (the public bounds may be built elsewhere — associated consts — and only returned here: evaluate the functions themselves)
    from .. import minterp as _mi2
    co_ = ctx.F.crate("conjure_object")
    for nm_ in ("min_value", "max_value"):
        if nm_ in bounds_seen:
            continue
        for fb_ in co_.bodies:
            if fb_.name == nm_ and fb_.argc == 0 and fb_.kind in ("fn", "assoc_fn") and ty_adt(fb_.local_ty(0)) == SL:
                try:
                    v_ = _mi2.Interp(ctx.F, co_, inline=lambda d_, rid: True, max_depth=3).run(fb_, [])
                    if _mi2.is_adt(v_) and v_[1] == SL and v_[3] and isinstance(v_[3][0], int) and not isinstance(v_[3][0], bool):
                        bounds_seen[nm_] = v_[3][0]
                except _mi2.Unsupported:
                    pass
    mn, mx = bounds_seen.get("min_value"), bounds_seen.get("max_value")
    o3 = ctx.check(mn == CMIN and mx == CMAX, "O3", "conjure-object/src/safe_long.rs", "bounds|min-max",
                   f"min_value/max_value fold to {mn}/{mx}, expected {CMIN}/{CMAX}", instance=f"min_value = {mn}, max_value = {mx}")
    ctx.obligation("O3 bounds exact and inclusive", o3 and not any(v["rule"] == "O3" for v in ctx.viol))

    # ---------------- O4 no forging
    forged = 0
    ncalls = 0
    for cn in WORKSPACE:
        c = ctx.F.crate(cn)
        for b in c.bodies:
            for bb, t in b.calls():
                ncalls += 1
                f = t["call"]
                if f.get("name") in FORGE and not f.get("local") and any(mentions_sl(x) for x in f.get("substs", [])):
                    forged += 1
                    ctx.violation("O4", b.loc(t["ln"]), f"{b.id}|forge|{f['def']}", f"{b.id}: {f['def']} instantiated with a type containing SafeLong")
            for bb, j, s in b.stmts():
                r = s["r"]
                if "cast" in r and ("Transmute" in r["kind"] or "PtrToPtr" in r["kind"]) and (mentions_sl(r["to"])):
                    forged += 1
                    ctx.violation("O4", b.loc(s["ln"]), f"{b.id}|cast", f"{b.id}: {r['kind']} cast to {tystr(r['to'])}")
            if b.d.get("unsafe") and b.file.endswith("safe_long.rs"):
                forged += 1
                ctx.violation("O4", b.loc(), f"{b.id}|unsafe-fn", "unsafe fn in the safe_long module")
    ctx.check(forged == 0, "O4", "workspace", "no-forging", "forging constructs found", instance=f"{ncalls} calls scanned: no transmute/zeroed/raw read of SafeLong")
    ctx.obligation("O4 no transmute / raw construction", forged == 0)

    # ---------------- O5 routes: lossless conversions only, and the routes exist
    o5 = True
    routes = 0
    new_body = [b for b in co.bodies if b.impl and ty_adt(b.self_ty) == SL and not b.trait and b.name == "new"]
    for b in co.bodies:
        fam = [b] + co.closures_of(b)
        if b.kind not in ("fn", "assoc_fn"):
            continue
        uses_new = any(t["call"].get("def") == f"{SL}::new" or any((a.get("c") or {}).get("fn", {}).get("def") == f"{SL}::new" for a in t["args"])
                       for x in fam for _, t in x.calls())
        if not uses_new:
            continue
        routes += 1
        for x in fam:
            for bb, j, s in x.stmts():
                r = s["r"]
                if "cast" in r and (r["kind"].startswith("IntToInt") or r["kind"].startswith("FloatToInt")):
                    src_p = op_place(r["cast"])
                    src = int_prim(x.local_ty(place_local(src_p))) if src_p is not None else None
                    to = int_prim(r["to"])
                    lossless = (to == "i64" and src in NARROW_OK["i64"]) or (src and to and _int_range(src)[0] >= _int_range(to)[0] and _int_range(src)[1] <= _int_range(to)[1])
                    if not lossless and to in consteval.INT_BITS and src in consteval.INT_BITS:
                        o5 = False
                        ctx.violation("O5", x.loc(s["ln"]), f"{b.id}|lossy-cast", f"{b.id}: `{src} as {to}` on a route into the checked constructor: out-of-range input could wrap into range instead of being rejected")
        ctx.ok("O5", b.loc(), f"{b.id}: reaches SafeLong::new without lossy casts")
    ctx.floor("O5", "conversion routes through SafeLong::new", routes, 1)
    # the std conversions used are the value-preserving ones
    for b in co.bodies:
        if b.trait == "core::convert::TryFrom" and ty_adt(b.self_ty) == SL:
            # the narrowing step (directly, or in a private helper shared by the width conversions): i64::try_from(n) / n.try_into()
            eb_, fam_ = inline.expanded_family(co, b, depth=2, pred=lambda cb: cb.d.get("vis") != "pub" and cb.file == b.file and cb.name != "new")
            tf = [t for x in fam_ for _, t in x.calls() if (t["call"]["def"] == "core::convert::TryFrom::try_from" and tystr(t["call"]["substs"][0]) == "i64")
                  or (t["call"]["def"] == "core::convert::TryInto::try_into" and len(t["call"]["substs"]) >= 2 and tystr(t["call"]["substs"][1]) == "i64")]
            src_t = tystr(strip_refs(b.local_ty(1))) if b.argc == 1 else ""
            if src_t in ("str", "alloc::string::String"):
                # a text source: the conversion is the FromStr route (decided there)
                fs_ = [t for x in fam_ for _, t in x.calls() if (t["call"]["def"] == "core::str::traits::FromStr::from_str" and ty_adt(t["call"]["substs"][0]) == SL)
                       or (t["call"].get("name") == "parse" and "core::str" in t["call"]["def"] and any(ty_adt(x_) == SL for x_ in t["call"]["substs"]))]
                o5 &= ctx.check(len(fs_) == 1, "O5", b.loc(), f"{b.id}|text-route", f"{b.id}: a conversion from text must delegate to SafeLong's FromStr", instance=f"{b.id}: TryFrom<{src_t}> -> FromStr")
                continue
            bt_all = boundary_table(ctx, co, b) if int_prim(b.local_ty(1) if b.argc == 1 else None) else None
            if bt_all is False:
                o5 &= ctx.check(False, "O5", b.loc(), f"{b.id}|boundary-table", f"{b.id}: does not return Ok(SafeLong(v)) exactly for the in-range values of {src_t} (boundary values of the source type evaluated)")
                continue
            if len(tf) != 1:
                # not narrowed through i64::try_from: decided on the boundary values of the source type instead; or a delegation
                # to another TryFrom of SafeLong after a lossless widening
                bt_ = boundary_table(ctx, co, b)
                o5 &= ctx.check(bt_ is True, "O5", b.loc(), f"{b.id}|i64-try_from", f"{b.id}: narrowing must go through i64::try_from / try_into::<i64>, or return Ok(SafeLong(v)) exactly for the in-range values of its source type "
                                f"(boundary table: {'differs' if bt_ is False else 'not evaluable'})", instance=f"{b.id}: boundary table over {src_t}")
                continue
            o5 &= ctx.check(len(tf) == 1, "O5", b.loc(), f"{b.id}|i64-try_from", f"{b.id}: narrowing must go through i64::try_from / try_into::<i64>", instance=f"{b.id}: i64::try_from")
        if b.trait == "core::str::traits::FromStr" and ty_adt(b.self_ty) == SL:
            # str::parse::<i64>() or its definition <i64 as FromStr>::from_str(), directly or in a private helper
            eb_ = inline.expand(co, b, depth=2, pred=lambda cb: cb.d.get("vis") != "pub" and cb.name != "new", lower=True)
            ps = [t for _, t in eb_.calls() if (t["call"].get("name") == "parse" and "core::str" in t["call"]["def"] and any(tystr(x) == "i64" for x in t["call"]["substs"]))
                  or (t["call"]["def"] == "core::str::traits::FromStr::from_str" and tystr(t["call"]["substs"][0]) == "i64")]
            o5 &= ctx.check(len(ps) == 1, "O5", b.loc(), f"{b.id}|parse-i64", "FromStr must parse an i64 (failure set lies outside the range)", instance="FromStr: str::parse::<i64>")
        if b.trait == "serde_core::de::Deserialize" and ty_adt(b.self_ty) == SL:
            dz = [t for _, t in b.calls() if t["call"]["def"] == "serde_core::de::Deserialize::deserialize" and tystr(t["call"]["substs"][0]) == "i64"]
            o5 &= ctx.check(len(dz) == 1, "O5", b.loc(), f"{b.id}|deserialize-i64", "Deserialize must read an i64 then range-check it", instance="Deserialize: i64::deserialize then new")
    # FromPlain resolves to FromStr
    fp = [b for b in co.bodies if b.trait == "conjure_object::plain::FromPlain" and ty_adt(b.self_ty) == SL]
    for b in fp:
        fs = [t for _, t in b.calls() if t["call"]["def"] == "core::str::traits::FromStr::from_str" and ty_adt(t["call"]["substs"][0]) == SL
              or (t["call"].get("name") == "parse" and any(ty_adt(x) == SL for x in t["call"]["substs"]))]
        ok_fp = len(fs) == 1
        if not ok_fp:
            from . import c12 as _c12
            fsb = [x for x in co.bodies if x.trait == "core::str::traits::FromStr" and x.name == "from_str" and ty_adt(x.self_ty) == SL]
            ok_fp = len(fsb) == 1 and _c12.same_parser(co, b, fsb[0])
        o5 &= ctx.check(ok_fp, "O5", b.loc(), f"{b.id}|fromplain", "FromPlain for SafeLong must delegate to its FromStr (or share its parsing function)", instance="FromPlain -> FromStr")
    o5 &= ctx.check(len(fp) == 1, "O5", "conjure_object", "fromplain-exists", "FromPlain for SafeLong missing", nontrivial=False)
    ctx.obligation("O5 routes use lossless conversions and the checked constructor", o5 and routes >= 8)
    # ---------------- O7 text routes accept every in-range integer: the parser sees the whole input, and an input is refused only
    # on the verdict of the i64 parser or of the range check (no pre-filter on length / prefix / shape can be complete:
    # "-9007199254740991" has 17 characters, "+1" and "0001" are integers)
    PARSERS = ("parse", "from_str", "from_plain", "deserialize")
    VIEW = {"as_ref", "deref", "borrow", "as_str", "into", "from"}
    n7 = 0
    for b in co.bodies:
        if ty_adt(b.self_ty) != SL or b.kind != "assoc_fn" or not ((b.trait == "core::str::traits::FromStr" and b.name == "from_str") or (b.trait == "conjure_object::plain::FromPlain" and b.name == "from_plain")):
            continue
        n7 += 1
        eb = inline.expand(co, b, depth=2, pred=lambda cb: cb.d.get("vis") != "pub" and cb.name != "new", lower=True)
        cfg7 = CFG(eb)
        vt7 = dt.value_tracer(eb)
        leaves = [(bb, t) for bb, t in eb.calls() if t["call"]["name"] in PARSERS and t["args"] and "str" in tystr(strip_refs(eb.local_ty(place_local(op_place(t["args"][0]))) or {}) if op_place(t["args"][0]) is not None else {})]
        verdicts = [(bb, t) for bb, t in eb.calls() if t["call"]["name"] in PARSERS + ("new", "try_from", "try_into")]
        ctx.check(len(leaves) >= 1, "O7", b.loc(), f"{b.id}|parser", f"{b.id}: no parser call on the text found", nontrivial=False)
        for lbb, lt in leaves:
            roots, via = dt.transforming_calls(eb, lt["args"][0], vt7)
            bad = [c_["call"]["name"] for c_ in via if c_["call"]["name"] not in VIEW]
            ctx.check(not bad, "O7", eb.loc(lt["ln"]), f"{b.id}|whole-input",
                      f"{b.id}: the text handed to {lt['call']['name']} is not the input itself (it passes through {bad}): digits cut off or characters altered turn an out-of-range or malformed input into an accepted in-range value, or an in-range one into an error",
                      instance=f"{b.id}: {lt['call']['name']}(the whole input)")
        rets7 = dt.return_aliases(eb)
        errs = [(bb, s_["ln"]) for bb, j, s_ in eb.stmts() if place_local(s_["d"]) in rets7 and not place_proj(s_["d"]) and s_["r"].get("agg") == "adt" and s_["r"].get("variant") == "Err"]
        errs += [(bb, t["ln"]) for bb, t in eb.calls() if t["call"]["name"] == "from_residual" and place_local(t["dest"]) in rets7]
        for ebb, eln in errs:
            foreign = []
            for sbb, allowed, allv in dt.edge_conditions(cfg7, ebb):
                atom = dt.switch_atom(eb, sbb)
                ok_ = False
                if atom[0] == "discr":
                    ok_ = any(dt.derives_from_call(eb, {"cp": place_local(atom[1])}, vbb, vt7) for vbb, _ in verdicts)
                elif atom[0] == "call":
                    ok_ = any(atom[1] is vt_ for _, vt_ in verdicts)
                if not ok_:
                    foreign.append(atom[0] if atom[0] != "call" else atom[1]["call"]["name"])
            ctx.check(not foreign, "O7", eb.loc(eln), f"{b.id}|rejects-only-on-verdict",
                      f"{b.id}: an error return depends on a condition other than the parser's / range check's verdict ({foreign}): some in-range integer's text is refused",
                      instance=f"{b.id}: Err only where the i64 parser or SafeLong::new failed")
    ctx.floor("O7", "text routes into SafeLong", n7, 2)
    # ---------------- O6 in-range safelong map keys are not refused by Any's key coercion (shared with C13 R13.3)
    from . import c13
    ctx.include(c13, {"R13.3", "R13.2"}, "O6", "a safelong read through the dynamic `any` must keep its value: in-range map keys are accepted, integers are carried in a variant of their own width (an out-of-range u64 must not wrap into range)")

