#!/usr/bin/env python3
"""Regenerates /verif/MANIFEST.json from the table below (one entry per claimed property)."""
import json, os
V = os.path.dirname(os.path.dirname(os.path.abspath(__file__)))
TRUST = ("Trusted base: rustc's type checking, trait resolution, MIR construction and const evaluation (the facts are the "
         "compiler's own analysis-phase MIR of /repo's working tree); documented semantics of std and the third-party "
         "crates named in DESIGN.md section 2; the specification tables under /verif/spec.")
CLAIMED = {
 "C01": ("other", "Structural decision, exhaustive over all impl methods of the serde wrapper types: every nested carrier is re-wrapped with the right behaviour (type arguments of resolved callees), entry types bind the right behaviour, trait surfaces complete, Conjure spellings agree writer/reader, end-of-input validated, forwarders same-named. Induction over value depth follows; library round-trip laws are not decided. Also: is_human_readable answered alike by every serializer / deserializer wrapper (R1.9), thread-local state restored on every exit (R1.10), writer / reader spelling tables evaluated on probe values.", "4/C01",
         "MIR-driver rules: callee type-argument wrap discipline, trait-surface completeness, decision tables by control dependence, dominance"),
 "C05": ("other", "Structural decision: strict behaviour carried through every container path (51 carrier slots), server entry types bound to UnknownFieldsBehavior<client>, interception chain wired by callee type arguments, terminal deserialize_ignored_any always errors with the recorded key, clients never intercept.", "4/C05",
         "MIR-driver rules: wrap discipline by callee type arguments, chain following, dataflow + post-dominance at the terminal"),
 "C15": ("proof", "Proof by construction-site induction over the whole workspace: every Aggregate(SafeLong) in the compiler's MIR is a folded in-range constant, a widening of a <=32-bit integer, a copy/default, or control-dependent on Cmin <= v <= Cmax for the same never-reassigned v; representation private, no mutable access, no transmute; bounds fold to exactly +-(2^53-1) and the accepted interval is exact; all conversion routes use lossless conversions into the checked constructor. All obligations are re-derived from the current tree on every run. As built, every integer TryFrom is additionally evaluated on the boundary values of its source type (any width).", "4/C15",
         "MIR-driver rules: construction-site enumeration, guard dominance with interval extraction, constant folding, who-may-write"),
 "C20": ("other", "Determinism decided as absence of every way two runs could differ: no hash-order iteration and no process-varying input anywhere in the generator (who-may-call over all bodies, each with a positive control that must fire), every file-system write rooted through the call graph in generate_files' output directory, CLI fields wired to the Config setter of the same meaning, ordered containers for emitted order. Determinism of third-party formatters is trusted.", "4/C20",
         "MIR-driver rules: effect who-may-call with positive controls, interprocedural path-root dataflow, CLI-to-Config dataflow table"),
 "C13": ("other", "Sibling-table agreement over the 19 variants of the `any` carrier: serializer->variant, variant->re-serialize, visitor->variant, variant->replay, compound end(), each extracted from MIR and compared with one canonical table; trait-surface completeness (the i128/u128 class); coercion constants and per-type key parsing rows; Option handling. The inverse law for all values is not decided.", "4/C13",
         "MIR-driver rules: decision tables from discriminant switches and aggregates, trait-surface completeness, sibling agreement"),
 "C16": ("other", "Construction-site confinement with guard dominance for both types workspace-wide; recognisers shown equal to the specification's languages (token byte class from the compiler-evaluated table; rid regex literal language-equivalent to the specification regex by DFA product, group by group); validator acceptance shape; from_components dot pre-checks; routes and renderings. Regex-crate semantics trusted. As built, every text route into a bearer token is evaluated on ~540 probe texts against the specification regex.", "4/C16",
         "MIR-driver rules: construction-site enumeration + guard dominance, evaluated static table, regex->DFA language equivalence"),
 "C17": ("other", "Status and wire tables of ErrorCode against the specification; safe/unsafe partition decided by control dependence on the membership test with maps identified by the field they are stored in; propagated errors pass a constant empty safe list; encode() wiring by dataflow; scalar stringification visitor set exact; generated ErrorType impls of the instance joined with the IR (both configs) and the standard types checked for consistency. As built, the partition is decided by interpreting the builder over 12 small models of (parameters, safe list) with std collections on an oracle-kept heap; the control-dependence form is the fallback.", "4/C17",
         "MIR-driver rules: decision tables from discriminant switches, control dependence, dataflow, trait-surface exactness, IR join"),
 "C06": ("other", "Must-pass-through on both request deserializers (encoding lookup, bounded read with Some(N), deserialize over that buffer, end-of-input validation, each by success-edge dominance and dataflow identity), limit typestate over read_body/async_read_body as a path property on the CFG (no path from a data-adding event to an Ok return avoids the success edge of the limit check on the same accumulator), exact len > limit rejection, stream errors consumed only through `?`, error class by type argument, optional/binary/lookup tables, blocking/async twin agreement, panic inventory. As built, the request pipeline and both body readers are decided first as decision tables (the function's MIR interpreted per row over lookup x read x deserialize x end-of-input, and over 30 scripted streams x limits); the structural forms are the fallback.", "4/C06",
         "MIR-driver rules: dominance / must-pass-through, typestate as CFG path property, dataflow identity, twin agreement"),
 "C18": ("other", "Content-type gate dominance before the body is taken, value provenance (client_from_slice over read_body(.., None)), 204 table, blocking/async twin agreement, unlimited reassembly completeness and stream-error propagation, panic inventory; generated instance: all 112 client methods joined with the IR ask for and decode the class their return type prescribes and return the helper's result unchanged. As built, each decoder is decided first as a decision table (status x Content-Type x stream x parse, value provenance read off the atoms' arguments, twins compared row by row) and the readers over scripted streams; the structural forms are the fallback.", "4/C18",
         "MIR-driver rules: gate dominance, dataflow provenance, table, twin agreement, IR-joined instance validation"),
 "C19": ("other", "Helpers attach param=<own log_as parameter> to decoder errors (followed into the map_err closure's captures) and return Ok untouched; error class by type argument over all decoders and auth parsing; cardinality conditions of only_item/optional_item; template provenance of the log-name slot in the endpoint macro; generated instance joined with the IR: 27 arguments x 4 handlers each report the IR argName and use the IR ids; handler invoked once after all extractions succeeded. As built, every parameter decoder, the auth parsers and the cardinality helpers are also evaluated on concrete lists of texts / header texts.", "4/C19",
         "MIR-driver rules: closure-capture dataflow, error class by type argument, control dependence, quote!-template provenance, IR-joined instance validation"),
 "C09": ("other", "Sink typing over every safe-to-log channel (31 sinks in conjure_http, incl. function items used as values): causes must be string constants or data-free ADTs decided from the type definition (also foreign), type parameters/projections/value-bearing types are violations; with_safe_param table; generated handlers insert into SafeParams exactly the IR-safe arguments (independent fixpoint evaluation) with the decoded value and never the auth token; macro emits insertion only under arg.safe(); BearerToken Debug never reads the token.", "4/C09",
         "MIR-driver rules: sink typing by resolved callee type arguments (incl. FnDef constants), ADT data-freeness, dataflow, IR join, template conditions"),
 "C07": ("other", "Compiler-evaluated percent-encode sets shown to contain every byte that is structural or illegal for this repo's decoders (44 bytes with reasons; keys additionally '='), only the escaper writes value bytes (raw parameter positions computed from MIR and shown to receive compile-time constants at every generated call site), typestate (literal|path)* query* build over all 112 generated client methods, decoder pairing incl. split-before-decode order, panic inventory with the build() unwrap recorded as a known finding (TooLong). As built, the escaper is also evaluated on every ASCII character and structural mixes (output decodes to the value, contains no byte that must be encoded) and path_param on matched texts (one decoded text per segment).", "4/C07",
         "MIR-driver rules: evaluated constants, interprocedural who-writes dataflow, typestate on the CFG, panic inventory"),
 "C08": ("other", "Precedence of explicit / legacy / type-derived safety by dominance; decision tables of combine (16 rows), primitives and type constructors extracted from MIR by path-sensitive constant propagation over finite domains and compared with the meet lattice; named-type rules per definition kind; memo-cell discipline (no provisional constant in a recursive evaluator; stores only inside a repeat-until-stable loop); generated instance equals an independent greatest-fixpoint evaluation of the IR; generator emits `safe` exactly under the decision.", "4/C08",
         "MIR-driver rules: dominance, decision-table extraction (constant propagation over finite enum domains), memo-cell typestate, IR-joined instance validation"),
 "C12": ("other", "PARTIAL: the inverse law over value domains (f64 text, instants, integers, uuids) is a library fact and not decided. Decided: writer/reader sibling agreement — impl sets, the two infinity spellings under exactly their tests on both sides, Base64 engine constant and RFC 3339 items on both sides, delegation targets of every macro-generated impl, generated alias impls.", "4/C12",
         "MIR-driver rules: sibling impl-table agreement, decision tables by control dependence, constant identity"),
 "C14": ("other", "PARTIAL (transitivity over unbounded containers and ordered-float/educe semantics are not decided). Decided: no raw float comparison in DoubleOps/DoubleKey code or any generated comparison impl; canonical wrapper used consistently by eq/cmp/hash; containers touch elements only through DoubleOps, Vec length guards; Option eq/cmp decision tables extracted from MIR are reflexive, antisymmetric, consistent; educe templates route to DoubleOps under is_double/has_double; every generated type with double-bearing fields calls DoubleOps in all three impls.", "4/C14",
         "MIR-driver rules: forbidden-operation scan, sibling consistency, decision-table extraction, template checks, instance validation"),
 "C10": ("other", "PARTIAL (document equivalence for all payloads not decided). Decided on the generated instance in both configurations, joined with the IR: Unknown variants exist exactly when not exhaustive; classification tables (from_str, union classifier) map every IR name to its own variant with only the fall-through arm reaching Unknown / an error, inverse of as_str / serializer; name predicate byte class evaluated over all 256 bytes equals [A-Z0-9_], non-empty, guarding every Variant construction; union Unknown arm and both visit_map orders; trailing-member check; generator emits Unknown pieces only on the !exhaustive branch. As built, name routes that are not in the non-empty-and-all(class) form are decided on ~400 probe names; thread-local state of the dynamic value restored on every exit.", "4/C10",
         "MIR-driver rules: ADT facts joined with IR, string-match decision tables, constant propagation over the byte domain, guard dominance, template conditions"),
 "C04": ("other", "PARTIAL (end-to-end value equality is not decided). Pairing tables decided on the generated instance joined with the IR: for every argument of all 112 client methods / 112 handlers the client encoder and the server decoder are the pair the IR class prescribes with equal keys / header names / path variables / cookie prefix / element types; response serializer and client decoder paired by return class; Accept and content-type string constants agree; 204 producers match the client's 204 shortcuts per impl; handler invoked once with extracted values in IR order and its result serialized.", "4/C04",
         "MIR-driver rules: IR-joined instance validation against a pairing table, constant identity, dataflow, dominance"),
 "C02": ("other", "PARTIAL (document acceptance rests on serde-derive / serde_json; malformed primitives inherited from C15/C16/C10/C01). Decided: generator type predicates as decision tables (constant propagation over 7 constructors x primitives) against the wire specification incl. sibling agreement; field-attribute decisions by template conditions; generated instance vs IR in both configurations: field names in order, emptiness guards iff omittable, missing_field exactly for required fields, field tables, enum value strings, alias transparency, union discriminator constant on both sides.", "4/C02",
         "MIR-driver rules: decision-table extraction, template conditions, IR-joined instance validation of derive expansions"),
 "C03": ("other", "PARTIAL: type-correctness of the emitted tree for all IR documents is not applicable to static analysis (only the repository's own instance is compiled). Decided: the identifier-escape table contains every reserved word the running compiler reports (editions 2015-2021, and 2024), `Self` escaped by the camel-case sibling; panic inventory of the generator against a reasoned list (new site / higher count reported), input-dependent size arithmetic checked; the analysis build type-checks both generated configurations of the instance. Also: the escape function evaluated on every reserved word; the log-safety iteration settles (R3.11).", "4/C03",
         "MIR-driver rules: constant-table superset of the compiler's reserved-word predicate, panic-site inventory, instance compilation"),
}
NA = {
 "C11": "Content negotiation quantifies over parsed header lists and numeric q-values; its truth lives in comparator outcomes, not in the shape of the code. The structural clauses in reach are decided under C06/C04; a mirror of this implementation's iterator chain would be a brittle proxy (DESIGN.md section 4/C11).",
}
PENDING = "check under construction in this round (see DESIGN.md section 9 for the order); not claimed until its rules are armed"


def main():
    props = [json.loads(l) for l in open(os.path.join(V, "properties.jsonl"))]
    checks = []
    na = []
    for p in props:
        pid = p["id"]
        if pid in CLAIMED:
            lvl, text, ref, tech = CLAIMED[pid]
            checks.append({
                "property_id": pid,
                "quick_cmd": f"./check {pid} --tier quick",
                "thorough_cmd": f"./check {pid} --tier thorough",
                "evidence_file": f"/verif/evidence/{pid}.json",
                "replay_cmd_template": f"./check {pid} --explain {{path}}",
                "engine": "mirfacts+rules",
                "level_claimed": {"category": lvl, "text": text, "design_ref": f"DESIGN.md section {ref}"},
                "level_note": TRUST,
                "technique": "static analysis: " + tech,
            })
        else:
            na.append({"property_id": pid, "reason": NA.get(pid, PENDING)})
    m = {
        "version": 1,
        "setup_cmd": "./setup.sh",
        "hooks": {"guard": "palantir_conjure_rust_verif", "enable": "none needed: the analysis reads unmodified sources (guard reserved, unused)",
                  "baseline_off_cmd": "cd /repo && cargo test --workspace --no-fail-fast --offline --lib --bins --tests", "source_commits": [], "add_only": True},
        "engines": [
            {"name": "mirfacts", "path": "/verif/mirfacts", "serves_properties": sorted(CLAIMED), "kind_free_text": "rustc_private driver (nightly) dumping analysis-phase MIR, impl/ADT tables, evaluated constants as JSON facts, injected via RUSTC_WORKSPACE_WRAPPER under cargo +nightly check"},
            {"name": "rules", "path": "/verif/vf", "serves_properties": sorted(CLAIMED), "kind_free_text": "Python rule library: CFG, dominators, control dependence, copy-chain dataflow, decision tables, typestate; one module per property"},
            {"name": "tmpl", "path": "/verif/tmpl", "serves_properties": ["C02", "C04", "C08", "C09", "C10", "C14", "C19"], "kind_free_text": "syn-based quote!-template extractor for conjure-codegen / conjure-macros"},
        ],
        "checks": checks,
        "not_applicable": na,
        "notes": "All checks decide their property from /repo's current working tree without executing conjure-rust code. Facts are cached by a content hash of the tree; any edit re-extracts. Known findings: /verif/known_findings.json.",
    }
    json.dump(m, open(os.path.join(V, "MANIFEST.json"), "w"), indent=1)
    print("claimed", len(checks), "not applicable/pending", len(na))


if __name__ == "__main__":
    main()
