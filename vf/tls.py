"""Thread-local state must not carry anything from one call into the next.

The properties quantify over all call histories (a failed call followed by a good one, many documents on one thread); code
that parks per-call state in a `thread_local!` (a scratch buffer, a depth counter) keeps them only if every exit of the call —
the `?` exits included — puts the state back.  Two typestate forms are decided on the CFG (unwind edges are not considered):

  A  inside the closure handed to `LocalKey::with`: when the closure resets the state on some path (clear / truncate / set /
     replace / take), every path from taking the borrow to a return passes a reset;
  B  in a function calling two or more local functions that touch a thread-local (enter / leave): from the success of such a
     call, every path to a return passes another one.

A thread-local that is never reset (a cache) gets no verdict here."""
from .cfg import CFG
from . import dt
from .facts import place_local

RESETS = ("clear", "truncate", "set", "replace", "take", "swap", "drain")
WITH = "std::thread::local::LocalKey::<T>::with"


def _touches_tls(c, b, depth=0, memo=None):
    memo = memo if memo is not None else {}
    if b.id in memo:
        return memo[b.id]
    memo[b.id] = False
    r = False
    for y in [b] + c.closures_of(b):
        for _, t in y.calls():
            if t["call"]["def"].startswith("std::thread::local::LocalKey"):
                r = True
    memo[b.id] = r
    return r


def check(ctx, crate, rule, why, scope=lambda b: True):
    c = crate
    n = 0
    memo = {}
    # form A
    for b in c.bodies:
        if b.kind != "closure" or not scope(b):
            continue
        parent = c.body(b.d.get("root") or b.parent) if (b.d.get("root") or getattr(b, "parent", None)) else None
        if parent is None or not any(t["call"]["def"].startswith("std::thread::local::LocalKey") for y in [parent] + c.closures_of(parent) for _, t in y.calls()):
            continue
        # is this closure an argument of a `with` call?  (its first parameter after the environment is the &'static T)
        if b.argc < 2:
            continue
        n += 1
        cfg = CFG(b)
        resets = {bb for bb, t in b.calls() if t["call"]["name"] in RESETS}
        borrows = [bb for bb, t in b.calls() if t["call"]["name"] in ("borrow_mut", "get", "set", "replace", "lock")]
        if not resets or not borrows:
            continue
        start = borrows[0]
        rets = [i for i, blk in enumerate(b.blocks) if "return" in blk["t"] and not blk.get("cleanup")]
        reach = cfg.reachable_from(start, avoid=resets)
        leak = [r for r in rets if r in reach and r not in resets]
        uses_between = any(bb in reach and bb not in resets and bb != start and t["call"]["name"] not in ("deref", "deref_mut", "borrow_mut", "borrow", "branch", "from_residual") for bb, t in b.calls())
        ctx.check(not (leak and uses_between), rule, b.loc(), f"{b.id}|tls-reset-on-every-exit",
                  f"{why}: {b.id} resets its thread-local state ({sorted({t['call']['name'] for bb, t in b.calls() if bb in resets})}) on the normal path only — an early exit (`?`) leaves what the failed call wrote in it for the next call on this thread",
                  instance=f"{b.id}: thread-local state reset on every exit")
    # form B
    for b in c.bodies:
        if b.kind not in ("fn", "assoc_fn") or not scope(b):
            continue
        tcalls = [(bb, t) for bb, t in b.calls() if t["call"].get("local") and c.body(t["call"].get("id")) is not None and _touches_tls(c, c.body(t["call"]["id"]), memo=memo)]
        if len(tcalls) < 2:
            continue
        n += 1
        cfg = CFG(b)
        tset = {bb for bb, _ in tcalls}
        rets = [i for i, blk in enumerate(b.blocks) if "return" in blk["t"] and not blk.get("cleanup")]
        for obb, ot in tcalls:
            after = cfg.reachable_from(b.blocks[obb]["t"].get("target"), avoid=set()) if b.blocks[obb]["t"].get("target") is not None else set()
            if not (tset - {obb}) & after:
                continue        # nothing follows: a closing call
            # where execution continues when the call succeeded: past the `?` on its result, if there is one
            start = b.blocks[obb]["t"]["target"]
            nb_ = b.blocks[start]
            if "call" in nb_["t"] and nb_["t"]["call"]["def"] == dt.TRY_BRANCH and nb_["t"].get("target") is not None:
                sw_ = b.blocks[nb_["t"]["target"]]
                k_ = nb_["t"]["target"]
                hops = 0
                while "goto" in sw_["t"] and hops < 3:
                    k_ = sw_["t"]["goto"]
                    sw_ = b.blocks[k_]
                    hops += 1
                if "switch" in sw_["t"]:
                    cont = [tg for v, tg in sw_["t"]["targets"] if v == 0]
                    start = cont[0] if cont else sw_["t"]["otherwise"]
            free = cfg.reachable_from(start, avoid=tset - {obb})
            leak = [r for r in rets if r in free]
            ctx.check(not leak, rule, b.loc(ot["ln"]), f"{b.id}|tls-paired|{ot['call']['name']}",
                      f"{why}: {b.id}: after {ot['call']['name']}() succeeded, an exit (line {b.blocks[leak[0]]['t'].get('ln') if leak else '?'}) is reachable without the matching call that puts the thread-local state back ({sorted({t['call']['name'] for _, t in tcalls} - {ot['call']['name']})}): the state of a failed call leaks into later calls on the thread",
                      instance=f"{b.id}: {ot['call']['name']}() is followed by its counterpart on every exit")
    return n
