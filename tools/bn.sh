#!/bin/bash
N=$1; shift
W=/tmp/bnw/$N
mkdir -p /tmp/bnw
if [ ! -d "$W/repo" ]; then mkdir -p "$W"; rsync -a --exclude target --exclude .git /repo/ "$W/repo/"; patch -p1 -s --no-backup-if-mismatch -d "$W/repo" -i /verif/benign/$N/patch.diff || exit 3; fi
for P in "$@"; do
  VERIF_REPO=$W/repo VERIF_EVIDENCE_DIR=$W/ev /tmp/stage2/check $P > $W/$P.out 2>&1
  echo "== $N $P rc=$?"
  grep -A3 -E "^  [RO][0-9.]+ |Traceback|Error" $W/$P.out | cut -c1-700 | head -${LINES_MAX:-40}
done
