"""Extraction of the generated Conjure enums / unions / objects / aliases of the instance (conjure_test) and their join
with the IR through wire constants."""
from .facts import ty_adt, tystr, place_local, place_proj, op_place, strip_refs, walk_ty
from .cfg import CFG, Tracer
from . import dt, instance
from .rules import c17

VARIANT = "conjure_object::private::Variant"
ANY = "conjure_object::any::Any"


def str_match_table(body, facts, leaf):
    """for `match s { "lit" => X, .. , _ => Y }`: returns ({lit: leafvalue}, [fallthrough leafvalues]).
    `leaf(body, bb)` extracts a value description from a block (or None)"""
    cfg = CFG(body)
    table = {}
    fall = []
    for bb in range(len(body.blocks)):
        if bb not in cfg.reach or body.blocks[bb].get("cleanup"):
            continue
        v = leaf(body, bb)
        if v is None:
            continue
        pos = set()
        negs = 0
        for sbb, allowed, allv in dt.edge_conditions(cfg, bb):
            atom = dt.switch_atom(body, sbb)
            if atom[0] == "call":
                se = dt.str_eq_const(body, atom[1])
                if se:
                    pol = dt.bool_polarity(allowed)
                    if atom[1]["call"]["name"] == "ne" and pol is not None:
                        pol = not pol
                    if pol:
                        pos.add(se[1])
                    else:
                        negs += 1
        if len(pos) == 1:
            table.setdefault(next(iter(pos)), []).append(v)
        elif not pos:
            fall.append((v, negs))
    return table, fall


def agg_leaf(adt_path):
    def leaf(body, bb):
        for s in body.blocks[bb]["s"]:
            if "d" in s and s["r"].get("agg") == "adt" and s["r"]["adt"] == adt_path:
                return s["r"]["variant"]
        return None
    return leaf


class GenEnum:
    pass


def find_enums(ct, F):
    """generated Conjure enums: local enums with an inherent as_str and a FromStr impl"""
    out = []
    for path, a in sorted(ct.adts.items()):
        if not a.get("local") or a["kind"] != "enum" or not instance.config_of(path):
            continue
        as_str = [b for b in ct.bodies if b.name == "as_str" and b.impl and not b.trait and ty_adt(b.self_ty) == path]
        from_str = [b for b in ct.bodies if b.trait == "core::str::traits::FromStr" and ty_adt(b.self_ty) == path and b.name == "from_str"]
        if len(as_str) == 1 and len(from_str) == 1:
            e = GenEnum()
            e.path, e.adt, e.as_str, e.from_str = path, a, as_str[0], from_str[0]
            e.config = instance.config_of(path)
            tab, wild, names = c17.const_returns_by_variant(as_str[0], F, path)
            e.names = names
            e.as_table = {v: next(iter(s)) for v, s in tab.items() if len(s) == 1}
            e.as_wild = wild
            out.append(e)
    return out


def unknown_variant_of(ct, F, adt):
    """variant whose payload (through local newtypes) is conjure_object::private::Variant, or a struct {type_, value: Any}"""
    res = []
    for v in adt["variants"]:
        if len(v["fields"]) != 1:
            continue
        t = v["fields"][0]["ty"]
        seen = 0
        while t and seen < 4:
            seen += 1
            p = t.get("adt")
            if p == VARIANT:
                res.append((v["name"], "enum-unknown"))
                break
            if p == "alloc::boxed::Box":
                t = t["args"][0]
                continue
            a = ct.adts.get(p) if p else None
            if not a or not a.get("local") or a["kind"] != "struct":
                break
            fs = a["variants"][0]["fields"]
            if len(fs) == 1:
                t = fs[0]["ty"]
                continue
            if len(fs) == 2 and sorted(short_ty(f["ty"]) for f in fs) == sorted(["Box<str>", ANY]):
                res.append((v["name"], "union-unknown"))
            break
    return res


def short_ty(t):
    if t.get("adt") == "alloc::boxed::Box":
        return "Box<" + tystr(t["args"][0]) + ">"
    return tystr(t)


class GenUnion:
    pass


def find_unions(ct, F):
    """generated Conjure unions: local enums with a hand-written Serialize writing a "type" entry"""
    out = []
    for path, a in sorted(ct.adts.items()):
        if not a.get("local") or a["kind"] != "enum" or not instance.config_of(path):
            continue
        ser = [b for b in ct.bodies if b.trait == "serde_core::ser::Serialize" and ty_adt(b.self_ty) == path and b.name == "serialize"]
        if len(ser) != 1:
            continue
        b = ser[0]
        entries = [(bb, t) for bb, t in b.calls() if t["call"]["name"] == "serialize_entry"]
        keys = [dt.resolve_const(b, t["args"][1]) for bb, t in entries]
        empty = not a["variants"] and any(x.trait == "serde_core::de::Visitor" and x.name == "visit_map" and tystr(x.local_ty(0)).startswith("core::result::Result<" + path) for x in ct.bodies)
        if not empty and not any(k and k.get("str") == "type" for k in keys):
            continue
        u = GenUnion()
        u.path, u.adt, u.ser = path, a, b
        u.config = instance.config_of(path)
        u.names = [v["name"] for v in a["variants"]]
        cfg = CFG(b)
        arms = {}
        for bb, t in entries:
            for sbb, allowed, allv in dt.edge_conditions(cfg, bb):
                atom = dt.switch_atom(b, sbb)
                if atom[0] == "discr" and ty_adt(dt.place_ty(b, F, atom[1]) or {}) == path:
                    vs = dt.allowed_variants(allowed, allv, u.names)
                    if len(vs) == 1:
                        arms.setdefault(next(iter(vs)), []).append((bb, t))
        if len(u.names) == 1:
            arms = {u.names[0]: entries}
        u.arms = arms
        de = [x for x in ct.bodies if x.trait == "serde_core::de::Visitor" and x.name == "visit_map" and tystr(x.local_ty(0)).startswith("core::result::Result<" + path)]
        u.visit_map = de[0] if len(de) == 1 else None
        # the Variant_ classifier: a visit_str returning Result<LocalEnum,_> in the same module
        mod = path.rsplit("::", 1)[0]
        vs = [x for x in ct.bodies if x.trait == "serde_core::de::Visitor" and x.name == "visit_str" and x.id.startswith(mod + "::") and
              (ty_adt((x.local_ty(0).get("args") or [{}])[0]) or "").startswith(mod + "::") and ty_adt((x.local_ty(0).get("args") or [{}])[0]) != path]
        u.variant_visit = vs[0] if len(vs) == 1 else None
        u.variant_adt = ty_adt(vs[0].local_ty(0)["args"][0]) if len(vs) == 1 else None
        out.append(u)
    return out


def ir_enum_for(ir, values):
    m = [k for k, (kind, d) in ir.types.items() if kind == "enum" and {v["value"] for v in d["values"]} == set(values)]
    return m[0] if len(m) == 1 else None


def ir_union_for(ir, members):
    m = [k for k, (kind, d) in ir.types.items() if kind == "union" and {f["fieldName"] for f in d["union"]} == set(members)]
    return m[0] if len(m) == 1 else None
