#!/usr/bin/env python3
"""usage: tools/try_seed.py <ID>/<sub> [PID ...]   — run the checks (default: the seed's property) against a sub-agent's
change /tmp/wt/<ID>/SEED/<sub>/patch.diff on a scratch copy of /repo; prints the violation keys."""
import json, os, re, shutil, subprocess, sys, tempfile
V = os.path.dirname(os.path.dirname(os.path.abspath(__file__)))
spec = sys.argv[1]
pid, sub = (spec.split("/", 1) + [""])[:2]
src = f"/tmp/wt/{pid}/" + os.environ.get("SEEDDIR", "SEED") + (f"/{sub}" if sub else "")
props = sys.argv[2:] or [pid]
tmp = tempfile.mkdtemp(prefix="vf-try-")
root = os.path.join(tmp, "repo")
try:
    subprocess.run(["rsync", "-a", "--exclude", "target", "--exclude", ".git", "/repo/", root + "/"], check=True)
    r = subprocess.run(["patch", "-p1", "-s", "--no-backup-if-mismatch", "-d", root, "-i", f"{src}/patch.diff"], stdout=subprocess.PIPE, stderr=subprocess.STDOUT, text=True)
    if r.returncode:
        print(spec, "PATCH DOES NOT APPLY", r.stdout[:200])
        sys.exit(3)
    env = dict(os.environ, VERIF_REPO=root, VERIF_EVIDENCE_DIR=os.path.join(tmp, "ev"))
    for p in props:
        o = subprocess.run([os.path.join(V, "check"), p], env=env, stdout=subprocess.PIPE, stderr=subprocess.STDOUT, text=True).stdout
        hit = "VIOLATION property=" + p in o
        crash = "Traceback (most recent call last)" in o
        print(f"== {spec} vs {p}: {'CRASH' if crash else 'DETECTED' if hit else 'silent'}")
        if hit:
            lines = o.splitlines()
            for i, l in enumerate(lines):
                if re.match(r"^  [RO][0-9.]+ ", l):
                    print("   ", l.strip()[:110], "|", lines[i + 1].strip()[:330])
        elif "rule instances decided" not in o:
            print(o[-600:])
finally:
    shutil.rmtree(tmp, ignore_errors=True)
