//! E4 compile-fail witnesses (type-level remainder of C15 / C16).  Each `compile_fail` doctest has a compiling twin that
//! differs only in the offending line, so a witness that fails for the wrong reason (bad path, missing import) is detected.
//! Run with `cargo +nightly test --doc --offline` (error codes are only honoured on nightly).

/// C15: the representation of `SafeLong` is private — a value cannot be forged from outside the crate.
/// ```compile_fail,E0423
/// let s = conjure_object::SafeLong(1 << 60);
/// let _ = s;
/// ```
pub struct C15PrivateField;

/// C15 twin: the checked constructor compiles.
/// ```
/// let s = conjure_object::SafeLong::new(1).unwrap();
/// let _ = s;
/// ```
pub struct C15PrivateFieldTwin;

/// C15: there is no mutable access to the wrapped integer (no `DerefMut`).
/// ```compile_fail,E0594
/// let mut s = conjure_object::SafeLong::new(1).unwrap();
/// *s = 1 << 60;
/// ```
pub struct C15NoDerefMut;

/// C15 twin: reading through `Deref` compiles.
/// ```
/// let s = conjure_object::SafeLong::new(1).unwrap();
/// let v: i64 = *s;
/// assert_eq!(v, 1);
/// ```
pub struct C15NoDerefMutTwin;

/// C15: no unchecked `From<i64>`.
/// ```compile_fail,E0277
/// let s: conjure_object::SafeLong = conjure_object::SafeLong::from(1i64 << 60);
/// let _ = s;
/// ```
pub struct C15NoFromI64;

/// C15 twin: the widening `From<i32>` compiles.
/// ```
/// let s: conjure_object::SafeLong = conjure_object::SafeLong::from(1i32);
/// let _ = s;
/// ```
pub struct C15NoFromI64Twin;

/// C16: a bearer token cannot be constructed without validation from outside the crate.
/// ```compile_fail,E0423
/// let t = conjure_object::BearerToken("not valid\n".to_string());
/// let _ = t;
/// ```
pub struct C16TokenPrivate;

/// C16 twin.
/// ```
/// let t = conjure_object::BearerToken::new("abc").unwrap();
/// let _ = t;
/// ```
pub struct C16TokenPrivateTwin;

/// C16: a resource identifier cannot be constructed with a struct literal from outside the crate.
/// ```compile_fail,E0451
/// let r = conjure_object::ResourceIdentifier { rid: "x".to_string(), service_end: 0, instance_end: 0, type_end: 0 };
/// let _ = r;
/// ```
pub struct C16RidPrivate;

/// C16 twin.
/// ```
/// let r = conjure_object::ResourceIdentifier::new("ri.a.b.c.d").unwrap();
/// assert_eq!(r.service(), "a");
/// ```
pub struct C16RidPrivateTwin;

/// C16: no `From<String>` shortcut for tokens.
/// ```compile_fail,E0277
/// let t: conjure_object::BearerToken = String::from("x y").into();
/// let _ = t;
/// ```
pub struct C16NoFromString;

/// C16 twin.
/// ```
/// let t: conjure_object::BearerToken = "xy".parse().unwrap();
/// let _ = t;
/// ```
pub struct C16NoFromStringTwin;
