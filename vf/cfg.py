"""CFG analyses over fact-base bodies: dominators, post-dominators, control dependence,
reachability, copy-chain tracing."""
from collections import defaultdict
from .facts import place_local, place_proj, op_place, const_value


class CFG:
    def __init__(self, body):
        self.body = body
        n = len(body.blocks)
        self.n = n
        self.succ = [body.succ(i) for i in range(n)]
        self.pred = [[] for _ in range(n)]
        for i, ss in enumerate(self.succ):
            for s in ss:
                self.pred[s].append(i)
        self.reach = self._reach(0)
        self.idom = self._dominators()
        self.exits = [i for i in range(n) if i in self.reach and "return" in body.blocks[i]["t"]]
        self._ipdom = None

    def _reach(self, start, succ=None):
        succ = succ or self.succ
        seen = {start}
        st = [start]
        while st:
            x = st.pop()
            for s in succ[x]:
                if s not in seen:
                    seen.add(s)
                    st.append(s)
        return seen

    def reachable_from(self, start, avoid=()):
        """blocks reachable from `start` (inclusive) without passing through blocks in avoid"""
        avoid = set(avoid)
        if start in avoid:
            return set()
        seen = {start}
        st = [start]
        while st:
            x = st.pop()
            for s in self.succ[x]:
                if s not in seen and s not in avoid:
                    seen.add(s)
                    st.append(s)
        return seen

    def _rpo(self, start, succ):
        order, seen = [], set()
        st = [(start, iter(succ[start]))]
        seen.add(start)
        while st:
            x, it = st[-1]
            adv = False
            for s in it:
                if s not in seen:
                    seen.add(s)
                    st.append((s, iter(succ[s])))
                    adv = True
                    break
            if not adv:
                order.append(x)
                st.pop()
        order.reverse()
        return order

    def _dom_generic(self, start, succ, pred):
        rpo = self._rpo(start, succ)
        idx = {b: i for i, b in enumerate(rpo)}
        idom = {start: start}

        def intersect(a, b):
            while a != b:
                while idx[a] > idx[b]:
                    a = idom[a]
                while idx[b] > idx[a]:
                    b = idom[b]
            return a
        changed = True
        while changed:
            changed = False
            for b in rpo[1:]:
                ps = [p for p in pred[b] if p in idom]
                if not ps:
                    continue
                new = ps[0]
                for p in ps[1:]:
                    new = intersect(new, p)
                if idom.get(b) != new:
                    idom[b] = new
                    changed = True
        return idom

    def _dominators(self):
        return self._dom_generic(0, self.succ, self.pred)

    def dominates(self, a, b):
        """a dominates b (reflexive)"""
        if b not in self.idom:
            return False
        x = b
        while True:
            if x == a:
                return True
            p = self.idom[x]
            if p == x:
                return False
            x = p

    def ipdom(self):
        if self._ipdom is None:
            # virtual exit node n
            n = self.n
            succ = [list(s) for s in self.succ] + [[]]
            for i in range(n):
                # only `return` terminators are exits; `unreachable` and diverging calls end no
                # returning path, so post-dominance means "on every path that returns"
                if i in self.reach and not succ[i] and "return" in self.body.blocks[i]["t"]:
                    succ[i] = [n]
            pred = [[] for _ in range(n + 1)]
            for i, ss in enumerate(succ):
                for s in ss:
                    pred[s].append(i)
            # reverse graph
            self._ipdom = self._dom_generic(n, pred, succ)
        return self._ipdom

    def postdominates(self, a, b):
        ip = self.ipdom()
        if b not in ip:
            return False
        x = b
        while True:
            if x == a:
                return True
            p = ip[x]
            if p == x:
                return False
            x = p

    def edge_dominates(self, src, dst, b):
        """every path from entry to b passes through the edge src->dst"""
        if not self.dominates(src, b) and src != b:
            return False
        # remove the edge and test reachability
        seen = {0}
        st = [0]
        while st:
            x = st.pop()
            for s in self.succ[x]:
                if x == src and s == dst:
                    # other parallel edges src->dst (switch with several values) also removed
                    continue
                if s not in seen:
                    seen.add(s)
                    st.append(s)
        return b not in seen

    def all_paths_from_pass(self, start, through, targets):
        """every path from `start` to any block in targets passes through a block in `through`"""
        r = self.reachable_from(start, avoid=through)
        return not (r & set(targets))

    def in_loop(self, b):
        """b is on a cycle"""
        for s in self.succ[b]:
            if b in self.reachable_from(s):
                return True
        return False


def switch_edges(body, bb):
    """[(value or None, target)] of a switch terminator"""
    t = body.blocks[bb]["t"]
    out = [(v, b) for v, b in t["targets"]]
    out.append((None, t["otherwise"]))
    return out


class Tracer:
    """Copy-chain def-use inside one body.  MIR temporaries are (mostly) assigned once; a local
    with several definitions is reported as an opaque join of its definitions."""
    TRANSPARENT = {
        "core::ops::deref::Deref::deref", "core::ops::deref::DerefMut::deref_mut",
        "core::clone::Clone::clone", "core::convert::Into::into", "core::convert::AsRef::as_ref",
        "core::borrow::Borrow::borrow", "alloc::string::ToString::to_string",
        "alloc::borrow::ToOwned::to_owned", "core::convert::From::from",
        "alloc::string::String::as_str", "core::str::<impl str>::as_bytes", "alloc::string::String::as_bytes",
        "core::convert::identity",
    }

    def __init__(self, body, transparent=None, through_agg=False, through_calls=False):
        self.through_agg = through_agg
        self.through_calls = through_calls
        self.body = body
        self.defs = body.defs()
        self.transparent = self.TRANSPARENT if transparent is None else transparent

    def sources(self, op, depth=0, seen=None):
        """set of source descriptors the operand's value derives from through copies/refs/
        transparent calls:  ('arg', n) ('const', c) ('call', bb) ('agg', bb, j) ('field', local, projtuple)
        ('other', bb, j)"""
        seen = seen if seen is not None else set()
        c = op.get("c")
        if c is not None:
            return {("const", _freeze(c))}
        p = op_place(op)
        if p is None:
            return {("unknown",)}
        return self.place_sources(p, depth, seen)

    def place_sources(self, p, depth=0, seen=None):
        seen = seen if seen is not None else set()
        l = place_local(p)
        proj = [e for e in place_proj(p) if e != "*"]
        if proj:
            # precise case: field k of a local that is defined once by an aggregate -> operand k
            # ... also when the aggregates reach the local through whole-value moves (`_9 = move _4`, the return slot of an
            # inlined helper assigned at several sites); a downcast (`as Some`) selects the aggregates of that variant only
            first = next((e for e in proj if isinstance(e, dict) and "f" in e), None)
            lead = proj[:proj.index(first)] if first is not None else []
            aggs = self._agg_defs(l) if first is not None and depth < 40 and all(isinstance(e, dict) and "dc" in e for e in lead) else None
            if aggs:
                dc = lead[-1]["dc"] if lead else None
                if dc is not None:
                    aggs = [r_ for r_ in aggs if r_.get("agg") != "adt" or r_.get("vi") == dc]
                if aggs and all(first["f"] < len(r_["ops"]) for r_ in aggs):
                    rest = proj[proj.index(first) + 1:]
                    inner = set()
                    out_ = set()
                    for r_ in aggs:
                        o_ = r_["ops"][first["f"]]
                        po_ = op_place(o_)
                        if rest and po_ is not None:
                            # keep resolving the remaining projection precisely (`(x as Some).0.1` of Some((a, b)) is b)
                            out_ |= self.place_sources({"l": place_local(po_), "p": list(place_proj(po_)) + rest}, depth + 1, seen)
                        else:
                            inner |= self.sources(o_, depth + 1, seen)
                    if not rest:
                        return inner
                    return out_ | {("field", b, _freeze(rest)) for b in inner}
            # value projected out of a local: describe as field of the local's sources
            base = self.place_sources(l, depth, seen)
            out = set()
            for b in base:
                if b[0] == "agg" and depth < 40:
                    # a field of a value that turned out to be one particular aggregate: that aggregate's operand
                    try:
                        r_ = self.body.blocks[b[1]]["s"][b[2]]["r"]
                    except (IndexError, KeyError, TypeError):
                        r_ = None
                    fi = next((k_ for k_, e in enumerate(proj) if isinstance(e, dict) and "f" in e), None)
                    if r_ is not None and fi is not None and r_.get("agg") in ("tuple", "adt", "closure") and all(isinstance(e, dict) and "dc" in e for e in proj[:fi]) \
                            and proj[fi]["f"] < len(r_["ops"]) and (not proj[:fi] or r_.get("agg") != "adt" or r_.get("vi") == proj[fi - 1]["dc"]):
                        rest = proj[fi + 1:]
                        o_ = r_["ops"][proj[fi]["f"]]
                        po_ = op_place(o_)
                        if rest and po_ is not None:
                            out |= self.place_sources({"l": place_local(po_), "p": list(place_proj(po_)) + rest}, depth + 1, seen)
                        elif rest:
                            out |= {("field", x, _freeze(rest)) for x in self.sources(o_, depth + 1, seen)}
                        else:
                            out |= self.sources(o_, depth + 1, seen)
                        continue
                out.add(("field", b, _freeze(proj)))
            return out
        if l in seen or depth > 40:
            return {("local", l)}
        seen = seen | {l}
        if 1 <= l <= self.body.argc:
            ds = self.defs.get(l, [])
            if not ds:
                return {("arg", l)}
        ds = self.defs.get(l, [])
        if not ds:
            return {("local", l)}
        out = set()
        for (bb, j, s) in ds:
            if j == "T":
                f = s["call"]
                if f.get("def") in self.transparent and s["args"]:
                    out |= self.sources(s["args"][0], depth + 1, seen)
                elif self.through_calls:
                    out.add(("call", bb))
                    for a in s["args"]:
                        out |= self.sources(a, depth + 1, seen)
                else:
                    out.add(("call", bb))
            else:
                r = s["r"]
                if "use" in r:
                    out |= self.sources(r["use"], depth + 1, seen)
                elif "ref" in r:
                    out |= self.place_sources(r["ref"], depth + 1, seen)
                elif "cast" in r:
                    out |= self.sources(r["cast"], depth + 1, seen)
                elif "agg" in r:
                    out.add(("agg", bb, j))
                    if self.through_agg:
                        for o in r["ops"]:
                            out |= self.sources(o, depth + 1, seen)
                else:
                    out.add(("other", bb, j))
        if 1 <= l <= self.body.argc:
            out.add(("arg", l))
        return out

    def _agg_defs(self, l, seen=None):
        """the aggregate rvalues that define local l, through whole-value copies; None if any definition is something else"""
        seen = seen if seen is not None else set()
        if l in seen:
            return []
        seen.add(l)
        if 1 <= l <= self.body.argc:
            return None
        ds = self.defs.get(l, [])
        if not ds or len(seen) > 40:
            return None
        out = []
        for d in ds:
            if d[1] == "T":
                return None
            r = d[2]["r"]
            if "agg" in r and r["agg"] in ("tuple", "adt", "closure"):
                out.append(r)
            elif set(r) <= {"use"}:
                sp = op_place(r["use"])
                if sp is None or place_proj(sp):
                    return None
                sub = self._agg_defs(place_local(sp), seen)
                if sub is None:
                    return None
                out += sub
            else:
                return None
        return out

    def root_locals(self, op):
        """locals (args or multiply-defined) the operand derives from"""
        out = set()

        def rec(s):
            if s[0] in ("arg", "local"):
                out.add(s[1])
            elif s[0] == "field":
                rec(s[1])
        for s in self.sources(op):
            rec(s)
        return out


def _freeze(x):
    if isinstance(x, dict):
        return tuple(sorted((k, _freeze(v)) for k, v in x.items()))
    if isinstance(x, list):
        return tuple(_freeze(v) for v in x)
    return x


def thaw(x):
    if isinstance(x, tuple) and x and all(isinstance(e, tuple) and len(e) == 2 and isinstance(e[0], str) for e in x):
        return {k: thaw(v) for k, v in x}
    if isinstance(x, tuple):
        return [thaw(v) for v in x]
    return x


def const_of_source(src):
    """python value for ('const', frozen) sources"""
    if src[0] != "const":
        return None
    return const_value(thaw(src[1]))
