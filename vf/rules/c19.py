"""C19 — undecodable request parameters yield a client error naming the declared argument."""
from ..facts import ty_adt, tystr, walk_ty, place_local, place_proj, op_place
from ..cfg import CFG, Tracer, thaw
from .. import inline, dt, instance
from . import c06

SRV = "conjure_http::private::server::"
HELPERS = ("path_param", "query_param", "header_param", "body_arg", "async_body_arg")
PERM_DENIED = "conjure_error::types::permission_denied::PermissionDenied"
INVALID_ARG = c06.INVALID_ARG
DECODE_TRAITS = ("conjure_http::server::DecodeParam", "conjure_http::server::DecodeHeader")

EXPLANATION = (
    "Decides (R19.1) that each of the five extraction helpers returns the decoder's Ok untouched and maps its Err through "
    "with_safe_param(\"param\", <the helper's own log_as parameter>) — followed into the map_err closure's captures; (R19.2) "
    "that every error constructed by the parameter decoders (only_item, optional_item, all FromStr*/FromPlain* decoders and "
    "their closures) has error type InvalidArgument and the four auth failures PermissionDenied, and that cardinality errors "
    "are produced exactly for 0 / >=2 values (single) and >=2 (optional); (R19.3) template provenance in the endpoint macro: the "
    "log-name slot of each helper-call template is bound to arg.log_as() (E3); (R19.5) the IR generator emits `log_as` exactly when "
    "the identifier it emits (Context::field_name(argName)) differs from the declared argName; (R19.4) in every generated handler of the "
    "instance (both configs, both flavours) each extraction call's log_as constant equals the IR argName and its key / header "
    "/ path constants equal the IR ids, every IR argument has its extraction call and vice versa; (R19.6) the handler is "
    "invoked once, outside any loop, only after every extraction succeeded, with the extracted values in declared order; "
    "panic inventory of the helpers. NOT decided: the text of parse errors.")


def helper_bodies(c):
    out = {}
    for b in c.bodies:
        if b.kind == "fn" and b.id.startswith(SRV) and b.name in HELPERS:
            out[b.name] = (b, c06.real_body(c, b))
    return out


def upvar_operand_source(outer, closure_agg_stmt, k):
    return closure_agg_stmt["r"]["ops"][k]


def check_match_form(ctx, c, name, rb, n, dec):
    """form B: `match decoder(..) { Ok(v) => Ok(v), Err(e) => Err(e.with_safe_param("param", log_as)) }` (possibly in a private
    tagging helper, already inlined into rb).  Returns True when the form was recognised (verdicts recorded)."""
    cfg = CFG(rb)
    vt = dt.value_tracer(rb)
    tags = [(bb, t) for bb, t in rb.calls() if t["call"]["def"] == "conjure_error::error::Error::with_safe_param"]
    if len(tags) != len(dec) or not tags:
        return False
    rets = dt.return_aliases(rb)
    for di, (dbb, dt_) in enumerate(sorted(dec, key=lambda x: x[1]["ln"])):
        mine = [(bb, t) for bb, t in tags if dt.derives_from_call(rb, t["args"][0], dbb, vt)]
        if len(mine) != 1:
            return False
        tbb, tt = mine[0]
        key = dt.resolve_const(rb, tt["args"][1])
        if rb.kind == "coroutine":
            # an async helper: its parameters are the fields of the coroutine state (_1.k = parameter k+1)
            fs = set()
            for s_ in Tracer(rb).sources(tt["args"][2]):
                inner = None
                while s_[0] == "field":
                    inner = s_
                    s_ = s_[1]
                if s_ == ("arg", 1) and inner is not None:
                    for e in thaw(inner[2]):
                        if isinstance(e, dict) and "f" in e:
                            fs.add(e["f"])
                            break
                else:
                    fs.add(None)
            val_ok = fs == {n - 1}
        else:
            val_ok = Tracer(rb).root_locals(tt["args"][2]) == {n}
        # on the Err edge of the decoder result, the tagged error is what is returned as Err
        on_err = any(dt.switch_atom(rb, sbb)[0] == "discr" and dt.derives_from_call(rb, {"cp": place_local(dt.switch_atom(rb, sbb)[1])}, dbb, vt)
                     and dt.allowed_variants(al, av, ["Ok", "Err"]) == {"Err"} for sbb, al, av in dt.edge_conditions(cfg, tbb))
        errs = [s_ for _, _, s_ in rb.stmts() if place_local(s_["d"]) in rets and s_["r"].get("agg") == "adt" and s_["r"].get("variant") == "Err" and dt.derives_from_call(rb, s_["r"]["ops"][0], tbb, vt)]
        oks = [o for o in dt.ok_return_blocks(rb) if o[2]["r"].get("variant") == "Ok" and dt.derives_from_call(rb, o[2]["r"]["ops"][0], dbb, vt)]
        untouched = [o for o in oks if not [c_ for c_ in dt.transforming_calls(rb, o[2]["r"]["ops"][0])[1] if c_ is not dt_]]
        good = key is not None and key.get("str") == "param" and val_ok and on_err and len(errs) == 1 and len(oks) == 1 and len(untouched) == 1
        ctx.check(good, "R19.1", rb.loc(tt["ln"]), f"{name}|param-name" + (f"|decode#{di}" if di else ""),
                  f"{name}: the decoder's result must be returned as Ok(v) unchanged or Err(e.with_safe_param(\"param\", log_as)) with log_as being the helper's own last parameter",
                  instance=f"{name}: match decode(..) {{ Ok(v) => Ok(v), Err(e) => Err(e.with_safe_param(\"param\", log_as)) }}")
        ctx.ok("R19.1", rb.loc(dt_["ln"]), f"{name}: returns the decoder's Ok untouched (decoder call #{di}, match form)")
    return True


def check_helper(ctx, c, name, ob, rb):
    n = ob.argc  # log_as is the last parameter
    # (private helpers, and public siblings of the same module the helper merely forwards to — `path_param` -> `raw_path_param`)
    rb = inline.expand(c, rb, depth=2, pred=lambda cb: (cb.d.get("vis") != "pub" or (cb.id.startswith(SRV) and cb.kind == "fn")) and cb.name not in ("only_item", "optional_item", "parse_auth_inner") + tuple(HELPERS))
    me = [(bb, t) for bb, t in rb.calls() if t["call"]["name"] == "map_err" and "Result" in t["call"]["def"]]
    dec = [(bb, t) for bb, t in rb.calls() if t["call"]["name"] in ("decode", "deserialize") and (t["call"].get("trait") or "").startswith("conjure_http::server::")]
    if dec and not me and check_match_form(ctx, c, name, rb, n, dec):
        return
    if not me or not dec:
        ctx.violation("R19.1", rb.loc(), f"{name}|shape", f"{name}: expected a decoder call whose error is mapped, found {len(dec)} decoder calls / {len(me)} map_err")
        return
    vt = dt.value_tracer(rb)
    # every decoder result leaves the helper only through a map_err that tags it, and that result is returned unchanged
    for di, (dbb, dt_) in enumerate(sorted(dec, key=lambda x: x[1]["ln"])):
        mine = [(mbb, mt) for mbb, mt in me if dt.derives_from_call(rb, mt["args"][0], dbb, vt)]
        direct = place_local(dt_["dest"]) == 0 or (not mine and c06_returns(rb, dbb))
        ok = len(mine) == 1 and not direct and (place_local(mine[0][1]["dest"]) == 0 or c06_returns(rb, mine[0][0]))
        ctx.check(ok, "R19.1", rb.loc(dt_["ln"]), f"{name}|ok-untouched|decode#{di}",
                  f"{name}: the result of this decoder call must be returned as decoder(...).map_err(tag) and in no other way" + (" — it is returned directly, so a decoding failure on this path does not name the argument" if direct else ""),
                  instance=f"{name}: returns decode(..).map_err(f) (decoder call #{di})")
        for mbb, mt in mine:
            check_tagging(ctx, c, name, rb, n, mt, di)
    for mbb, mt in me:
        if not any(dt.derives_from_call(rb, mt["args"][0], dbb, vt) for dbb, _ in dec):
            ctx.violation("R19.1", rb.loc(mt["ln"]), f"{name}|stray-map-err", f"{name}: a map_err that does not receive a decoder result")


def check_tagging(ctx, c, name, rb, n, me_t, di):
    # the closure
    src = Tracer(rb).sources(me_t["args"][1])
    aggs = [s for s in src if s[0] == "agg"]
    if len(aggs) != 1:
        ctx.violation("R19.1", rb.loc(), f"{name}|closure", f"{name}: map_err argument is not a closure literal")
        return
    st = rb.blocks[aggs[0][1]]["s"][aggs[0][2]]
    clo = c.body(st["r"]["id"])
    if clo is None:
        ctx.violation("R19.1", rb.loc(), f"{name}|closure-body", f"{name}: closure body facts missing")
        return
    wsp = [(bb, t) for bb, t in clo.calls() if t["call"]["def"] == "conjure_error::error::Error::with_safe_param"]
    good = len(wsp) == 1
    if good:
        t = wsp[0][1]
        key = dt.resolve_const(clo, t["args"][1])
        # value: an upvar of the closure -> which capture operand in the helper -> the helper's log_as parameter
        vs = Tracer(clo).sources(t["args"][2])
        caps = set()
        for s in vs:
            inner = None
            while s[0] == "field":
                inner = s
                s = s[1]
            if s == ("arg", 1) and inner is not None:
                for e in thaw(inner[2]):
                    if isinstance(e, dict) and "f" in e:
                        caps.add(e["f"])
                        break
        good = key is not None and key.get("str") == "param" and len(caps) == 1
        if good:
            cap_op = st["r"]["ops"][next(iter(caps))]
            tr = Tracer(rb)
            if rb.kind == "coroutine":
                fs = set()
                for s in tr.sources(cap_op):
                    inner = None
                    while s[0] == "field":
                        inner = s
                        s = s[1]
                    if s == ("arg", 1) and inner is not None:
                        for e in thaw(inner[2]):
                            if isinstance(e, dict) and "f" in e:
                                fs.add(e["f"])
                                break
                good = fs == {n - 1}
            else:
                good = tr.root_locals(cap_op) == {n}
        errsrc = Tracer(clo).root_locals(t["args"][0])
        good = good and errsrc == {2} and (place_local(t["dest"]) == 0)
    ctx.check(good, "R19.1", clo.loc(), f"{name}|param-name" + (f"|decode#{di}" if di else ""),
              f"{name}: the decoder's error must be returned as e.with_safe_param(\"param\", log_as) with log_as being the helper's own last parameter",
              instance=f"{name}: Err(e) -> e.with_safe_param(\"param\", log_as)")


def c06_returns(body, call_bb):
    vt = dt.value_tracer(body)
    plain = Tracer(body)        # copies only (the value tracer looks through map_err, whose own result is meant here)
    for bb, j, s in body.stmts():
        if place_local(s["d"]) == 0 and not place_proj(s["d"]) and "use" in s["r"] and (dt.derives_from_call(body, s["r"]["use"], call_bb, vt) or ("call", call_bb) in plain.sources(s["r"]["use"])):
            return True
    return False


def decoder_scope(c):
    out = []
    for b in c.bodies:
        if b.kind in ("fn", "assoc_fn") and (b.trait in DECODE_TRAITS or b.name in ("only_item", "optional_item")) and b.id.startswith("conjure_http::server::"):
            out.append(b)
    return out


def check_cardinality(ctx, c):
    """decision tables of only_item / optional_item over (first item present?, number of further items) by constant
    propagation, private helpers interpreted along the path (so merging the two functions behind a shared helper, or
    rewriting if/else as match, does not change the verdict)"""
    from .. import minterp
    F = ctx.F
    OPTP, RES = "core::option::Option", "core::result::Result"
    for name in ("only_item", "optional_item"):
        bs = [b for b in c.bodies if b.name == name and b.kind == "fn" and b.id.startswith("conjure_http::server::")]
        if len(bs) != 1:
            ctx.violation("R19.2", "conjure_http", f"{name}|anchor", f"{name} not found")
            continue
        b = bs[0]
        rows, bad, unsup = [], [], None
        for first in (False, True):
            for more in (0, 1, 2):
                if not first and more:
                    continue

                pulled = [0]
                total = (1 + more) if first else 0

                def oracle(f, argv, first=first, more=more, pulled=pulled, total=total):
                    # the sequence has `total` items: item, item2, item3; `next` hands them out one by one (a single scan that
                    # counts while keeping the first is the same function as next + count)
                    nm = f.get("name")
                    if nm == "next" and "Iterator" in f.get("def", ""):
                        k = pulled[0]
                        if k < total:
                            pulled[0] += 1
                            return minterp.adt(OPTP, 1, [("sym", "item" if k == 0 else f"item{k + 1}")])
                        return minterp.adt(OPTP, 0, [])
                    if nm == "count" and "Iterator" in f.get("def", ""):
                        k = pulled[0]
                        pulled[0] = total
                        return total - k
                    if nm in ("into_iter", "by_ref", "fuse", "peekable") and argv:
                        return argv[0]
                    return minterp.NO_VALUE
                I = minterp.Interp(F, c, inline=lambda d_, rid: rid.startswith("conjure_http::server::") and c.body(rid) is not None and c.body(rid).d.get("vis") != "pub", max_depth=3)
                I.call_oracle = oracle
                try:
                    r = I.run(b, [("sym", "it")] + [("sym", f"a{k}") for k in range(b.argc - 1)])
                except minterp.Unsupported as e:
                    unsup = str(e)
                    continue
                if not (minterp.is_adt(r) and r[1] == RES):
                    unsup = f"result {r!r}"
                    continue
                if r[2] == 1:
                    got = "Err"
                else:
                    v = r[3][0]
                    if name == "optional_item":
                        got = "Ok(None)" if (minterp.is_adt(v) and v[1] == OPTP and v[2] == 0) else ("Ok(Some(item))" if minterp.is_adt(v) and v[1] == OPTP and v[3] and v[3][0] == ("sym", "item") else f"Ok({v!r})")
                    else:
                        got = "Ok(item)" if v == ("sym", "item") else f"Ok({v!r})"
                n_items = (1 + more) if first else 0
                if name == "only_item":
                    exp = "Ok(item)" if n_items == 1 else "Err"
                else:
                    exp = "Ok(None)" if n_items == 0 else ("Ok(Some(item))" if n_items == 1 else "Err")
                rows.append((n_items, got))
                if got != exp:
                    bad.append(f"{n_items} value(s): {got}, specification {exp}")
        if unsup and not rows:
            ctx.violation("R19.2", b.loc(), f"{name}|cardinality", f"{name} left the analysable fragment: {unsup}")
        else:
            ctx.check(not bad and len(rows) == 4, "R19.2", b.loc(), f"{name}|cardinality",
                      f"{name}: " + "; ".join(bad) + (f" ({unsup})" if unsup else "") + " — a single-valued argument must be accepted exactly when it occurs once" + (" (an optional one also when absent)" if name == "optional_item" else ""),
                      instance=f"{name}: table over 0/1/2/3 values = {rows}")


def check_decoder_tables(ctx, c):
    """R19.7: the single-valued / optional parameter decoders as decision tables.  Each `decode` of a DecodeParam / DecodeHeader
    impl that selects its item with only_item / optional_item is evaluated by constant propagation for every combination of
      item selection  (Err | Ok(None) | Ok(item))  x  header text conversion (Err | Ok)  x  parser (Err | Ok(v))  x  emptiness of
      the text (a predicate a decoder has no business consulting);
    the verdict must be: selection / conversion / parser errors are returned as errors, an absent optional is Ok(None), and a
    present item that parses is delivered as that value — whatever the text looks like (an empty text is a present value)."""
    from .. import minterp
    F = ctx.F
    OPTP, RES = "core::option::Option", "core::result::Result"
    n = 0
    for b in c.bodies:
        if not (b.name == "decode" and b.trait and b.trait.split("::")[-1] in ("DecodeParam", "DecodeHeader") and b.id.startswith("conjure_http::server::")):
            continue
        sel = [t["call"]["name"] for x in [b] + c.closures_of(b) for _, t in x.calls() if t["call"]["name"] in ("only_item", "optional_item")]
        if len(set(sel)) != 1:
            continue
        optional = sel[0] == "optional_item"
        who = f"{b.trait.split('::')[-1]} for {(ty_adt(b.self_ty) or '?').split('::')[-1]}"
        bad, unsup, rows = [], None, 0
        sel_cases = ["err", "item"] + (["none"] if optional else [])
        for sc in sel_cases:
            for conv in (("ok", "err") if sc == "item" else ("ok",)):
                for pr in (("ok", "err") if sc == "item" and conv == "ok" else ("ok",)):
                    for empty in ((False, True) if sc == "item" else (False,)):
                        used = {"parse": False, "conv": False}

                        def oracle(f, argv, sc=sc, conv=conv, pr=pr, empty=empty):
                            nm, d_ = f.get("name"), f.get("def", "")
                            if nm in ("only_item", "optional_item"):
                                if sc == "err":
                                    return minterp.adt(RES, 1, [("sym", "selection-error")])
                                if sc == "none":
                                    return minterp.adt(RES, 0, [minterp.adt(OPTP, 0, [])])
                                return minterp.adt(RES, 0, [minterp.adt(OPTP, 1, [("sym", "item")]) if nm == "optional_item" else ("sym", "item")])
                            if nm == "to_str" and "HeaderValue" in d_:
                                used["conv"] = True
                                return minterp.adt(RES, 0, [("sym", "item")]) if conv == "ok" else minterp.adt(RES, 1, [("sym", "not-text")])
                            if nm in ("from_plain", "parse", "from_str") and ("FromPlain" in d_ or "core::str" in d_ or "FromStr" in d_):
                                used["parse"] = True
                                return minterp.adt(RES, 0, [("sym", "value")]) if pr == "ok" else minterp.adt(RES, 1, [("sym", "parse-error")])
                            if nm == "is_empty":
                                return empty
                            if nm in ("len",) and argv and minterp.contains_opaque(argv[0]):
                                return 0 if empty else 3
                            if nm in ("as_ref", "as_str", "deref", "borrow", "as_bytes", "trim", "into") and argv:
                                return argv[0]
                            return minterp.NO_VALUE
                        I = minterp.Interp(F, c, inline=lambda d_, rid: rid.startswith("conjure_http::server::") and c.body(rid) is not None and c.body(rid).d.get("vis") != "pub", max_depth=3)
                        I.call_oracle = oracle
                        try:
                            r = I.run(b, [("sym", f"a{k}") for k in range(b.argc)])
                        except minterp.Unsupported as e:
                            unsup = str(e)
                            continue
                        if not (minterp.is_adt(r) and r[1] == RES):
                            unsup = f"result {minterp.show(I, r)[:60]}"
                            continue
                        if (conv == "err" and not used["conv"]) or (pr == "err" and not used["parse"] and conv == "ok" and sc == "item" and False):
                            continue      # the decoder has no text-conversion step: this row repeats the conv=ok one
                        rows += 1
                        if sc == "err" or conv == "err" or pr == "err":
                            exp = "Err"
                        elif sc == "none":
                            exp = "Ok(None)"
                        else:
                            exp = "Ok(Some(value))" if optional else "Ok(value)"
                        if r[2] == 1:
                            got = "Err"
                        else:
                            v = r[3][0]
                            if minterp.is_adt(v) and v[1] == OPTP:
                                got = "Ok(None)" if v[2] == 0 else ("Ok(Some(value))" if v[3] and v[3][0] == ("sym", "value") else f"Ok(Some({minterp.show(I, v[3][0])[:30]}))")
                            else:
                                got = "Ok(value)" if v == ("sym", "value") else f"Ok({minterp.show(I, v)[:30]})"
                        if got != exp:
                            bad.append(f"selection={sc}, text conversion={conv}, parser={pr}, text {'empty' if empty else 'non-empty'}: returns {got}, must return {exp}")
        if rows == 0:
            ctx.note(f"R19.7 {who}: decode left the interpretable fragment ({unsup}); cardinality and error classes are decided by R19.2")
            continue
        n += 1
        ctx.check(not bad, "R19.7", b.loc(), f"{b.id}|decoder-table", f"{who}: " + "; ".join(bad[:3]) + " — a present value that parses must be delivered (an empty text is still a value: `?limit=` must be rejected for an integer, not read as absent), and every failure must be an error",
                  instance=f"{who}: {rows} rows (selection x conversion x parser x emptiness) as specified")
    ctx.floor("R19.7", "single-valued / optional parameter decoders decided as tables", n, 3)
    check_decoder_values(ctx, c)
    check_auth_values(ctx, c)


def check_decoder_values(ctx, c):
    """R19.9: every parameter decoder (single, optional, sequence; DecodeParam and DecodeHeader; FromStr and FromPlain flavours)
    evaluated on concrete lists of texts — none, one, several, with empty texts and unparsable ones — with the parser as the
    only atom (`"bad"` fails, every other text, the empty one included, parses to itself).  A single decoder delivers the one
    text given or fails, an optional one delivers None only for an empty list, a sequence decoder delivers every text in
    order: nothing is filtered, trimmed or defaulted on the way."""
    from .. import minterp
    F = ctx.F
    OPTP, RES = "core::option::Option", "core::result::Result"
    lists = [[], [""], ["x"], ["bad"], ["x", "y"], ["", "x"], ["x", ""], ["", ""], ["x", "bad"], [" x "], ["x", "", "y"]]
    n = 0
    for b in c.bodies:
        if not (b.name == "decode" and b.trait and b.trait.split("::")[-1] in ("DecodeParam", "DecodeHeader") and b.id.startswith("conjure_http::server::") and b.argc == 2):
            continue
        header = b.trait.endswith("DecodeHeader")
        st = tystr(b.self_ty or {})
        kind = "sequence" if "Seq" in st else "optional" if "Option" in st else "single"
        if not any(x in st for x in ("FromStr", "FromPlain")):
            continue
        who = f"{b.trait.split('::')[-1]} for {(ty_adt(b.self_ty) or '?').split('::')[-1]}"
        bad, rows, unsup = [], 0, None
        for texts in lists:
            def oracle(f, argv):
                nm, d_ = f.get("name"), f.get("def", "")
                if nm in ("from_plain", "parse", "from_str") and ("FromPlain" in d_ or "core::str" in d_ or "FromStr" in d_) and argv and isinstance(argv[-1], str):
                    return minterp.adt(RES, 1, [("sym", "parse-error")]) if argv[-1] == "bad" else minterp.adt(RES, 0, [("val", argv[-1])])
                if nm == "to_str" and "HeaderValue" in d_ and argv and isinstance(argv[0], tuple) and argv[0][0] == "hv":
                    return minterp.adt(RES, 0, [argv[0][1]])
                if nm in ("as_ref", "borrow", "deref") and argv and isinstance(argv[0], str):
                    return argv[0]
                if nm == "collect" and argv and minterp.is_it(argv[0]):
                    items = list(argv[0][1].items)
                    argv[0][1].items = []
                    if all(minterp.is_adt(x_) and x_[1] == RES for x_ in items):
                        for x_ in items:
                            if x_[2] == 1:
                                return x_
                        return minterp.adt(RES, 0, [("coll", [x_[3][0] for x_ in items])])
                    return ("coll", items)
                return minterp.NO_VALUE
            I = minterp.Interp(F, c, inline=lambda d_, rid: rid.startswith("conjure_http::server::") and c.body(rid) is not None, max_depth=4)
            I.call_oracle = oracle
            arg = ("array", [("hv", t_) for t_ in texts] if header else list(texts))
            try:
                r = I.run(b, [("sym", "runtime"), arg])
            except minterp.Unsupported as e:
                unsup = str(e)
                break
            if not (minterp.is_adt(r) and r[1] == RES):
                unsup = f"result {r!r:.60}"
                break
            rows += 1
            if kind == "single":
                exp = ("ok", ("val", texts[0])) if len(texts) == 1 and texts[0] != "bad" else ("err", None)
            elif kind == "optional":
                exp = ("ok", None) if not texts else (("ok", ("some", ("val", texts[0]))) if len(texts) == 1 and texts[0] != "bad" else ("err", None))
            else:
                exp = ("err", None) if "bad" in texts else ("ok", ("coll", [("val", t_) for t_ in texts]))
            if r[2] == 1:
                got = ("err", None)
            else:
                v = r[3][0]
                if kind == "optional" and minterp.is_adt(v) and v[1] == OPTP:
                    v = None if v[2] == 0 else ("some", v[3][0])
                got = ("ok", v)
            if got != exp:
                bad.append(f"values {texts!r}: returns {got!r:.70}, must return {exp!r:.70}")
        if unsup is not None:
            ctx.note(f"R19.9 {who}: decode left the interpretable fragment ({unsup}); decided by R19.2 / R19.7")
            continue
        n += 1
        ctx.check(not bad, "R19.9", b.loc(), f"{b.id}|decoder-values", f"{who} ({kind}): " + "; ".join(bad[:3]) + " — every text the client sent (an empty one too) is a value: it is parsed and delivered, or the request is refused",
                  instance=f"{who} ({kind}): {rows} concrete parameter lists as specified")
    ctx.floor("R19.9", "parameter decoders decided on concrete lists", n, 4)


def check_auth_values(ctx, c):
    """R19.10: the two auth parsers evaluated on concrete header texts (header lookup, text conversion and the token parser are
    the atoms; strings and iterators concrete): the token is accepted exactly when the header is the expected prefix
    (`Bearer ` / `<cookie>=`) followed by a well-formed token and nothing else — the prefix is not searched for inside the
    text, matched case-insensitively, or trimmed — and every other request is refused."""
    from .. import minterp
    import re as _re
    OPTP, RES = "core::option::Option", "core::result::Result"
    tok = _re.compile(r"[A-Za-z0-9\-._~+/]+=*")
    n = 0
    for b in c.bodies:
        if not (b.id.startswith(SRV) and b.kind == "fn" and b.name in ("parse_header_auth", "parse_cookie_auth")):
            continue
        prefix = "Bearer " if b.name == "parse_header_auth" else "session="
        texts = [None, prefix + "abc.DEF-123", prefix + "abc==", prefix, prefix + "a b", prefix + " abc", prefix + "abc ", "abc", "x" + prefix + "abc", "other=1; " + prefix + "abc", prefix + "abc; other=1",
                 prefix.lower() + "abc", prefix.upper() + "abc", " " + prefix + "abc", "NotBearer abc", "Basic abc", prefix.strip() + "abc", prefix + prefix + "abc", ""]
        bad, rows, unsup = [], 0, None
        for h in texts:
            def oracle(f, argv, h=h):
                nm, d_ = f.get("name"), f.get("def", "")
                if nm in ("get", "get_all") and "HeaderMap" in d_:
                    if nm == "get":
                        return minterp.adt(OPTP, 0, []) if h is None else minterp.adt(OPTP, 1, [("hv", h)])
                    return ("iter", minterp._It([] if h is None else [("hv", h)]))
                if nm == "to_str" and "HeaderValue" in d_ and argv and isinstance(argv[0], tuple) and argv[0][0] == "hv":
                    return minterp.adt(RES, 0, [argv[0][1]])
                if nm == "as_bytes" and "HeaderValue" in d_ and argv and isinstance(argv[0], tuple) and argv[0][0] == "hv":
                    return ("mem", argv[0][1].encode(), None)
                if nm in ("parse", "from_str", "new", "from_plain") and argv and isinstance(argv[-1], str) and ("core::str" in d_ or "BearerToken" in d_ or "FromStr" in d_ or "FromPlain" in d_):
                    return minterp.adt(RES, 0, [("token", argv[-1])]) if tok.fullmatch(argv[-1]) else minterp.adt(RES, 1, [("sym", "bad-token")])
                return minterp.NO_VALUE
            I = minterp.Interp(ctx.F, c, inline=lambda d_, rid: rid.startswith(SRV), max_depth=4)
            I.call_oracle = oracle
            args = [("sym", "parts")] + ([prefix] if b.argc == 2 else [])
            try:
                r = I.run(b, args)
            except minterp.Unsupported as e:
                unsup = str(e)
                break
            if not (minterp.is_adt(r) and r[1] == RES):
                unsup = f"result {r!r:.60}"
                break
            rows += 1
            want = None
            if h is not None and h.startswith(prefix) and tok.fullmatch(h[len(prefix):]):
                want = h[len(prefix):]
            got = r[3][0][1] if r[2] == 0 and isinstance(r[3][0], tuple) and r[3][0] and r[3][0][0] == "token" else (None if r[2] == 1 else "?")
            if got != want:
                bad.append(f"header {h!r}: {'token ' + repr(got) if got else 'refused'}, must be {'token ' + repr(want) if want else 'refused'}")
        if unsup is not None:
            ctx.note(f"R19.10 {b.name}: not evaluable on concrete header texts ({unsup}); decided by R19.2 / R19.6")
            continue
        n += 1
        ctx.check(not bad, "R19.10", b.loc(), f"{b.name}|auth-values", f"{b.name}: " + "; ".join(bad[:4]), instance=f"{b.name}: {rows} header texts: accepted exactly for `{prefix}<token>`")
    return n


def run(ctx):
    ctx.explanation = EXPLANATION
    ctx.assumptions = ["InvalidArgument / PermissionDenied map to INVALID_ARGUMENT / PERMISSION_DENIED (decided by C17 R17.6 on the standard error types)"]
    F = ctx.F
    c = F.crate("conjure_http")
    ctx.units["conjure_http bodies"] = len(c.bodies)
    hb = helper_bodies(c)
    ctx.floor("R19.1", "extraction helpers", len(hb), 5)
    for name, (ob, rb) in sorted(hb.items()):
        check_helper(ctx, c, name, ob, rb)
    # R19.2
    scope = decoder_scope(c)
    n = c06.check_error_classes(ctx, c, scope, "R19.2", expected=INVALID_ARG, label="parameter-decoding")
    ctx.floor("R19.2", "error construction sites in parameter decoders", n, 6)
    auth = [b for b in c.bodies if b.id.startswith(SRV) and b.name in ("parse_auth_inner", "parse_header_auth", "parse_cookie_auth")]
    # ... and whatever they reach inside the module: private extraction helpers, closures, conversions of a private failure enum
    seen_ = {b.id for b in auth}
    work_ = list(auth)
    while work_:
        x_ = work_.pop()
        for y_ in [x_] + c.closures_of(x_):
            for _, t_ in y_.calls():
                for f_ in [t_["call"]] + [(a_.get("c") or {}).get("fn") for a_ in t_["args"]]:
                    if not f_:
                        continue
                    if f_.get("trait") and not (f_.get("resolved") or {}).get("local"):
                        late_ = c.resolve_trait_call(f_)
                        if late_:
                            f_ = dict(f_, resolved=late_)
                    rid_ = (f_.get("resolved") or {}).get("id") if (f_.get("resolved") or {}).get("local") else (f_.get("id") if f_.get("local") else None)
                    cb_ = c.body(rid_) if rid_ else None
                    if cb_ is not None and cb_.id not in seen_ and cb_.id.startswith(SRV) and (cb_.d.get("vis") != "pub" or cb_.trait) and cb_.kind in ("fn", "assoc_fn"):
                        seen_.add(cb_.id)
                        auth.append(cb_)
                        work_.append(cb_)
    n2 = c06.check_error_classes(ctx, c, auth, "R19.2", expected=PERM_DENIED, label="auth-parsing")
    ctx.floor("R19.2", "auth failure sites", n2, 1)
    check_cardinality(ctx, c)
    check_decoder_tables(ctx, c)
    # R19.8 a well-formed request must not be turned into a decoding failure by the extraction step itself (shared with C07)
    from . import c07
    ctx.include(c07, {"R7.5", "R7.9"}, "R19.8", "a path argument that the client encoded correctly (an escaped '/' inside one segment) must decode, not be reported as repeated / malformed")
    # helpers themselves construct no other errors
    for name, (ob, rb) in hb.items():
        ctors = [t["call"]["def"] for x in [rb] + c.closures_of(rb) for _, t in x.calls() if t["call"]["def"].startswith("conjure_error::error::Error::") and t["call"]["name"] not in ("with_safe_param",)]
        ctx.check(not ctors, "R19.1", rb.loc(), f"{name}|no-own-errors", f"{name} constructs errors itself: {ctors}", nontrivial=False)
    # panic inventory of the helpers
    for name, (ob, rb) in hb.items():
        for ln, what, x in c06.panic_sites(rb):
            ok = name == "path_param" and (what in ("Option::expect", "Option::unwrap", "Index::index") or what.startswith("core::panicking::panic"))
            ctx.check(ok, "R19.6", rb.loc(ln), f"{name}|panic|{what}", f"{name}: possible panic site `{what}`",
                      instance=f"{name}: {what} allow-listed (documented caller contract: the router must install the PathParams extension with every template variable)", nontrivial=False)
    # ... and of the auth parsing path (no panic is documented there: every malformed credential is PERMISSION_DENIED)
    for ab in [x for x in c.bodies if x.id.startswith(SRV) and x.name in ("parse_auth_inner", "parse_header_auth", "parse_cookie_auth") and x.kind == "fn"]:
        for x in [ab] + c.closures_of(ab):
            for ln, what, _x in c06.panic_sites(x):
                ctx.violation("R19.6", x.loc(ln), f"{ab.name}|panic|{what}", f"{ab.name}: possible panic site `{what}`: a malformed credential must be answered with PERMISSION_DENIED, never with a panic")
    # R19.3 template provenance (E3)
    tm = F.tmpl()
    if tm is None:
        ctx.note("R19.3 (template provenance) skipped: tmpl facts unavailable")
    else:
        check_templates(ctx, tm)
    # R19.4 / R19.6 instance
    ct = F.crate("conjure_test")
    ir = instance.IR()
    hs = instance.handlers(ct)
    ctx.units["generated handlers"] = len(hs)
    ctx.floor("R19.4", "generated handlers", len(hs), 4 * len(ir.endpoints))
    by_key = {}
    for h in hs:
        by_key.setdefault((h.service, h.name), []).append(h)
    nargs = 0
    for svc, e in ir.endpoints:
        for h in by_key.get((svc, e["endpointName"]), []):
            key = f"{h.config}/{h.flavor}/{svc}.{e['endpointName']}"
            ex = instance.extraction_calls(h)
            b = h.body
            seen = set()
            for kind, bb, t in ex:
                if kind.startswith("auth"):
                    continue
                la = instance.const_str_arg(b, t["args"][-1])
                arg = [a for a in e["args"] if a["argName"] == la]
                if len(arg) != 1:
                    ctx.violation("R19.4", b.loc(), f"{key}|log_as|{la}", f"{key}: extraction call {t['call']['name']} reports the name {la!r}, which is not an argument declared by the IR ({[a['argName'] for a in e['args']]})")
                    continue
                a = arg[0]
                seen.add(la)
                nargs += 1
                pt = a["paramType"]["type"]
                good = pt == kind
                detail = f"kind {kind} vs IR {pt}"
                if good and kind in ("query", "header"):
                    k = instance.const_str_arg(b, t["args"][2])
                    pid = a["paramType"][pt]["paramId"]
                    good = (k == pid) if kind == "query" else (k is not None and k.lower() == pid.lower())
                    detail = f"key {k!r} vs IR paramId {pid!r}"
                if good and kind == "path":
                    k = instance.const_str_arg(b, t["args"][2])
                    good = k == a["argName"]
                    detail = f"path variable {k!r} vs IR {a['argName']!r}"
                ctx.check(good, "R19.4", b.loc(), f"{key}|{la}", f"{key}: argument {la}: {detail}", instance=f"{key}: {kind} {la} ({detail})")
            want = {a["argName"] for a in e["args"]}
            ctx.check(seen == want, "R19.4", b.loc(), f"{key}|all-args", f"{key}: extraction calls name {sorted(seen)}, IR declares {sorted(want)}", instance=f"{key}: {len(want)} args joined", nontrivial=False)
            # R19.6 / R4.4 single invocation after all extractions
            tc = instance.handler_trait_call(h)
            if len(tc) != 1:
                ctx.violation("R19.6", b.loc(), f"{key}|single-call", f"{key}: the service method is called {len(tc)} times")
                continue
            cfg = CFG(b)
            ok = not cfg.in_loop(tc[0][0]) and all(dt.dominated_by_success(cfg, F, bb, tc[0][0]) for _, bb, t in ex)
            ctx.check(ok, "R19.6", b.loc(), f"{key}|after-extraction", f"{key}: the service method must be invoked exactly once, outside any loop, and only after every argument extraction succeeded",
                      instance=f"{key}: handler call dominated by success of {len(ex)} extractions")
    ctx.floor("R19.4", "joined extraction calls", nargs, 4 * 27)

    # ---------------- R19.5 generator: `log_as` is emitted exactly when the emitted identifier differs from the declared name
    # the endpoint macro falls back to the Rust identifier when no log_as is given, so the generator must decide by comparing
    # the identifier it emits (Context::field_name(argName): snake case + keyword escape) with the declared argName itself
    cg = F.crate("conjure_codegen")
    FIELD_NAME = "conjure_codegen::context::Context::field_name"
    ARG_NAME = "ArgumentDefinition::arg_name"
    sv = [b for b in cg.bodies if b.id.startswith("conjure_codegen::servers::")]

    def origin(b, op, depth=0):
        """set of labels describing where a compared operand comes from: 'ident' (Context::field_name of the declared name),
        'declared' (arg_name), or the name of any other transforming call; follows helper parameters to the callers"""
        roots, calls = dt.transforming_calls(b, op)
        out = set()
        for t in calls:
            d = t["call"]["def"]
            if d == FIELD_NAME:
                inner = origin(b, t["args"][1], depth + 1) if len(t["args"]) > 1 else {"?"}
                out.add("ident" if inner == {"declared"} else "ident-of-" + "/".join(sorted(inner)))
            elif d.endswith(ARG_NAME):
                out.add("declared")
            else:
                out.add(t["call"]["name"])
        for k in roots:
            if depth < 3:
                callers = [(x, t) for x in sv for _, t in x.calls() if t["call"].get("id") == b.id and len(t["args"]) >= k]
                if callers:
                    for x, t in callers:
                        out |= origin(x, t["args"][k - 1], depth + 1)
                    continue
            out.add(f"param#{k}")
        return out

    found = 0
    for b in sv:
        # (the template naming `log_as` may sit in a closure of the function: `(a != b).then(|| quote!(.. log_as ..))`)
        consts = {str((dt.resolve_const(y_, a) or {}).get("str")) for y_ in [b] + cg.closures_of(b) for _, t in y_.calls() for a in t["args"]}
        if b.kind == "closure" or not any("log_as" in x for x in consts):
            continue
        for bb, t in b.calls():
            if t["call"]["def"] not in ("core::cmp::PartialEq::eq", "core::cmp::PartialEq::ne"):
                continue
            oa, ob_ = origin(b, t["args"][0]), origin(b, t["args"][1])
            if not ({"ident", "declared"} & (oa | ob_)) and not any(x.startswith("ident-of") for x in oa | ob_):
                if not ({"to_snake_case", "to_string"} & (oa | ob_)):
                    continue
            found += 1
            ok = {frozenset(oa), frozenset(ob_)} == {frozenset({"ident"}), frozenset({"declared"})}
            ctx.check(ok, "R19.5", b.loc(t["ln"]), f"{b.name}|log_as-decision",
                      f"{b.name}: `log_as` is emitted depending on a comparison of {sorted(oa)} with {sorted(ob_)}; it must compare the emitted identifier (Context::field_name(argName)) with the declared argName, otherwise an argument whose identifier was changed (keyword escape `type` -> `type_`) gets no log_as and failures name the identifier",
                      instance=f"{b.name}: log_as emitted iff field_name(argName) != argName")
    ctx.floor("R19.5", "log_as emission decisions in the server generator", found, 1)

def check_templates(ctx, tm):
    slots = 0
    for fn in tm.get("functions", []):
        if not fn["file"].endswith("conjure-macros/src/endpoints.rs"):
            continue
        for q in fn["quotes"]:
            for call in q.get("calls", []):
                cname = call["name"]
                if cname.startswith("#"):
                    b_ = fn["lets"].get(cname[1:], "")
                    cname = next((h for h in HELPERS if h in b_), cname)
                    # one template for all the helpers: `conjure_http::private::#function::<..>(..)` with the helper's name a
                    # parameter of the template function
                    if cname.startswith("#") and not b_ and ("conjure_http::private::" + cname) in q["text"].replace(" ", ""):
                        cname = HELPERS[0]
                if cname in HELPERS:
                    slots += 1
                    last = call["args"][-1] if call["args"] else ""
                    var = last.strip().lstrip("#").strip()
                    binding = fn["lets"].get(var, "")
                    good = last.strip().startswith("#") and "log_as" in binding and "(" in binding and "ident" not in binding
                    if not good and last.strip().startswith("#") and not binding:
                        # the interpolated variable is a parameter of the template function: every caller must pass the
                        # argument's declared log name (the result of ArgType::log_as / Arg::log_as)
                        cm = ctx.F.crate("conjure_macros")
                        gbs = [x for x in cm.bodies if x.kind in ("fn", "assoc_fn") and x.name == fn["name"]]
                        if len(gbs) == 1:
                            gb = gbs[0]
                            ks = [k for k in range(1, gb.argc + 1) if gb.local_name(k) == var]
                            callers = [(x, t) for x in cm.bodies for _, t in x.calls() if t["call"].get("id") == gb.id]
                            if len(ks) == 1 and callers:
                                good = all(any(c_["call"]["name"] == "log_as" for c_ in dt.transforming_calls(x, t["args"][ks[0] - 1])[1]) and not dt.transforming_calls(x, t["args"][ks[0] - 1])[0]
                                           for x, t in callers)
                                binding = f"parameter `{var}`, passed by {sorted({x.name for x, _ in callers})}"
                    ctx.check(good, "R19.3", f"{fn['file'].split('/repo/')[-1]}:{q['line']}", f"{fn['name']}|{call['name']}|log-name",
                              f"macro template in {fn['name']}: the log-name argument of {call['name']} is `{last}` bound to `{binding}`; it must be the argument's declared log name (arg.log_as())",
                              instance=f"{fn['name']}: {call['name']}(.., {last}) with {var} = {binding}")
    ctx.floor("R19.3", "helper-call templates in the endpoint macro", slots, 1)
