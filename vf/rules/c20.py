"""C20 — deterministic generation: absence of every way two runs could differ."""
import json, os
from ..facts import ty_adt, tystr, walk_ty, place_local, place_proj, op_place, strip_refs
from ..cfg import CFG, Tracer, thaw
from .. import inline, dt, core

HASH_ADTS = ("std::collections::hash::map::HashMap", "std::collections::hash::set::HashSet", "hashbrown::map::HashMap", "hashbrown::set::HashSet")
HASH_ITER = {"iter", "iter_mut", "keys", "values", "values_mut", "into_iter", "into_keys", "into_values", "drain", "retain",
             "extract_if", "difference", "symmetric_difference", "intersection", "union"}
HASH_ITER_TYPES = ("std::collections::hash::map::Iter", "std::collections::hash::map::Keys", "std::collections::hash::map::Values",
                   "std::collections::hash::map::IntoIter", "std::collections::hash::set::Iter", "std::collections::hash::set::IntoIter",
                   "std::collections::hash::map::IterMut", "std::collections::hash::map::ValuesMut", "std::collections::hash::map::Drain")
VARYING = [
    ("std::env::", None), ("std::time::SystemTime::now", None), ("std::time::Instant::now", None), ("std::process::id", None),
    ("std::thread::", None), ("std::fs::read_dir", None), ("rand::", None), ("getrandom::", None), ("fastrand::", None),
    ("std::hash::random::RandomState::new", "direct"), ("rayon", None), ("std::thread::current", None),
]
WRITE_FNS = {"std::fs::write": 0, "std::fs::create_dir_all": 0, "std::fs::create_dir": 0, "std::fs::File::create": 0,
             "std::fs::File::create_new": 0, "std::fs::remove_file": 0, "std::fs::remove_dir_all": 0, "std::fs::remove_dir": 0,
             "std::fs::rename": 1, "std::fs::copy": 1, "std::fs::OpenOptions::open": 1, "std::fs::hard_link": 1,
             "std::os::unix::fs::symlink": 1, "std::fs::File::options": None, "std::fs::set_permissions": 0}
PATH_TRANSPARENT = set(Tracer.TRANSPARENT) | {"std::path::Path::join", "std::path::Path::to_path_buf", "std::path::PathBuf::as_path",
                                               "std::path::Path::new", "std::path::Path::with_extension", "std::path::Path::with_file_name"}
SCOPE = ["conjure_codegen", "conjure_rust"]

EXPLANATION = (
    "Determinism is a relation between executions; statically it is decided as the absence of every way a run could differ: "
    "(R20.1) no call in conjure_codegen / conjure-rust to an API whose result order depends on the per-process hash seed "
    "(HashMap/HashSet iteration, IntoIterator on them, Debug formatting of them) — with the one hash iteration that exists in "
    "the workspace (conjure-macros argument validation) as mandatory positive control; (R20.2) no process-varying input "
    "(environment, clock, pid, threads, directory listing, RNG, pointer-to-integer casts) — positive control: the env read in "
    "conjure-test's build script; (R20.3) every file-system write's path operand is a Path::join chain rooted, through the "
    "callers, in generate_files' output-directory parameter and never in the IR-file parameter; (R20.4) each CLI field flows "
    "into the Config setter of the same meaning and none is dropped; (R20.5) containers whose iteration reaches the output "
    "are Vec/BTreeMap and the emitted safe-argument list is sorted. NOT decided: determinism of heck, prettyplease, toml, "
    "serde_json, quote (trusted base).")


def is_hash_ty(t):
    t = strip_refs(t)
    return bool(t) and t.get("adt") in HASH_ADTS


def hash_order_uses(body):
    """[(ln, description)] calls in this body whose result depends on hash iteration order"""
    out = []
    for bb, t in body.calls():
        f = t["call"]
        d = f.get("def", "")
        name = f.get("name")
        st = f.get("self_ty")
        if name in HASH_ITER and (any(d.startswith(h) for h in HASH_ADTS) or (st is not None and is_hash_ty(st))):
            out.append((t["ln"], f"{d} (hash-order iteration)"))
            continue
        if name == "into_iter" and f.get("substs") and is_hash_ty(f["substs"][0]):
            out.append((t["ln"], f"IntoIterator::into_iter on {tystr(f['substs'][0])}"))
            continue
        if name in ("new_debug", "fmt") and any(is_hash_ty(x) for x in f.get("substs", [])):
            out.append((t["ln"], f"Debug formatting of {[tystr(x) for x in f['substs'] if is_hash_ty(x)]}"))
            continue
        # iterator values of hash collections consumed here (came from elsewhere, e.g. a field)
        if any(n.get("adt") in HASH_ITER_TYPES for s in f.get("substs", []) for n in walk_ty(s)) and name in ("next", "collect", "for_each", "fold", "map", "extend", "from_iter"):
            out.append((t["ln"], f"{d} over a hash-collection iterator"))
    return out


def varying_uses(body):
    out = []
    for bb, t in body.calls():
        d = t["call"].get("def", "")
        for pref, mode in VARYING:
            if d.startswith(pref):
                out.append((t["ln"], d))
        if t["call"].get("name") == "new_pointer" and "fmt::rt::Argument" in d:
            out.append((t["ln"], "pointer formatting {:p}"))
    for bb, j, s in body.stmts():
        r = s["r"]
        if "cast" in r and ("PointerExposeProvenance" in r["kind"] or "PtrToInt" in r["kind"]):
            out.append((s["ln"], f"pointer-to-integer cast ({r['kind']})"))
    return out


def run(ctx):
    ctx.explanation = EXPLANATION
    ctx.assumptions = ["heck, prettyplease, quote, syn, toml, serde_json are deterministic functions of their inputs",
                       "the only inputs of generation are the IR file and Config (decided: R20.2)"]
    F = ctx.F
    # ------------------------------------------------------------ R20.1
    total = 0
    for cn in SCOPE:
        c = F.crate(cn)
        ctx.units[f"{cn} bodies"] = len(c.bodies)
        for b in c.bodies:
            total += 1
            for ln, what in hash_order_uses(b):
                ctx.violation("R20.1", b.loc(ln), f"{b.id}|{what.split(' ')[0]}", f"{b.id}: {what}: emitted order would depend on the per-process hash seed")
    ctx.ok("R20.1", "conjure_codegen+conjure_rust", f"{total} bodies scanned: no hash-order-dependent call")
    pc = []
    cm = F.crate("conjure_macros")
    for b in cm.bodies:
        pc += [(b, x) for x in hash_order_uses(b)]
    ctx.check(len(pc) >= 1, "R20.1", "conjure_macros", "positive-control",
              "positive control failed: the matcher no longer reports the hash iteration known to exist in conjure-macros (argument validation); the rule would pass vacuously",
              instance=f"positive control: {pc[0][0].id}: {pc[0][1][1]}" if pc else "")
    # ------------------------------------------------------------ R20.2
    for cn in SCOPE:
        c = F.crate(cn)
        for b in c.bodies:
            for ln, what in varying_uses(b):
                ctx.violation("R20.2", b.loc(ln), f"{b.id}|{what.split('::<')[0]}", f"{b.id}: {what}: process-varying input inside the generator")
    ctx.ok("R20.2", "conjure_codegen+conjure_rust", f"{total} bodies scanned: no environment/clock/pid/thread/read_dir/RNG/pointer-cast use")
    if F.has("build_script_build"):
        bs = F.crate("build_script_build")
        pc2 = [x for b in bs.bodies for x in varying_uses(b)]
        ctx.check(len(pc2) >= 1, "R20.2", "conjure-test/build.rs", "positive-control",
                  "positive control failed: the matcher no longer reports the environment read of conjure-test's build script",
                  instance=f"positive control: build script reads {pc2[0][1]}" if pc2 else "")
    else:
        ctx.violation("R20.2", "conjure-test/build.rs", "positive-control|facts", "fact file of the build script missing")
    # ------------------------------------------------------------ R20.3
    cg = F.crate("conjure_codegen")
    writes = []
    for b in cg.bodies:
        for bb, t in b.calls():
            d = t["call"].get("def", "")
            base = d.split("::<")[0]
            if base in WRITE_FNS or (base.startswith("std::fs::") and t["call"].get("name") in ("write", "create", "create_dir_all", "rename", "copy", "remove_file", "remove_dir_all")):
                writes.append((b, bb, t, WRITE_FNS.get(base, 0) or 0))
    ctx.floor("R20.3", "file-system write calls in conjure_codegen", len(writes), 2)
    gen = [b for b in cg.bodies if b.name == "generate_files" and b.d.get("vis") == "pub"]
    if len(gen) != 1:
        ctx.violation("R20.3", "conjure_codegen", "anchor|generate_files", "public generate_files not found")
        return
    gen = gen[0]
    out_param = gen.argc  # last parameter = requested output directory
    in_param = gen.argc - 1
    # callers map: callee id -> [(caller body, term)]
    callers = {}
    for b in cg.bodies:
        for bb, t in b.calls():
            f = t["call"]
            if f.get("local"):
                callers.setdefault(f["id"], []).append((b, t))

    def owner(b):
        return cg.body(b.root) if b.root else b

    memo = {}
    entry_points = set()

    def rooted(b, op, depth=0):
        """(ok, reason): the path operand derives only from the out_dir parameter of generate_files"""
        tr = Tracer(b, transparent=PATH_TRANSPARENT)
        srcs = tr.sources(op)
        roots = set()
        for s in srcs:
            while s[0] == "field":
                s = s[1]
            roots.add(s)
        if not roots or any(r[0] != "arg" for r in roots):
            return False, f"path derives from {sorted(str(r[0]) for r in roots)} in {b.id}, not from a directory parameter"
        if depth > 6:
            return False, "call chain too deep"
        for r in roots:
            k = r[1]
            if b.id == gen.id:
                if k != out_param:
                    return False, f"path derives from parameter #{k} of generate_files, not from the output directory (#{out_param})"
                continue
            key = (b.id, k)
            if key in memo:
                if not memo[key][0]:
                    return memo[key]
                continue
            memo[key] = (True, "")
            cs = [(cb, t) for cb, t in callers.get(b.id, []) if owner(cb).id != b.id or True]
            ext = [(cb, t) for cb, t in cs]
            if not ext and b.d.get("vis") == "pub" and k == b.argc and b.argc >= 2:
                # another public entry point (no caller inside the crate): by the convention of generate_files its last parameter
                # is the requested output directory — it must be a path (a type parameter / Path / PathBuf), not text
                ty_ = tystr(strip_refs(b.local_ty(k)))
                if ty_ in ("std::path::Path", "std::path::PathBuf") or (len(ty_) <= 2 and ty_.isupper()) or ty_.startswith("impl "):
                    entry_points.add(b.id)
                    continue
            if not ext:
                memo[key] = (False, f"{b.id} has no caller inside conjure_codegen: parameter #{k} is not tied to generate_files' output directory")
                return memo[key]
            for cb, t in ext:
                if cb.id == b.id:
                    # recursion (ModuleTrie::render): the argument must itself be rooted in the same parameter
                    tr2 = Tracer(cb, transparent=PATH_TRANSPARENT)
                    rr = set()
                    for s in tr2.sources(t["args"][k - 1]):
                        while s[0] == "field":
                            s = s[1]
                        rr.add(s)
                    if rr != {("arg", k)}:
                        memo[key] = (False, f"recursive call in {b.id} passes a path not derived from its own directory parameter")
                        return memo[key]
                    continue
                ok, why = rooted(cb, t["args"][k - 1], depth + 1)
                if not ok:
                    memo[key] = (False, why)
                    return memo[key]
        return True, ""

    for b, bb, t, pidx in writes:
        ok, why = rooted(b, t["args"][pidx])
        ctx.check(ok, "R20.3", b.loc(t["ln"]), f"{b.id}|{t['call']['def'].split('::<')[0]}",
                  f"{b.id}: {t['call']['def'].split('::<')[0]} writes to a path that is not provably beneath the requested output directory: {why}",
                  instance=f"{b.id}: {t['call']['name']} path rooted in generate_files(out_dir)")
    # joined components: literal components must be relative and without '..'
    ncomp = 0
    for b in cg.bodies:
        for bb, t in b.calls():
            if t["call"].get("def", "").startswith("std::path::Path::join"):
                r = dt.resolve_copy(b, t["args"][1])
                if r[0] == "const" and "str" in r[1]:
                    ncomp += 1
                    s_ = r[1]["str"]
                    ctx.check(not s_.startswith("/") and ".." not in s_.split("/"), "R20.3", b.loc(t["ln"]), f"{b.id}|join|{s_}",
                              f"{b.id}: joins the literal component {s_!r}, which escapes the directory", instance=f"join({s_!r})")
                else:
                    tr = Tracer(b, transparent=PATH_TRANSPARENT, through_calls=True, through_agg=True)
                    roots = tr.root_locals(t["args"][1])
                    if b.id == gen.id or (b.root == gen.id):
                        ctx.check(in_param not in roots, "R20.3", b.loc(t["ln"]), f"{b.id}|join-ir-file", "a joined component derives from the IR file path")
    # ------------------------------------------------------------ R20.4
    spec = json.load(open(os.path.join(core.VERIF, "spec", "cli_config.json")))
    cr = F.crate("conjure_rust")
    main = [b for b in cr.bodies if b.name == "main" and b.kind == "fn"]
    if len(main) != 1:
        ctx.violation("R20.4", "conjure_rust", "anchor|main", "main not found")
        return
    # the flag -> Config translation may live in a private helper of the CLI
    main = inline.expand(cr, main[0], depth=2, pred=lambda cb: cb.d.get("vis") != "pub" or cb.id.startswith("conjure_rust::"), lower=True)
    args_adt = None
    for path, a in cr.adts.items():
        if a.get("local") and a["kind"] == "struct" and any(f["name"] == "output_directory" or f["name"] == "exhaustive" for f in a["variants"][0]["fields"]):
            args_adt = a
    fields = [f["name"] for f in args_adt["variants"][0]["fields"]] if args_adt else []
    ctx.check(bool(fields), "R20.4", "conjure_rust", "anchor|Args", "CLI argument struct not found")
    tr = Tracer(main, through_calls=True, through_agg=True)
    used = set()
    seen_setters = {}
    for bb, t in main.calls():
        d = t["call"].get("def", "")
        if not d.startswith("conjure_codegen::Config::"):
            continue
        name = t["call"]["name"]
        per_arg = []
        for a in t["args"][1:]:
            fs = set()
            consts = 0
            for s in tr.sources(a):
                base = s
                while base[0] == "field":
                    for e in thaw(base[2]):
                        if isinstance(e, dict) and "f" in e and e.get("n") in fields:
                            fs.add(e["n"])
                    base = base[1]
            per_arg.append(sorted(fs))
            used |= fs
        seen_setters[name] = per_arg
        for a in t["args"][1:]:
            roots_, via_ = dt.transforming_calls(main, a)
            alter = sorted({c_["call"]["name"] for c_ in via_} - {"clone", "to_string", "to_owned", "as_str", "as_ref", "as_deref", "deref", "borrow", "into", "from", "as_path", "as_os_str", "map", "unwrap_or", "or", "or_else", "zip", "cloned", "parse", "unwrap_or_else", "expect", "unwrap", "and_then", "as_slice", "to_path_buf", "into_os_string", "clone_from", "parse_from", "try_parse", "get_matches"})
            ctx.check(not alter, "R20.4", main.loc(t["ln"]), f"main|{name}|value-unchanged", f"CLI -> Config::{name}: the flag's value passes through {alter} before reaching the library: the CLI then generates something else than the library call with the same option value",
                      instance=f"Config::{name}: flag value handed over unchanged", nontrivial=False)
    for name, exp in spec["setters"].items():
        got = seen_setters.get(name)
        ctx.check(got == exp["args"], "R20.4", main.loc(), f"main|{name}",
                  f"CLI -> Config::{name}: arguments derive from fields {got}, expected {exp['args']} ({exp['why']})",
                  instance=f"Config::{name} <- {got}")
    unused = [f for f in fields if f not in used]
    ctx.check(not unused, "R20.4", main.loc(), "main|unused-fields", f"CLI fields never reaching Config: {unused} (the flag would be silently ignored)",
              instance=f"all {len(fields)} CLI fields reach Config")
    extra = [n for n in seen_setters if n not in spec["setters"] and n not in ("new",)]
    ctx.check(not extra, "R20.4", main.loc(), "main|unknown-setters", f"Config methods called by the CLI that the table does not know: {extra}", nontrivial=False)
    # ------------------------------------------------------------ R20.5
    for path, a in cg.adts.items():
        if not a.get("local") or "::types::" in path or "::example_types::" in path:
            continue
        for v in a["variants"]:
            for f in v["fields"]:
                hs = [n["adt"] for n in walk_ty(f["ty"]) if n.get("adt") in HASH_ADTS]
                if hs:
                    # allowed as look-up tables only: iteration is excluded by R20.1
                    ctx.ok("R20.5", f"{a['file']}:{a['line']}", f"{path}.{f['name']}: hash table used for look-ups only (R20.1 excludes iteration)", nontrivial=False)
    mt = [a for p, a in cg.adts.items() if a.get("local") and {"submodules", "types"} <= {f["name"] for f in a["variants"][0]["fields"]}] if True else []
    if len(mt) == 1:
        fs = {f["name"]: f["ty"] for f in mt[0]["variants"][0]["fields"]}
        ctx.check(ty_adt(fs["submodules"]) == "alloc::collections::btree::map::BTreeMap" and ty_adt(fs["types"]) == "alloc::vec::Vec", "R20.5",
                  f"{mt[0]['file']}:{mt[0]['line']}", "module-trie|ordered", f"module tree containers are {tystr(fs['submodules'])} / {tystr(fs['types'])}; must be BTreeMap / Vec",
                  instance="ModuleTrie { submodules: BTreeMap, types: Vec }")
    else:
        ctx.violation("R20.5", "conjure_codegen", "anchor|module-trie", "module tree type (fields submodules/types) not found")
    # ------------------------------------------------------------ R20.6 the CLI's flag forms mean what the library options mean
    # bare `--flag` = true (default_missing_value), flag absent = the library's default for that option (default_value)
    cfg_new = [b for b in cg.bodies if b.kind == "assoc_fn" and b.name == "new" and (ty_adt(b.self_ty) or "") == "conjure_codegen::Config"]
    lib_defaults = {}
    if len(cfg_new) == 1:
        a_ = cg.adts.get("conjure_codegen::Config")
        for bb, j, s_ in cfg_new[0].stmts():
            if s_["r"].get("agg") == "adt" and s_["r"].get("adt") == "conjure_codegen::Config" and a_:
                for f_, o_ in zip(a_["variants"][0]["fields"], s_["r"]["ops"]):
                    k_ = dt.resolve_const(cfg_new[0], o_)
                    if k_ is not None and "bool" in k_:
                        lib_defaults[f_["name"]] = bool(k_["bool"])
    aug = [b for b in cr.bodies if b.name in ("augment_args", "augment_args_for_update") and (b.trait or "").endswith("::Args")]
    nflag = 0
    for b in aug:
        trc = Tracer(b, through_calls=True)
        for bb, t in b.calls():
            if t["call"]["name"] not in ("default_missing_value", "default_value") or "clap" not in t["call"]["def"]:
                continue
            val = (dt.resolve_const(b, t["args"][1]) or {}).get("str")
            ids = set()
            for s_ in trc.sources(t["args"][0]):
                while s_[0] == "field":
                    s_ = s_[1]
                if s_[0] == "call" and b.blocks[s_[1]]["t"]["call"]["name"] == "new" and "Arg" in b.blocks[s_[1]]["t"]["call"]["def"]:
                    k_ = dt.resolve_const(b, b.blocks[s_[1]]["t"]["args"][0])
                    if k_ and "str" in k_:
                        ids.add(k_["str"])
            flag = next(iter(ids)) if len(ids) == 1 else None
            nflag += 1
            if t["call"]["name"] == "default_missing_value":
                ctx.check(val == "true", "R20.6", b.loc(t["ln"]), f"{b.name}|{flag}|bare-flag", f"CLI flag `{flag}` given without a value means {val!r}; the bare flag must mean true (the library call it stands for is .{flag}(true))",
                          instance=f"--{flag} (bare) = true")
            elif flag in lib_defaults:
                ctx.check(val == str(lib_defaults[flag]).lower(), "R20.6", b.loc(t["ln"]), f"{b.name}|{flag}|absent-flag", f"CLI flag `{flag}` defaults to {val!r} when absent; the library default (Config::new) is {lib_defaults[flag]}",
                          instance=f"--{flag} absent = {lib_defaults[flag]} (Config::new)")
    ctx.floor("R20.6", "clap default / missing-value settings of the CLI flags", nflag, 2)
    # ------------------------------------------------------------ R20.7 the library's option setters are independent: each writes
    # its own field(s) only, so the result does not depend on the order in which a caller (the CLI or a build script) applies them
    writes_by = {}
    for b in cg.bodies:
        if b.kind != "assoc_fn" or (ty_adt(b.self_ty) or "") != "conjure_codegen::Config" or b.d.get("vis") != "pub" or b.trait:
            continue
        if "mut" not in json.dumps(b.local_ty(1) or {}) or ty_adt(strip_refs(b.local_ty(0) or {})) != "conjure_codegen::Config":
            continue
        ws = set()
        for bb, j, s_ in b.stmts():
            d_ = s_["d"]
            if not isinstance(d_, int) and d_["l"] == 1:
                for e in d_["p"]:
                    if isinstance(e, dict) and "f" in e and e.get("n"):
                        ws.add(e["n"])
                        break
            # a mutable borrow of a field handed to a call writes it as well (`self.version.get_or_insert_with(..)`)
            r_ = s_["r"]
            if r_.get("mut") and "ref" in r_ and not isinstance(r_["ref"], int) and r_["ref"]["l"] == 1:
                used_by_call = any(uj == "T" and "call" in it for _, uj, it in dt.uses_of_local(b, place_local(s_["d"])))
                if used_by_call:
                    for e in r_["ref"]["p"]:
                        if isinstance(e, dict) and "f" in e and e.get("n"):
                            ws.add(e["n"])
                            break
        writes_by[b.name] = ws
    clash = sorted((a1, a2, sorted(writes_by[a1] & writes_by[a2])) for a1 in writes_by for a2 in writes_by if a1 < a2 and writes_by[a1] & writes_by[a2])
    ctx.check(not clash, "R20.7", "conjure-codegen/src/lib.rs", "config|setters-independent", f"Config setters write overlapping fields {clash}: the generated output then depends on the order in which equivalent options are applied (library caller vs CLI)",
              instance=f"{len(writes_by)} Config setters write pairwise disjoint fields")
    ctx.floor("R20.7", "Config option setters", len(writes_by), 3)
    # (the sortedness of generated safe_args is a C17 clause: IR order would be just as deterministic)
