"""C03 — code generation succeeds and its output compiles for every valid definition (partial)."""
import json, os
from ..facts import ty_adt, tystr, place_local, place_proj, op_place
from ..cfg import CFG, Tracer
from .. import dt, core, instance
from . import c06

EXPLANATION = (
    "PARTIAL. NOT decided (not applicable to static analysis): type-correctness of the emitted tree for all IR documents — the "
    "super:: chains of relative type paths, builder-attribute synthesis per field shape, prelude-name disambiguation and boxing "
    "of recursive references are generator arithmetic whose result is only checked by compiling, and only the repository's own "
    "instance is compiled. Decided: (R3.1) the identifier-escape table — the set of string constants compared in the function "
    "every generated field / argument / endpoint / module identifier flows from — contains every lower-case word the running "
    "compiler's own predicate Symbol::is_reserved reports for editions 2015-2021 (2024 additions reported as well), and the "
    "camel-case sibling escapes `Self`; (R3.2) the panic inventory of the generator: every Assert, unwrap/expect, Index and panic "
    "call in conjure_codegen outside the IR types is in the reasoned inventory (spec/codegen_panics.json); a new site or a higher "
    "count is reported; (R3.3) the analysis build itself type-checks both generated configurations of the repository's instance "
    "(all 44 IR types, 2 services, 1 error x 2 configs are present in the compiled facts); (R3.4) every prelude-name helper (Box, Option, "
    "Vec, String, Into, ...) is keyed on the type whose module the code is emitted into — the same value the relative type paths "
    "are computed from; (R3.5) the type renderer's ordered-key flag (f64 -> DoubleKey inside set items / map keys) is passed on at "
    "every nested-type descent (known finding: the map-value descent resets it); (R3.6) layering: outside conjure_codegen::context no "
    "generator module branches on the syntactic kind of an IR Type taken straight from the IR (alias / external resolution lives in "
    "Context's predicates, so client, server and type renderers agree for alias-of-X definitions); (R3.7) in the endpoint macro the "
    "safe-params variable is declared under the same per-argument predicate (ArgType::safe) under which its uses are emitted; (R3.8) "
    "the shared-prefix length in Context's relative-path arithmetic is counted through prefix-closed adaptors only (take_while / "
    "map_while), never filter-like ones. The rest of that arithmetic stays undecided.")

EXCLUDED = {"$crate": "not a Conjure-reachable spelling", "{{root}}": "not a spelling", "_": "not a name the snake-case conversion can produce alone... (it can: see below)",
            "Self": "handled by the camel-case escaper"}


def const_expr(b, op, depth=0):
    """operand is a literal or arithmetic over literals (folded by the compiler)"""
    if dt.resolve_const(b, op) is not None:
        return True
    r = dt.resolve_copy(b, op)
    if depth < 8 and r[0] == "def" and r[1][1] != "T":
        rv = r[1][2]["r"]
        if "bin" in rv:
            return const_expr(b, rv["a"], depth + 1) and const_expr(b, rv["b"], depth + 1)
    if depth < 8 and r[0] == "place" and not isinstance(r[1], int):
        # field 0 of a checked-arithmetic tuple
        d = dt.single_def(b, r[1]["l"])
        if d and d[1] != "T" and "bin" in d[2]["r"]:
            return const_expr(b, d[2]["r"]["a"], depth + 1) and const_expr(b, d[2]["r"]["b"], depth + 1)
    return False


def run(ctx):
    ctx.explanation = EXPLANATION
    ctx.assumptions = ["heck::to_snake_case / to_upper_camel_case produce identifier characters for Conjure names ([a-zA-Z][a-zA-Z0-9]*)"]
    F = ctx.F
    c = F.crate("conjure_codegen")
    ctx.units["conjure_codegen bodies"] = len(c.bodies)
    reserved = c.doc.get("reserved_words") or {}
    # ---------------- R3.1
    def all_consts(dct):
        """string constants and referenced const items anywhere in a body dict (statements, call arguments, promoted bodies)"""
        strs, items = set(), set()

        def walk(o):
            if isinstance(o, dict):
                cst = o.get("c")
                if isinstance(cst, dict):
                    if isinstance(cst.get("str"), str):
                        strs.add(cst["str"])
                    for k_ in ("item", "static"):
                        if isinstance(cst.get(k_), str):
                            items.add(cst[k_])
                for v in o.values():
                    walk(v)
            elif isinstance(o, list):
                for v in o:
                    walk(v)
        walk(dct.get("blocks"))
        walk(dct.get("promoted"))
        return strs, items
    const_bodies = {x.path: x for x in c.bodies if x.kind in ("const", "static")}

    def compared_strings(b, depth=0, seen=None):
        """strings the function's input can be compared with: string-equality constants of the function, its closures and
        private helpers, plus the string tables (const arrays / slices of &str) they reference"""
        seen = seen if seen is not None else set()
        if b.id in seen or depth > 3:
            return set()
        seen.add(b.id)
        out = set()
        for x in [b] + c.closures_of(b):
            for bb, t in x.calls():
                if t["call"]["def"].startswith("core::cmp::PartialEq"):
                    se = dt.str_eq_const(x, t)
                    if se:
                        out.add(se[1])
                cb = c.body(t["call"].get("id")) if t["call"].get("local") else None
                if cb is not None and cb.kind in ("fn", "assoc_fn") and cb.d.get("vis") != "pub":
                    out |= compared_strings(cb, depth + 1, seen)
            _, items = all_consts(x.d)
            for it in items:
                cb = const_bodies.get(it)
                if cb is not None and "str" in tystr(cb.local_ty(0)) and ("slice" in str(cb.local_ty(0)) or "array" in str(cb.local_ty(0))):
                    out |= all_consts(cb.d)[0]
        return out
    cands = []
    for b in c.bodies:
        if not b.id.startswith("conjure_codegen::context::") or b.kind != "assoc_fn":
            continue
        consts = compared_strings(b)
        if len(consts) >= 20:
            cands.append((b, consts))
    # keep the innermost: a function that only reaches the table through another candidate is a user, not the escaper
    if len(cands) > 1:
        ids = {b.id for b, _ in cands}
        inner = [(b, k) for b, k in cands if not any(t["call"].get("id") in ids and t["call"].get("id") != b.id for x in [b] + c.closures_of(b) for _, t in x.calls())]
        cands = inner or cands
    if len(cands) != 1:
        ctx.violation("R3.1", "conjure_codegen", "anchor|escape-table", f"expected one identifier-escaping function (a string match over >= 20 keywords), found {len(cands)}")
    else:
        b, table = cands[0]
        # role: identifiers for fields / modules are built from its result
        users = [x.name for x in c.bodies if any(t["call"].get("id") == b.id for _, t in x.calls())]
        ctx.check(len(users) >= 2, "R3.1", b.loc(), "escape|used", f"the escape function is used by {users}", nontrivial=False)
        need = set()
        for ed in ("2015", "2018", "2021"):
            need |= {w for w in reserved.get(ed, []) if w.islower() and w.isidentifier()}
        extra24 = {w for w in reserved.get("2024", []) if w.islower() and w.isidentifier()} - need
        ctx.floor("R3.1", "reserved words reported by the compiler (editions 2015-2021)", len(need), 45)
        for w in sorted(need):
            ctx.check(w in table, "R3.1", b.loc(), f"escape|{w}", f"the reserved word `{w}` is not escaped: a Conjure field, argument, endpoint or package named `{w}` makes generation fail or the output not compile", instance=f"`{w}` escaped")
        for w in sorted(extra24):
            ctx.check(w in table, "R3.1", b.loc(), f"escape|2024|{w}", f"`{w}` is reserved in edition 2024 and not escaped", instance=f"`{w}` (2024) escaped", nontrivial=False)
        ctx.ok("R3.1", b.loc(), f"escape table has {len(table)} words, compiler reports {len(need)} (+{len(extra24)} in 2024)")
        # ... and the lookup itself: the escape function evaluated on every reserved word (and on a few ordinary names) — a table that
        # lists a word but is searched in a way that misses it (a binary search over an unsorted table) escapes nothing
        from .. import minterp as _mi
        sidx = [k for k in range(1, b.argc + 1) if tystr(b.local_ty(k)) in ("&str", "&alloc::string::String")]
        if len(sidx) == 1 and tystr(b.local_ty(0)) == "alloc::string::String":
            wrong, unsup = [], None
            for w in sorted(need) + ["name", "types", "final_value", "fn_", "a"]:
                cell = {"s": None}

                def oracle(f, argv, cell=cell):
                    nm, dd = f.get("name"), f.get("def", "")
                    if nm in ("to_snake_case", "to_string", "to_owned", "into", "from") and argv and isinstance(argv[0], str) and cell["s"] is None:
                        cell["s"] = argv[0]
                        return ("strcell",)
                    if argv and argv[0] == ("strcell",):
                        if nm in ("deref", "as_str", "as_ref", "borrow", "deref_mut", "clone"):
                            return cell["s"]
                        if nm == "push" and len(argv) == 2 and isinstance(argv[1], int):
                            cell["s"] += chr(argv[1])
                            return ("tuple", [])
                        if nm == "push_str" and len(argv) == 2 and isinstance(argv[1], str):
                            cell["s"] += argv[1]
                            return ("tuple", [])
                        if nm in ("len", "is_empty"):
                            return len(cell["s"]) if nm == "len" else not cell["s"]
                    return _mi.NO_VALUE
                I_ = _mi.Interp(F, c, inline=lambda d_, rid: rid.startswith("conjure_codegen::context::"), max_depth=3)
                I_.call_oracle = oracle
                args_ = [("sym", f"a{k}") for k in range(1, b.argc + 1)]
                args_[sidx[0] - 1] = w
                try:
                    r_ = I_.run(b, args_)
                except _mi.Unsupported as e_:
                    unsup = str(e_)
                    break
                out_ = cell["s"] if r_ == ("strcell",) else r_
                want_ = w + "_" if w in need else w
                if out_ != want_:
                    wrong.append(f"{w!r} -> {out_!r:.30}")
            if unsup is not None:
                ctx.note(f"R3.1 {b.name}: the escape function is not evaluable on concrete names ({unsup}); decided on the table's contents only")
            else:
                ctx.check(not wrong, "R3.1", b.loc(), "escape|evaluated", f"{b.name}: reserved words must come back with an underscore appended and other names unchanged: " + "; ".join(wrong[:6]),
                          instance=f"{b.name}: evaluated on {len(need)} reserved words and 5 ordinary names")
        # escaping appends a suffix on the positive branch: the keyword flag leads to a push / format
        # camel-case sibling
    camel = []
    for x in c.bodies:
        if x.id.startswith("conjure_codegen::context::") and x.kind == "assoc_fn":
            cs = set()
            for bb, t in x.calls():
                if t["call"]["def"].startswith("core::cmp::PartialEq"):
                    se = dt.str_eq_const(x, t)
                    if se:
                        cs.add(se[1])
            if cs == {"Self"}:
                camel.append(x)
    ctx.check(len(camel) == 1, "R3.1", "conjure_codegen", "escape|Self", f"the type-name escaper must escape exactly `Self` (found {len(camel)} such functions)", instance="type names: `Self` escaped")
    # ---------------- R3.2 explicit panic inventory of the generator
    # unwrap / expect / panic!/unreachable! calls in conjure_codegen outside the generated IR types.  The inventory
    # (spec/codegen_panics.json) gives each site's reason; what is enforced is the TOTAL per kind, so moving a site into a
    # helper does not alarm while an additional way for generation to panic does.  Index expressions and overflow
    # assertions are listed in the evidence but not enforced: static analysis cannot tell an infallible `map[key]` or a
    # debug-only `+` from a reachable one, and a rule that fires on every such edit would be a false alarm in waiting.
    spec = json.load(open(os.path.join(core.VERIF, "spec", "codegen_panics.json")))
    from collections import Counter
    EXPLICIT = lambda k: k.startswith(("Result::", "Option::", "core::panicking", "std::rt::begin_panic")) or k in ("panic_fmt", "unreachable_display", "panic_display")
    allowed_tot = Counter()
    for s_ in spec["sites"]:
        if EXPLICIT(s_["kind"]):
            allowed_tot[s_["kind"]] += s_["count"]
    cnt, where_, soft = Counter(), {}, Counter()
    for b in c.bodies:
        if "::types::" in b.id or b.id.startswith("conjure_codegen::example_types"):
            continue
        for ln, what, x in c06.panic_sites(b):
            if EXPLICIT(what):
                cnt[what] += 1
                where_.setdefault(what, []).append(f"{b.path.split('::{closure')[0].split('::', 1)[-1]}:{ln}")
            else:
                soft[what] += 1
    for k in sorted(set(cnt) | set(allowed_tot)):
        ctx.check(cnt[k] <= allowed_tot[k], "R3.2", "conjure_codegen", f"explicit-panics|{k}",
                  f"conjure_codegen holds {cnt[k]} `{k}` sites, the reasoned inventory accounts for {allowed_tot[k]}: a new way for generation to panic instead of reporting success or an error (sites: {where_.get(k, [])})",
                  instance=f"{cnt[k]} x {k} (inventory: {allowed_tot[k]})", nontrivial=False)
    ctx.note("R3.2 not enforced (listed only): " + ", ".join(f"{v} x {k}" for k, v in sorted(soft.items())))
    ctx.floor("R3.2", "explicit panic sites inventoried", sum(cnt.values()), 4)
    # input-dependent arithmetic on sizes must be checked
    hs = [b for b in c.bodies if b.id.startswith("conjure_codegen::human_size::") and b.kind == "fn"]
    for b in hs:
        muls = [s for _, _, s in b.stmts() if "bin" in s["r"] and s["r"]["bin"].startswith("Mul") and not (const_expr(b, s["r"]["a"]) and const_expr(b, s["r"]["b"]))]
        ctx.check(not muls, "R3.2", b.loc(), f"{b.path}|unchecked-mul", f"{b.path}: multiplies an input-dependent size without overflow check (generation would panic / wrap on a huge size tag)", instance=f"{b.name}: input-dependent product is checked")
    # ---------------- R3.4 prelude names are disambiguated for the module the code is emitted into
    pre = [b for b in c.bodies if b.name == "prelude_ident" and b.id.startswith("conjure_codegen::context::")]
    if len(pre) != 1:
        ctx.violation("R3.4", "conjure_codegen", "anchor|prelude_ident", f"expected one prelude-name disambiguation function, found {len(pre)}")
    else:
        helpers = {b.id: b.name for b in c.bodies for _, t in b.calls() if t["call"].get("id") == pre[0].id}
        ctx.floor("R3.4", "prelude-name helpers (Box, Option, Vec, ...)", len(helpers), 12)
        nfun = 0
        for b in c.bodies:
            if not b.id.startswith("conjure_codegen::context::"):
                continue
            hs = [t for _, t in b.calls() if t["call"].get("id") in helpers]
            tps = [t for _, t in b.calls() if t["call"]["name"] == "type_path" and t["call"].get("local")]
            if not hs or b.id in helpers:
                continue
            nfun += 1
            tr = Tracer(b, through_calls=True)
            emit = {frozenset(tr.root_locals(t["args"][1])) for t in tps}
            for t in hs:
                r = frozenset(tr.root_locals(t["args"][1]))
                ok = len(r) == 1 and (not emit or emit == {r})
                others = {frozenset(tr.root_locals(x["args"][1])) for x in hs}
                ok = ok and len(others) == 1
                ctx.check(ok, "R3.4", b.loc(t["ln"]), f"{b.name}|{t['call']['name']}|emitting-type",
                          f"{b.name}: `{t['call']['name']}` decides between the short and the fully qualified name by the type given to it ({[b.local_name(k) for k in sorted(r)]}), but the code is emitted into the module of "
                          f"{[b.local_name(k) for e in emit for k in sorted(e)] or 'the other helpers argument'} (the type the paths are made relative to): a definition named like the prelude item gets a self-referential, non-compiling type",
                          instance=f"{b.name}: {t['call']['name']}({'/'.join(b.local_name(k) or '?' for k in sorted(r))}) keyed on the emitting type")
        ctx.floor("R3.4", "context functions using prelude-name helpers", nfun, 7)
    # ---------------- R3.5 ordered-key context is propagated through every nested type
    def flag_like(t_):
        """bool, or a local fieldless enum with two variants (`Position { Key, Value }`): the ordered-key context"""
        if tystr(t_) == "bool":
            return True
        a_ = F.adt(ty_adt(t_) or "")
        return bool(a_ and a_.get("local") and a_["kind"] == "enum" and len(a_["variants"]) == 2 and all(not v["fields"] for v in a_["variants"]))

    def flag_value(x, op):
        """constant flag value of an operand: True/False for bool, the variant index for the enum form; None if not constant"""
        cst = dt.resolve_const(x, op)
        if cst is not None and "bool" in cst:
            return bool(cst["bool"])
        if cst is not None and isinstance(cst.get("int"), int) and ty_adt(cst.get("ty") or {}):
            return cst["int"]
        r_ = dt.resolve_copy(x, op)
        if r_[0] == "def" and r_[1][1] != "T" and r_[1][2]["r"].get("agg") == "adt" and not r_[1][2]["r"]["ops"]:
            return r_[1][2]["r"]["vi"]
        return None
    kf = [b for b in c.bodies if b.id.startswith("conjure_codegen::context::") and b.kind == "assoc_fn" and any(t["call"].get("id") == b.id for _, t in b.calls())
          and any(flag_like(b.local_ty(k)) for k in range(1, b.argc + 1)) and any(dt.resolve_const(b, a) is not None and "DoubleKey" in str(dt.resolve_const(b, a)) for _, t in b.calls() for a in t["args"])]
    if len(kf) != 1:
        kf = [b for b in c.bodies if b.id.startswith("conjure_codegen::context::") and b.name == "rust_type_inner" and any(flag_like(b.local_ty(k)) for k in range(1, b.argc + 1))]
    if len(kf) != 1:
        ctx.violation("R3.5", "conjure_codegen", "anchor|key-context", f"expected one type-rendering function with an ordered-key flag, found {len(kf)}")
    else:
        b = kf[0]
        kp = [k for k in range(1, b.argc + 1) if flag_like(b.local_ty(k))][0]
        # which flag value means "ordered key position": the one under which the DoubleKey spelling is emitted
        cfg = CFG(b)
        keyval = None
        for bb, t in b.calls():
            if any(dt.resolve_const(b, a) is not None and "DoubleKey" in str(dt.resolve_const(b, a)) for a in t["args"]):
                for sbb, allowed, allv in dt.edge_conditions(cfg, bb):
                    atom = dt.switch_atom(b, sbb)
                    if atom[0] in ("place", "discr") and place_local(atom[1]) == kp and len(allowed) == 1:
                        v_ = next(iter(allowed))
                        if v_ is None:
                            others = [q for q in (0, 1) if q not in {w for w in allv if w is not None}]
                            v_ = others[0] if len(others) == 1 else None
                        if v_ is not None:
                            keyval = bool(v_) if tystr(b.local_ty(kp)) == "bool" else v_
        if keyval is None:
            keyval = True if tystr(b.local_ty(kp)) == "bool" else None
        ctx.check(keyval is not None, "R3.5", b.loc(), "anchor|key-value", f"{b.name}: cannot tell which value of the position flag selects the DoubleKey spelling", nontrivial=False)
        wrappers = {}
        for x in c.bodies:
            if x.id == b.id:
                continue
            for _, t in x.calls():
                if t["call"].get("id") == b.id and len(x.blocks) <= 4:
                    fv = flag_value(x, t["args"][kp - 1])
                    if fv is not None:
                        wrappers[x.id] = (x.name, fv == keyval)
        cfg = CFG(b)
        tnames = None
        n = 0
        for bb, t in b.calls():
            cid = t["call"].get("id")
            if cid == b.id:
                fv = flag_value(b, t["args"][kp - 1])
                passes = (fv is not None and fv == keyval) or (fv is None and Tracer(b).root_locals(t["args"][kp - 1]) == {kp})
                how = "the key position" if fv is not None and fv == keyval else ("the value position" if fv is not None else "the incoming flag")
            elif cid in wrappers:
                passes = wrappers[cid][1] is True
                how = f"{wrappers[cid][0]} (flag = {str(wrappers[cid][1]).lower()})"
            else:
                continue
            n += 1
            arm = "?"
            for sbb, allowed, allv in dt.edge_conditions(cfg, bb):
                atom = dt.switch_atom(b, sbb)
                if atom[0] == "discr":
                    a_ = F.adt(ty_adt(dt.place_ty(b, F, atom[1]) or {}) or "")
                    if a_ and a_["kind"] == "enum" and len(a_["variants"]) > 3:
                        vs = dt.allowed_variants(allowed, allv, [v["name"] for v in a_["variants"]])
                        if len(vs) == 1:
                            arm = next(iter(vs))
            ctx.check(passes, "R3.5", b.loc(t["ln"]), f"{b.name}|{arm}|key-flag-reset",
                      f"{b.name}: the nested type of the `{arm}` arm is rendered through {how}: inside a set item or map key an f64 below it is emitted as plain f64, which is not Ord, so the generated BTreeSet/BTreeMap does not compile "
                      "(e.g. set<map<string, double>>)", instance=f"{b.name}: `{arm}` descends with {how}")
        ctx.floor("R3.5", "nested-type descents of the type renderer", n, 6)
    # ---------------- R3.10 the generated crate's manifest declares every runtime crate the emitted code names
    # decision table of write_cargo_toml over (types?, errors?, services?) against the crate roots that the templates of the
    # corresponding generator modules mention (`conjure_object::..`, `conjure_error::..`, `conjure_http::..`)
    tm_ = F.tmpl()
    wct = [b for b in c.bodies if b.name == "write_cargo_toml" and b.kind == "assoc_fn"]
    if tm_ is not None and len(wct) == 1:
        import re as _re2
        from .. import minterp as _mi
        KINDS = {"types": ("aliases.rs", "enums.rs", "objects.rs", "unions.rs"), "errors": ("errors.rs",), "services": ("clients.rs", "servers.rs")}
        need = {k: set() for k in KINDS}
        for fn in tm_["functions"]:
            for k, files in KINDS.items():
                if any(fn["file"].endswith("conjure-codegen/src/" + f_) for f_ in files):
                    for q in fn["quotes"]:
                        for m_ in _re2.findall(r"\b(conjure_object|conjure_error|conjure_http) ::", q["text"]):
                            need[k].add(m_.replace("_", "-"))
        bad, rows = [], 0
        for combo in range(1, 8):
            present = {"types": bool(combo & 1), "errors": bool(combo & 2), "services": bool(combo & 4)}
            inserted = set()

            def oracle(f, argv, present=present, inserted=inserted):
                nm = f.get("name")
                if nm == "is_empty" and argv:
                    txt = _mi.show(I_, argv[0])
                    for k in present:
                        if k + "(" in txt:
                            return not present[k]
                if nm == "insert" and len(argv) >= 2 and isinstance(argv[1], str):
                    inserted.add(argv[1])
                return _mi.NO_VALUE
            I_ = _mi.Interp(F, c, inline=lambda d_, rid: False)
            I_.call_oracle = oracle
            I_.oracle = {"core::result::Result": 0, "core::ops::control_flow::ControlFlow": 0}
            try:
                I_.run(wct[0], [("sym", f"a{k}") for k in range(wct[0].argc)])
            except _mi.Unsupported as e_:
                bad = None
                ctx.note(f"R3.10 write_cargo_toml left the interpretable fragment ({e_}); not decided")
                break
            rows += 1
            seen_insert_any = locals().get("seen_insert_any", False) or bool(inserted)
            req = set().union(*[need[k] for k in present if present[k]])
            if not req <= inserted:
                bad.append(f"definition with {[k for k in present if present[k]]}: the emitted code names {sorted(req)}, the manifest declares {sorted(inserted)}")
        if bad is not None and not locals().get("seen_insert_any", False):
            ctx.note("R3.10 write_cargo_toml does not build its dependency table through map insertions (collected from an iterator?); the table is not decided by this rule")
        elif bad is not None:
            ctx.check(not bad, "R3.10", wct[0].loc(), "write_cargo_toml|dependencies", "write_cargo_toml: " + "; ".join(bad[:3]) + " — the generated crate does not compile without the missing dependency",
                      instance=f"write_cargo_toml: {rows} rows (types x errors x services), dependencies cover the crates named by the templates {dict((k, sorted(v)) for k, v in need.items())}")
    # ---------------- R3.9 names taken from a definition are never *parsed* as Rust identifiers: syn's Ident parser refuses
    # keywords (`type`, `ref`, `match`, ...), which are legal Conjure names; identifiers are built with Ident::new / format_ident!
    # after escaping (Context::field_name etc.), and path-template parameters are compared as strings
    nparse = 0
    for cn_ in ("conjure_macros", "conjure_codegen"):
        for b in F.crate(cn_).bodies:
            for bb, t in b.calls():
                f_ = t["call"]
                if f_.get("def", "").startswith("syn::") and f_.get("name") == "parse_str" and any((ty_adt(x) or "").endswith("::Ident") for x in f_.get("substs") or []):
                    nparse += 1
                    ctx.violation("R3.9", b.loc(t["ln"]), f"{b.path.split('::{closure')[0]}|parses-ident", f"{b.path}: a string is parsed as a Rust identifier (syn::{f_['name']}::<Ident>): definition names that are Rust keywords (type, ref, match, in, ...) or carry a regex suffix are rejected, so code generation fails for a valid definition")
    ctx.ok("R3.9", "conjure_macros, conjure_codegen", f"{nparse} places parse a definition name as a Rust identifier", nontrivial=False)
    # ---------------- R3.6 layering: only Context resolves aliases / external fallbacks
    # the generator modules decide by Context's predicates (is_optional, is_iterable, is_binary, ...), which look through
    # aliases and external fallbacks; a module that branches on the syntactic kind of an IR `Type` itself disagrees with its
    # siblings for alias-of-X definitions (client vs server decoders, return type vs serializer: non-compiling or mismatched code)
    TYPE = "conjure_codegen::types::type_::Type"
    nsw = 0
    for b in c.bodies:
        mod = b.id.split("::")[1] if "::" in b.id else ""
        if mod in ("context", "types") or b.id.startswith("conjure_codegen::example_types"):
            continue
        for bb, j, s_ in b.stmts():
            if "discr" not in s_["r"]:
                continue
            if ty_adt(dt.place_ty(b, F, s_["r"]["discr"]) or {}) != TYPE:
                continue
            nsw += 1
            roots, calls = dt.transforming_calls(b, {"cp": s_["r"]["discr"]})
            via_ctx = any(t["call"]["def"].startswith("conjure_codegen::context::Context::") for t in calls)
            ctx.check(via_ctx and not roots, "R3.6", b.loc(s_["ln"]), f"{b.path.split('::{closure')[0]}|syntactic-type-switch",
                      f"{b.path}: branches on the syntactic kind of an IR Type that does not come from a Context query (e.g. dealiased_type): aliases and external types of that kind take the other branch, so this site and its siblings (client/server, return type/serializer) disagree for alias-of-optional / alias-of-collection definitions",
                      instance=f"{b.path}: Type kind taken from a Context query")
    ctx.ok("R3.6", "conjure_codegen", f"{nsw} branches on the kind of an IR Type outside conjure_codegen::context, none on a raw IR value", nontrivial=False)
    # ---------------- R3.7 endpoint macro: a binding and its uses are emitted under the same predicate
    # (`let __safe_params = ..` under has_safe_params(endpoint), `__safe_params.insert(..)` under arg.safe(): if the two
    # predicates can disagree the expansion refers to an undeclared variable and the generated server traits do not compile)
    tm = F.tmpl()
    cmac = F.crate("conjure_macros")
    if tm is not None:
        import re as _re

        def reach(names, depth=0, seen=None):
            seen = seen if seen is not None else set()
            out = set()
            for nme in names:
                for mb in [x for x in cmac.bodies if x.name == nme and x.kind in ("fn", "assoc_fn")]:
                    if mb.id in seen:
                        continue
                    seen.add(mb.id)
                    out.add(mb.path)
                    callees = {t["call"]["name"] for x in [mb] + cmac.closures_of(mb) for _, t in x.calls() if t["call"].get("local")}
                    if depth < 3:
                        out |= reach(callees, depth + 1, seen)
            return out
        bind, uses = [], []
        for fn in tm["functions"]:
            if not fn["file"].endswith("conjure-macros/src/endpoints.rs"):
                continue
            for q in fn["quotes"]:
                txt = q["text"].replace(" ", "")
                preds = reach(set(_re.findall(r"(\w+)\s*\(", " ".join(q["conds"]))))
                if not q["conds"]:
                    # no syntactic condition (early return / helper): the predicates the emitting function itself consults
                    preds = reach({fn["name"]}) - {x for x in reach({fn["name"]}) if x.endswith("::" + fn["name"])}
                if _re.search(r"let(mut)?#safe_params=", txt) or "SafeParams::new" in txt:
                    bind.append((fn, q, preds))
                elif "#safe_params." in txt:
                    uses.append((fn, q, preds))
        ctx.check(len(bind) >= 1 and len(uses) >= 1, "R3.7", "conjure-macros/src/endpoints.rs", "safe-params|templates", f"expected the SafeParams binding template and its use template, found {len(bind)} / {len(uses)}", nontrivial=False)
        for fn, q, preds in uses:
            for bfn, bq, bpreds in bind:
                # the per-argument safety predicate of the macro's argument model, under whatever name (`safe() -> bool`,
                # `safe_log_key() -> Option<..>`): a method of ArgType whose name mentions `safe`
                safe_paths = {x.path for x in cmac.bodies if x.impl and x.kind == "assoc_fn" and (ty_adt(x.self_ty) or "").endswith("ArgType") and "safe" in x.name}
                common = {x for x in preds & bpreds if x in safe_paths or x.endswith("::safe")}
                ctx.check(bool(common), "R3.7", f"{bfn['file'].split('/repo/')[-1]}:{bq['line']}", f"{bfn['name']}|{fn['name']}|binding-and-use-same-predicate",
                          f"macro: `{fn['name']}` emits a use of the safe-params variable under {q['conds']} (reaching {sorted(x.split('::')[-1] for x in preds)}), but `{bfn['name']}` declares the variable under {bq['conds']} (reaching {sorted(x.split('::')[-1] for x in bpreds)}): they must be decided by the same per-argument predicate, otherwise an endpoint for which only the use is emitted expands to code that does not compile",
                          instance=f"binding in {bfn['name']} and use in {fn['name']} both decided by ArgType::safe")
    # ---------------- R3.8 a common-prefix length is not the number of matching positions
    # relative `super::` paths skip the *common prefix* of two module paths; a count taken through a non-prefix adaptor
    # (filter, skip_while, rev, step_by ...) and then used as a slice start / hop count miscounts as soon as the paths
    # coincide again after their first difference (sibling packages with a common leaf)
    NONPREFIX = {"filter", "filter_map", "skip_while", "skip", "step_by", "rev", "flat_map", "chain"}
    ncnt = 0
    for b in c.bodies:
        if not b.id.startswith("conjure_codegen::context::"):
            continue
        for bb, t in b.calls():
            if t["call"]["def"] != "core::iter::traits::iterator::Iterator::count":
                continue
            # only counts whose receiver pairs up two sequences
            chain, cur, seen_ = [], t["args"][0], 0
            while seen_ < 12:
                seen_ += 1
                r = dt.resolve_copy(b, cur)
                if r[0] == "def" and r[1][1] == "T" and r[1][2]["call"]["def"].startswith("core::iter::traits::iterator::Iterator::"):
                    chain.append(r[1][2]["call"]["name"])
                    cur = r[1][2]["args"][0]
                else:
                    break
            if "zip" not in chain:
                continue
            ncnt += 1
            bad = [x for x in chain if x in NONPREFIX]
            ctx.check(not bad, "R3.8", b.loc(t["ln"]), f"{b.name}|common-prefix-count",
                      f"{b.name}: the number of leading components two module paths share is computed as zip(..).{'.'.join(reversed(chain[:-1] if chain and chain[-1] == 'zip' else chain))}.count(): `{bad[0] if bad else ''}` also counts positions that match again after the first difference, so relative paths between sibling packages with a common leaf (a.x.api -> a.y.api) get too few `super::` hops and the output does not compile",
                      instance=f"{b.name}: zip.{'.'.join(x for x in reversed(chain) if x != 'zip')}.count() is prefix-closed")
    ctx.ok("R3.8", "conjure_codegen::context", f"{ncnt} pairwise counts in Context's path arithmetic examined (a rewrite without zip(..).count() is not judged by this rule)", nontrivial=False)
    # ---------------- R3.3 instance compiled
    ct = F.crate("conjure_test")
    ir = instance.IR()
    for config, prefix in (("default", "conjure_test::types::"), ("exhaustive", "conjure_test::exhaustive_types::")):
        adts = [p for p, a in ct.adts.items() if a.get("local") and p.startswith(prefix)]
        names = {p.split("::")[-1] for p in adts}
        missing = [k[1] for k in ir.types if k[1] not in names]
        ctx.check(not missing, "R3.3", "conjure_test", f"instance|{config}|types", f"{config} configuration: IR types without a compiled Rust type: {missing}", instance=f"{config}: {len(ir.types)} IR types compiled")
    cms = instance.client_methods(ct)
    hs_ = instance.handlers(ct)
    ctx.check(len(cms) == 4 * len(ir.endpoints) and len(hs_) == 4 * len(ir.endpoints), "R3.3", "conjure_test", "instance|services", f"compiled client methods {len(cms)} / handlers {len(hs_)} for {len(ir.endpoints)} endpoints x 2 flavours x 2 configs",
              instance=f"{len(cms)} client methods and {len(hs_)} handlers compiled")
    # ---------------- R3.11 generation terminates: the named-type log-safety iteration settles (decided by the C08 module, which
    # knows the memo cell and the per-type rule)
    from . import c08 as _c08
    ctx.include(_c08, {"R8.7"}, "R3.11", "code generation must terminate for every valid definition")
    # ---------------- R3.12 the double predicates agree: `has_double` selects the Educe derive for a type, `is_double` puts the
    # DoubleOps method attributes on its fields.  A position that the first sees and the second does not leaves a bare f64
    # under derive(Eq, Ord, Hash) — output that does not compile.  The tables are decided by the C02 module (R2.1).
    from . import c02 as _c02
    ctx.include(_c02, {"R2.1"}, "R3.12", "a double position that is_double / has_double disagree on leaves a bare f64 under derive(Eq, Ord, Hash): the output does not compile",
                select=lambda k: "is_double" in k or "has_double" in k)
