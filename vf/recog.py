"""Recognisers: analysis of small `fn(&str) -> bool` validators of the form
      [trim]  non-empty?  &&  every unit (byte | char) of the text is in a class
in whatever control-flow style they are written (early returns, boolean expression, `len() == 0`, ...).

  bool_rows(body)          path enumeration of a loop-free bool function over opaque atoms (call results)
  unit_class(F, crate, pred_body)   the set of unit values for which the per-unit predicate returns true
"""
from .facts import op_place, place_local, place_proj
from . import dt, minterp


class NotAnalysable(Exception):
    pass


def bool_rows(body, max_paths=128, loop_cut=None):
    """Rows (constraints, result): constraints = {atom: bool}; result = ("const", bool) | ("atom", atom, negated).
    atom = ("call", bb) for the result of the call terminating block bb, or ("cmp", bb, op, k) for `len-like call result op const`."""
    rows = []

    def val_of(env, op):
        c = op.get("c")
        if c is not None:
            if "bool" in c:
                return ("const", bool(c["bool"]))
            if "int" in c:
                return ("int", c["int"])
            return ("unk",)
        p = op_place(op)
        if p is None or [e for e in place_proj(p) if e != "*"]:
            return ("unk",)
        return env.get(place_local(p), ("unk",))

    def walk(bb, env, cons, depth):
        if len(rows) > max_paths or depth > 200:
            raise NotAnalysable("too many paths")
        env = dict(env)
        blk = body.blocks[bb]
        for s in blk["s"]:
            if "d" not in s:
                continue
            d = s["d"]
            if not isinstance(d, int) and [e for e in d["p"] if e != "*"]:
                continue
            l = place_local(d)
            r = s["r"]
            if "use" in r:
                env[l] = val_of(env, r["use"])
            elif "ref" in r:
                p = r["ref"]
                env[l] = env.get(place_local(p), ("unk",)) if not [e for e in place_proj(p) if e != "*"] else ("unk",)
            elif "un" in r and r["un"] == "Not":
                v = val_of(env, r["a"])
                if v[0] == "const":
                    env[l] = ("const", not v[1])
                elif v[0] == "atom":
                    env[l] = ("atom", v[1], not v[2])
                else:
                    env[l] = ("unk",)
            elif "bin" in r and r["bin"] in ("Eq", "Ne", "Lt", "Le", "Gt", "Ge"):
                a, b = val_of(env, r["a"]), val_of(env, r["b"])
                op = r["bin"]
                if a[0] == "int" and b[0] == "callval":
                    a, b = b, a
                    op = {"Lt": "Gt", "Le": "Ge", "Gt": "Lt", "Ge": "Le"}.get(op, op)
                if a[0] == "callval" and b[0] == "int":
                    env[l] = ("atom", ("cmp", a[1], op, b[1]), False)
                elif a[0] == "atom" and b[0] == "const" and op in ("Eq", "Ne"):
                    env[l] = ("atom", a[1], a[2] ^ (b[1] is False) ^ (op == "Ne"))
                else:
                    env[l] = ("unk",)
            elif "cast" in r:
                env[l] = val_of(env, r["cast"])
            else:
                env[l] = ("unk",)
        t = blk["t"]
        if "return" in t:
            rows.append((dict(cons), env.get(0, ("unk",))))
            return
        if "goto" in t:
            return walk(t["goto"], env, cons, depth + 1)
        if "drop" in t or "assert" in t:
            return walk(t["target"], env, cons, depth + 1)
        if "call" in t and loop_cut and bb in loop_cut:
            # the per-unit loop, summarised: atom true = every unit passed (exit through the None arm); false = rejected
            atom = ("call", bb)
            if cons.get(atom, True):
                c2 = dict(cons)
                c2[atom] = True
                walk(loop_cut[bb], env, c2, depth + 1)
            if not cons.get(atom, False):
                c2 = dict(cons)
                c2[atom] = False
                rows.append((c2, ("const", False)))
            return
        if "call" in t:
            if t.get("target") is None:
                return
            d = t["dest"]
            l = place_local(d)
            out = t["call"].get("sig_out") or {}
            env[l] = ("atom", ("call", bb), False) if is_bool_call(body, t) else ("callval", bb)
            return walk(t["target"], env, cons, depth + 1)
        if "switch" in t:
            v = val_of(env, t["switch"])
            if v[0] == "const":
                tgt = t["otherwise"]
                for val, tg in t["targets"]:
                    if val == int(v[1]):
                        tgt = tg
                return walk(tgt, env, cons, depth + 1)
            if v[0] == "atom":
                atom, neg = v[1], v[2]
                tv = [x for x, _ in t["targets"]]
                branches = [(val != 0, tg) for val, tg in t["targets"]]
                if tv == [0]:
                    branches.append((True, t["otherwise"]))
                elif tv == [1]:
                    branches.append((False, t["otherwise"]))
                elif sorted(tv) != [0, 1]:
                    raise NotAnalysable("switch on a bool with unusual targets")
                for truth, tg in branches:
                    real = truth ^ neg
                    if atom in cons and cons[atom] != real:
                        continue
                    c2 = dict(cons)
                    c2[atom] = real
                    walk(tg, env, c2, depth + 1)
                return
            raise NotAnalysable(f"switch on a value that is not a call result (bb{bb})")
        if "unreachable" in t:
            return
        raise NotAnalysable("terminator " + ",".join(t))

    walk(0, {}, {}, 0)
    return rows


def is_bool_call(body, t):
    l = place_local(t["dest"])
    ty = body.d["locals"][l].get("ty") if isinstance(body.d["locals"][l], dict) else None
    return (ty or {}).get("prim") == "bool"


def eval_row_result(res, assign):
    """value of a row's result under a total assignment {atom: bool}"""
    if res[0] == "const":
        return res[1]
    if res[0] == "atom":
        return assign[res[1]] ^ res[2]
    return None


def truth_table(rows, atoms):
    """{assignment tuple: result or None (unknown) or 'none' (no path)} over the given atoms (others must not occur)"""
    import itertools
    out = {}
    for vals in itertools.product([False, True], repeat=len(atoms)):
        assign = dict(zip(atoms, vals))
        res = set()
        for cons, r in rows:
            if any(a not in assign for a in cons) or (r[0] == "atom" and r[1] not in assign):
                raise NotAnalysable("a condition other than the recognised atoms decides the result")
            if all(assign[a] == v for a, v in cons.items()):
                res.add(eval_row_result(r, assign))
        out[vals] = res
    return out


def unit_class(F, crate, pb, closure_env=True):
    """(unit, accepted-set, domain-note).  The per-unit predicate `pb` (fn or closure; its last parameter is the unit, by value
    or by reference) is evaluated by constant propagation on every value of a finite test domain: all 256 values for bytes;
    for chars 0..0x2FF, every constant of the body +-1, the surrogate/plane boundaries and 0x10FFFF, plus k + 256*j images
    (so a truncating cast is exposed)."""
    nargs = pb.argc
    uty = pb.d["locals"][nargs].get("ty") or {}
    while "ref" in uty:
        uty = uty["ref"]
    unit = uty.get("prim")
    if unit not in ("u8", "char"):
        raise NotAnalysable(f"predicate over {unit}")
    if unit == "u8":
        dom = range(256)
    else:
        dom = char_domain(pb)
    I = minterp.Interp(F, crate)
    acc = set()
    for v in dom:
        args = [("sym", "env")] * (nargs - 1) + [v]
        try:
            r = I.run(pb, args)
        except minterp.Unsupported as e:
            if "panics here" in str(e):
                raise NotAnalysable(f"predicate panics for unit value {v:#x}: {e}")
            raise NotAnalysable(str(e))
        if r is True:
            acc.add(v)
        elif r is not False:
            raise NotAnalysable(f"non-boolean result {r!r}")
    return unit, acc, len(dom)


def find_all_call(body, crate):
    """the Iterator::all call of a validator and its predicate body; the iterator's unit source (bytes | chars)"""
    from .cfg import Tracer
    tr = Tracer(body)
    alls = [(bb, t) for bb, t in body.calls() if t["call"]["name"] == "all" and "iter" in t["call"]["def"]]
    if len(alls) != 1:
        raise NotAnalysable(f"{len(alls)} Iterator::all calls")
    bb, t = alls[0]
    pred_id = None
    for a in t["args"]:
        f = (a.get("c") or {}).get("fn")
        if f and f.get("local"):
            pred_id = f["id"]
        if op_place(a) is not None:
            for src in tr.sources(a):
                if src[0] == "agg" and body.blocks[src[1]]["s"][src[2]]["r"].get("agg") == "closure":
                    pred_id = body.blocks[src[1]]["s"][src[2]]["r"]["id"]
    if pred_id is None or crate.body(pred_id) is None:
        raise NotAnalysable("the predicate passed to all() is not a local function or closure")
    return bb, t, crate.body(pred_id)


EMPTY_CMP = {("Eq", 0): True, ("Le", 0): True, ("Lt", 1): True, ("Ne", 0): False, ("Gt", 0): False, ("Ge", 1): False}


def find_unit_loop(F, crate, body):
    """`for u in text.bytes() { if !class(u) { return false } }` form: the loop's next() call block, the None-arm target,
    and the per-unit verdicts obtained by interpreting the loop body for every unit value."""
    from .cfg import CFG
    cfg = CFG(body)
    nexts = [(bb, t) for bb, t in body.calls() if t["call"]["name"] == "next" and t["call"]["def"].endswith("Iterator::next") and cfg.in_loop(bb)]
    if len(nexts) != 1:
        raise NotAnalysable(f"neither one Iterator::all call nor one per-unit loop ({len(nexts)} loops over an iterator)")
    nbb, nt = nexts[0]
    dest = place_local(nt["dest"])
    sw = body.blocks[nt["target"]]["t"]
    if "switch" not in sw:
        raise NotAnalysable("the loop does not match on next()'s result")
    tg = dict((v, b_) for v, b_ in sw["targets"])
    if 0 not in tg or 1 not in tg:
        raise NotAnalysable("the loop does not match on next()'s result")
    none_bb, some_bb = tg[0], tg[1]
    oty = (body.d["locals"][dest].get("ty") or {})
    uty = (oty.get("args") or [{}])[0]
    while "ref" in uty:
        uty = uty["ref"]
    unit = uty.get("prim")
    if unit not in ("u8", "char"):
        raise NotAnalysable(f"loop over {unit}")
    I = minterp.Interp(F, crate)
    dom = range(256) if unit == "u8" else char_domain(body)
    acc, bad_reject = set(), None
    for v in dom:
        env = {dest: minterp.adt("core::option::Option", 1, [v])}
        try:
            r = I.run(body, [], start=some_bb, env=env, stop=(nbb,))
        except minterp.Unsupported as e:
            raise NotAnalysable(f"loop body for unit {v:#x}: {e}")
        if r == ("stop", nbb):
            acc.add(v)
        elif r is False:
            pass
        else:
            bad_reject = f"a unit that fails the class ({v:#x}) makes the validator return {r!r} instead of false"
    return nbb, nt, none_bb, unit, acc, len(dom), bad_reject


def char_domain(pb):
    ks = set()
    for bb, j, s in pb.stmts():
        for o in (s["r"].get("a"), s["r"].get("b"), s["r"].get("use")):
            c = (o or {}).get("c") or {}
            if "char" in c and isinstance(c["char"], str) and len(c["char"]) == 1:
                ks.add(ord(c["char"]))
            if "int" in c:
                ks.add(c["int"])
    for blk in pb.blocks:
        for val, _ in (blk["t"].get("targets") or []) if "switch" in blk["t"] else []:
            ks.add(val)
    dom = set(range(0x300)) | {0xD7FF, 0xE000, 0xFFFF, 0x10000, 0x10FFFF, 0x1F630}
    for k in list(ks):
        for dlt in (-1, 0, 1):
            dom.add(k + dlt)
    for k in range(256):
        dom.add(k + 0x100)
        dom.add(k + 0x1F600)
    return sorted(x for x in dom if 0 <= x <= 0x10FFFF and not 0xD800 <= x <= 0xDFFF)


def analyse(F, crate, body):
    """Decide that `body` returns true exactly when its text is non-empty and every unit passes the predicate.
    Returns dict(all_call, empty_call, pred, unit, accepted, domain, law_ok, witness)."""
    loop = None
    try:
        abb, at, pb = find_all_call(body, crate)
        rows = bool_rows(body)
    except NotAnalysable as e:
        if "Iterator::all calls" not in str(e):
            raise
        loop = find_unit_loop(F, crate, body)
        abb, at, pb = loop[0], loop[1], body
        rows = bool_rows(body, loop_cut={loop[0]: loop[2]})
    A = ("call", abb)
    atoms = {a for cons, r in rows for a in cons} | {r[1] for cons, r in rows if r[0] == "atom"}
    if any(r[0] not in ("const", "atom") for _, r in rows):
        raise NotAnalysable("the result is not a boolean combination of the emptiness test and all()")
    others = sorted(atoms - {A}, key=repr)
    if len(others) != 1:
        raise NotAnalysable(f"expected exactly one condition besides all() (the emptiness test), found {len(others)}")
    E = others[0]
    if E[0] == "call":
        et = body.blocks[E[1]]["t"]
        if et["call"]["name"] != "is_empty":
            raise NotAnalysable(f"condition `{et['call']['name']}` is not an emptiness test")
        empty_when = True
    else:
        et = body.blocks[E[1]]["t"]
        if et["call"]["name"] != "len" or (E[2], E[3]) not in EMPTY_CMP:
            raise NotAnalysable(f"condition `{et['call']['name']} {E[2]} {E[3]}` is not an emptiness test")
        empty_when = EMPTY_CMP[(E[2], E[3])]
    tt = truth_table(rows, [E, A])
    witness = None
    for (e, a), res in tt.items():
        empty = (e == empty_when)
        expected = (not empty) and a
        if res and res != {expected}:
            witness = f"text {'empty' if empty else 'non-empty'}, all units valid = {a}: returns {sorted(res, key=repr)} (expected {expected})"
    if loop is None:
        unit, acc, ndom = unit_class(F, crate, pb)
    else:
        unit, acc, ndom = loop[3], loop[4], loop[5]
        witness = witness or loop[6]
    return {"all_call": (abb, at), "empty_call": (E[1], et), "pred": pb, "unit": unit, "accepted": acc, "domain": ndom, "law_ok": witness is None, "witness": witness}


# ------------------------------------------------------------------------------------------------ automaton form
def loop_automaton(F, crate, body, max_states=48):
    """A validator written as a scan `for unit in text.bytes() { state = step(state, unit) or return <bool> }; accept(state)`
    with finitely many concrete states (an enum, flags, small counters).  The loop body is interpreted for every reachable
    state and every byte value; the result is the deterministic automaton
        {"start": s0, "delta": {(state, byte): state | ("ret", bool)}, "accept": {state: bool}, "states": [...]}
    States are tuples of the values of the loop-carried locals (those live at the loop head and assigned in the loop)."""
    from .cfg import CFG
    cfg = CFG(body)
    nexts = [(bb, t) for bb, t in body.calls() if t["call"]["name"] == "next" and t["call"]["def"].endswith("Iterator::next") and cfg.in_loop(bb)]
    if len(nexts) != 1:
        raise NotAnalysable(f"{len(nexts)} loops over an iterator")
    nbb, nt = nexts[0]
    dest = place_local(nt["dest"])
    sw = body.blocks[nt["target"]]["t"]
    tg = dict((v, b_) for v, b_ in sw.get("targets", [])) if "switch" in sw else {}
    if 0 not in tg or 1 not in tg:
        raise NotAnalysable("the loop does not match on next()'s result")
    none_bb, some_bb = tg[0], tg[1]
    uty = ((body.d["locals"][dest].get("ty") or {}).get("args") or [{}])[0]
    while "ref" in uty:
        uty = uty["ref"]
    if uty.get("prim") != "u8":
        raise NotAnalysable(f"automaton form is decided over bytes only (loop over {uty.get('prim')})")
    loop_blocks = {x for x in cfg.reachable_from(nbb) if nbb in cfg.reachable_from(x)}
    live = dt.live_in(body)[nbb]
    assigned = set()
    for i in loop_blocks:
        blk = body.blocks[i]
        for st in blk["s"]:
            if "d" in st and (isinstance(st["d"], int) or not st["d"]["p"]):
                assigned.add(place_local(st["d"]))
    carried = sorted(l for l in live & assigned)
    I = minterp.Interp(F, crate, inline=lambda d_, rid: rid.startswith(crate.name + "::") and rid != body.id, max_depth=3)
    try:
        r0 = I.run(body, [("sym", f"a{k}") for k in range(1, body.argc + 1)], stop=(nbb,))
    except minterp.Unsupported as e:
        raise NotAnalysable(f"code before the scan: {e}")
    if r0 != ("stop", nbb):
        raise NotAnalysable("the scan is not reached unconditionally")
    env0 = dict(I.last_env)

    def freeze(v):
        if isinstance(v, list):
            return tuple(freeze(x) for x in v)
        if isinstance(v, tuple):
            return tuple(freeze(x) for x in v)
        return v

    def state_of(env):
        vals = []
        for l in carried:
            v = env.get(l, None)
            if minterp.contains_opaque(v) if v is not None else False:
                raise NotAnalysable(f"loop-carried local _{l} is not a concrete value")
            vals.append(freeze(v))
        return tuple(vals)

    def thaw_(v):
        if isinstance(v, tuple) and v and v[0] == "adt":
            return ("adt", v[1], v[2], [thaw_(x) for x in v[3]])
        if isinstance(v, tuple) and v and v[0] == "tuple":
            return ("tuple", [thaw_(x) for x in v[1]])
        return v
    s0 = state_of(env0)
    delta, accept, order, work = {}, {}, [s0], [s0]
    while work:
        st = work.pop()
        env = dict(env0)
        for l, v in zip(carried, st):
            if v is None:
                env.pop(l, None)
            else:
                env[l] = thaw_(v)
        try:
            ra = I.run(body, [], start=none_bb, env=env)
        except minterp.Unsupported as e:
            raise NotAnalysable(f"end of scan in state {st}: {e}")
        if not isinstance(ra, bool):
            raise NotAnalysable(f"end of scan in state {st} yields {ra!r}")
        accept[st] = ra
        for v in range(256):
            e2 = dict(env)
            e2[dest] = minterp.adt("core::option::Option", 1, [v])
            try:
                r = I.run(body, [], start=some_bb, env=e2, stop=(nbb,))
            except minterp.Unsupported as e:
                raise NotAnalysable(f"scan step in state {st} for byte {v:#x}: {e}")
            if r == ("stop", nbb):
                nxt = state_of(I.last_env)
                delta[(st, v)] = nxt
                if nxt not in accept and nxt not in work and nxt not in order:
                    order.append(nxt)
                    work.append(nxt)
                    if len(order) > max_states:
                        raise NotAnalysable("too many scan states")
            elif isinstance(r, bool):
                delta[(st, v)] = ("ret", r)
            else:
                raise NotAnalysable(f"scan step in state {st} for byte {v:#x} yields {r!r}")
    return {"start": s0, "delta": delta, "accept": accept, "states": order, "carried": carried, "next": (nbb, nt)}


def automaton_difference(A, spec_start, spec_delta, spec_accept, max_len=12):
    """shortest byte string on which automaton A and the specification automaton (delta(state, byte) -> state, accept(state)
    -> bool) disagree, or None if they accept the same language"""
    from collections import deque
    seen = set()
    q = deque([(A["start"], spec_start, b"")])
    while q:
        a, s_, w = q.popleft()
        if (a, s_) in seen:
            continue
        seen.add((a, s_))
        acc_a = a[1] if isinstance(a, tuple) and len(a) == 2 and a[0] == "ret" else A["accept"][a]
        if acc_a != spec_accept(s_):
            return w
        for v in range(256):
            na = a if (isinstance(a, tuple) and len(a) == 2 and a[0] == "ret") else A["delta"][(a, v)]
            ns = spec_delta(s_, v)
            if (na, ns) not in seen and len(w) < max_len:
                q.append((na, ns, w + bytes([v])))
    return None
