"""A tiny constant folder for straight-line integer MIR (no loops, no calls except to other
foldable local zero-argument functions).  Used to read bounds such as -(1 << 53) + 1."""
from .facts import op_place, place_local, place_proj

INT_BITS = {"i8": 8, "i16": 16, "i32": 32, "i64": 64, "i128": 128, "isize": 64,
            "u8": 8, "u16": 16, "u32": 32, "u64": 64, "u128": 128, "usize": 64}


class NotConst(Exception):
    pass


def wrap(v, prim):
    if prim not in INT_BITS:
        return v
    bits = INT_BITS[prim]
    if prim.startswith("u"):
        return v % (1 << bits)
    v = v % (1 << bits)
    return v - (1 << bits) if v >= 1 << (bits - 1) else v


def in_range(v, prim):
    bits = INT_BITS[prim]
    if prim.startswith("u"):
        return 0 <= v < (1 << bits)
    return -(1 << (bits - 1)) <= v < (1 << (bits - 1))


def fold_function(body, crate=None, depth=0):
    """value of _0 at return for a zero-argument (or argument-independent) function; ints, bools,
    tuples and single-field ADT aggregates (returned as ('adt', path, [vals]))"""
    env = {}
    bb = 0
    steps = 0
    while True:
        steps += 1
        if steps > 200:
            raise NotConst("too long")
        blk = body.blocks[bb]
        for s in blk["s"]:
            if "d" not in s:
                continue
            val = eval_rv(body, s["r"], env, crate, depth)
            assign(env, s["d"], val)
        t = blk["t"]
        if "return" in t:
            if 0 not in env:
                raise NotConst("no return value")
            return env[0]
        if "goto" in t:
            bb = t["goto"]
        elif "assert" in t:
            c = eval_op(body, t["assert"], env)
            if c != t["expected"]:
                raise NotConst("assert would fail (overflow)")
            bb = t["target"]
        elif "switch" in t:
            v = eval_op(body, t["switch"], env)
            v = int(v)
            nxt = t["otherwise"]
            for val, tg in t["targets"]:
                if val == v:
                    nxt = tg
            bb = nxt
        elif "call" in t:
            f = t["call"]
            if crate is not None and f.get("local") and not t["args"] and depth < 4:
                cb = crate.body(f["id"])
                if cb is None:
                    raise NotConst("callee body missing")
                assign(env, t["dest"], fold_function(cb, crate, depth + 1))
                bb = t["target"]
            elif f.get("def") == "core::ops::deref::Deref::deref" and f.get("resolved", {}).get("local") and crate is not None:
                # deref of a single-field newtype: &self.0
                v = eval_op(body, t["args"][0], env)
                if isinstance(v, tuple) and v and v[0] == "adt" and len(v[2]) == 1:
                    assign(env, t["dest"], v[2][0])
                    bb = t["target"]
                else:
                    raise NotConst("deref of non-newtype")
            else:
                raise NotConst("call " + f.get("def", "?"))
        elif "drop" in t:
            bb = t["target"]
        else:
            raise NotConst("terminator")


def assign(env, place, val):
    if isinstance(place, int):
        env[place] = val
        return
    if place["p"] == ["*"]:
        env[place["l"]] = val
        return
    raise NotConst("assignment to projection")


def eval_place(place, env):
    l = place_local(place)
    if l not in env:
        raise NotConst(f"_{l} unknown")
    v = env[l]
    for e in place_proj(place):
        if e == "*":
            continue
        if isinstance(e, dict) and "f" in e:
            if isinstance(v, tuple) and v and v[0] == "adt":
                v = v[2][e["f"]]
            elif isinstance(v, (tuple, list)):
                v = v[e["f"]]
            else:
                raise NotConst("field of scalar")
        else:
            raise NotConst("projection")
    return v


def eval_op(body, op, env):
    c = op.get("c")
    if c is not None:
        for k in ("int", "bool"):
            if k in c:
                return c[k]
        if "uint_str" in c:
            return int(c["uint_str"])
        raise NotConst("non-integer constant")
    return eval_place(op_place(op), env)


def eval_rv(body, r, env, crate, depth):
    if "use" in r:
        return eval_op(body, r["use"], env)
    if "ref" in r:
        return eval_place(r["ref"], env)
    if "cast" in r:
        v = eval_op(body, r["cast"], env)
        to = r["to"].get("prim")
        if r["kind"].startswith("IntToInt") and to in INT_BITS:
            return wrap(int(v), to)
        raise NotConst("cast " + r["kind"])
    if "bin" in r:
        a = eval_op(body, r["a"], env)
        b = eval_op(body, r["b"], env)
        op = r["bin"]
        prim = (r.get("aty") or {}).get("prim")
        if op in ("Eq", "Ne", "Lt", "Le", "Gt", "Ge"):
            return {"Eq": a == b, "Ne": a != b, "Lt": a < b, "Le": a <= b, "Gt": a > b, "Ge": a >= b}[op]
        base = op.replace("WithOverflow", "").replace("Unchecked", "")
        if base == "Add":
            v = a + b
        elif base == "Sub":
            v = a - b
        elif base == "Mul":
            v = a * b
        elif base == "Shl":
            v = a << b
        elif base == "Shr":
            v = a >> b
        elif base == "BitAnd":
            v = a & b
        elif base == "BitOr":
            v = a | b
        else:
            raise NotConst("binop " + op)
        if "WithOverflow" in op:
            ok = prim in INT_BITS and in_range(v, prim)
            return (wrap(v, prim) if prim else v, not ok)
        if prim in INT_BITS:
            if not in_range(v, prim) and base != "Shl":
                raise NotConst("overflow")
            v = wrap(v, prim)
        return v
    if "un" in r:
        a = eval_op(body, r["a"], env)
        if r["un"] == "Neg":
            return -a
        if r["un"] == "Not":
            return (not a) if isinstance(a, bool) else ~a
        raise NotConst("unop")
    if "agg" in r:
        vals = [eval_op(body, o, env) for o in r["ops"]]
        if r["agg"] == "adt":
            return ("adt", r["adt"], vals)
        return tuple(vals)
    raise NotConst("rvalue")
