"""Checker self-test: seeded mutants (string substitutions on a scratch copy of /repo) that a check must report.
usage: python3 -m vf.mutants [PID ...] [--only name] [-j N]"""
import json, os, shutil, subprocess, sys, tempfile
from concurrent.futures import ThreadPoolExecutor

VERIF = os.path.dirname(os.path.dirname(os.path.abspath(__file__)))
REPO = "/repo"


def load():
    cat = []
    d = os.path.join(VERIF, "mutants")
    for f in sorted(os.listdir(d)):
        if f.endswith(".json"):
            cat += json.load(open(os.path.join(d, f)))
    return cat


def apply(m, root):
    for e in m["edits"]:
        p = os.path.join(root, e["file"])
        if "git_show" in e:
            # replace the file by its content at a given revision of /repo (used to re-introduce repaired defects)
            r = subprocess.run(["git", "-C", REPO, "show", e["git_show"]], stdout=subprocess.PIPE, stderr=subprocess.PIPE)
            if r.returncode != 0:
                return f"git show {e['git_show']} failed"
            open(p, "wb").write(r.stdout)
            continue
        s = open(p).read()
        n = s.count(e["find"])
        if n != e.get("count", 1):
            return f"edit does not apply: {e['file']}: {n} matches of {e['find'][:50]!r}"
        s = s.replace(e["find"], e["replace"])
        open(p, "w").write(s)
    return None


def run_one(m, keep=False):
    tmp = tempfile.mkdtemp(prefix="vf-mut-")
    root = os.path.join(tmp, "repo")
    try:
        subprocess.run(["rsync", "-a", "--exclude", "target", "--exclude", ".git", REPO + "/", root + "/"], check=True)
        err = apply(m, root)
        if err:
            return {"name": m["name"], "status": "skipped", "detail": err}
        env = dict(os.environ, VERIF_REPO=root, VERIF_EVIDENCE_DIR=os.path.join(tmp, "ev"))
        res = {}
        for pid in m["properties"]:
            p = subprocess.run([os.path.join(VERIF, "check"), pid], env=env, stdout=subprocess.PIPE, stderr=subprocess.STDOUT, text=True)
            out = p.stdout
            hit = p.returncode == 1 and "VIOLATION property=" + pid in out
            rule_ok = True
            if hit and m.get("expect"):
                rule_ok = any(x in out for x in m["expect"])
            res[pid] = {"rc": p.returncode, "killed": hit and rule_ok,
                        "detail": "\n".join(l for l in out.splitlines() if l.startswith("  R") or "does not build" in l or "error" in l.lower())[:1500]}
        killed = all(r["killed"] for r in res.values())
        return {"name": m["name"], "status": "killed" if killed else "SURVIVED", "results": res}
    finally:
        if not keep:
            shutil.rmtree(tmp, ignore_errors=True)


def main():
    args = sys.argv[1:]
    jobs = 3
    if "-j" in args:
        jobs = int(args[args.index("-j") + 1])
    only = args[args.index("--only") + 1] if "--only" in args else None
    pids = [a for a in args if a.startswith("C") and a[1:].isdigit()]
    cat = [m for m in load() if (not pids or set(m["properties"]) & set(pids)) and (not only or only in m["name"])]
    if pids:
        for m in cat:
            m["properties"] = [p for p in m["properties"] if p in pids]
    with ThreadPoolExecutor(jobs) as ex:
        results = list(ex.map(run_one, cat))
    bad = 0
    for r in results:
        print(f"{r['status']:9} {r['name']}" + (f"  ({r.get('detail')})" if r["status"] == "skipped" else ""))
        if r["status"] == "SURVIVED":
            bad += 1
            for pid, x in r["results"].items():
                print(f"      {pid}: rc={x['rc']}\n" + "\n".join("        " + l for l in x["detail"].splitlines()[:12]))
    print(f"{len(results)} mutants: {sum(r['status'] == 'killed' for r in results)} killed, {bad} survived, {sum(r['status'] == 'skipped' for r in results)} skipped")
    return 2 if bad else 0


if __name__ == "__main__":
    sys.exit(main())
