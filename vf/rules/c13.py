"""C13 — the dynamic `any` value is a lossless carrier: sibling tables over its 19 variants agree."""
import json, os
from ..facts import ty_adt, tystr, walk_ty, place_local, place_proj, op_place
from ..cfg import CFG, Tracer
from .. import inline, dt, core, serdewrap as sw
from . import c01

ANY = "conjure_object::any::Any"
INNER = "conjure_object::any::Inner"

EXPLANATION = (
    "Decides that the four sibling tables over the 19 variants of the `any` carrier agree with one canonical mapping "
    "(spec/any_table.json): AnySerializer::serialize_X -> variant (R13.2a), Serialize for Any: variant -> serialize_X (b), "
    "AnyVisitor::visit_X -> variant (c), Deserializer::deserialize_any: variant -> visit_X (d), compound serializers' end() "
    "-> Seq/Map (e); each extracted from the MIR (aggregate variant / discriminant switch edge -> callee), with no wildcard "
    "arm hiding a variant; that the serde trait surfaces are complete (R13.1: no provided method whose serde default is an "
    "unconditional 'not supported' error is left un-overridden — the i128/u128 defect class); that the coercions use the "
    "Conjure spellings and the padded standard Base64 engine (R13.3) and every key coercion parses its own type and calls "
    "its own visitor method (13 rows); Option handling (R13.4); the key deserializer hands itself (not the bare Any) to visit_some / "
    "visit_newtype_struct / visit_enum (R13.5). NOT decided: the inverse law for all values, BTreeMap/Vec "
    "serde impls of std, float formatting.")


def variants_built(body, facts):
    """Inner variants aggregated in this body (+closures handled by caller)"""
    out = []
    for bb, j, s in body.stmts():
        r = s["r"]
        if r.get("agg") == "adt" and r["adt"] == INNER:
            out.append((r["variant"], s["ln"]))
    return out


def discr_switch_map(body, facts, callee_pred):
    """for a body that matches on an Inner-typed place: {variant_name: set(callee names)} from switch edges.
    Returns (map, wildcard_variants)"""
    cfg = CFG(body)
    inner = facts.adt(INNER)
    names = [v["name"] for v in inner["variants"]]
    res = {}
    wildcard = {}
    for bb, t in body.calls():
        if bb not in cfg.reach or not callee_pred(t):
            continue
        for s, allowed, allv in dt.edge_conditions(cfg, bb):
            atom = dt.switch_atom(body, s)
            if atom[0] != "discr":
                continue
            pty = dt.place_ty(body, facts, atom[1])
            while pty and "ref" in pty:
                pty = pty["ref"]
            if not pty or pty.get("adt") != INNER:
                continue
            listed = {v for v in allv if v is not None}
            for v in allowed:
                if v is None:
                    for k, n in enumerate(names):
                        if k not in listed:
                            res.setdefault(n, set()).add(t["call"]["name"])
                            wildcard.setdefault(n, set()).add(t["call"]["name"])
                else:
                    res.setdefault(names[v], set()).add(t["call"]["name"])
    return res, wildcard


def run(ctx):
    ctx.explanation = EXPLANATION
    ctx.assumptions = ["serde's Vec/BTreeMap impls serialize as seq/map and AnySerializer handles them through the same tables",
                       "ordered-float's OrderedFloat<f32/f64> is a transparent wrapper"]
    spec = json.load(open(os.path.join(core.VERIF, "spec", "any_table.json")))
    F = ctx.F
    c = F.crate("conjure_object")
    ctx.units["conjure_object bodies"] = len(c.bodies)
    inner = c.adts.get(INNER)
    if inner is None:
        ctx.violation("R13.2", "conjure_object", "anchor|Inner", "carrier enum not found")
        return
    names = [v["name"] for v in inner["variants"]]
    ctx.check(names == spec["variants"], "R13.2", f"{inner['file']}:{inner['line']}", "variants", f"carrier variants {names} differ from the canonical table {spec['variants']}: extend spec/any_table.json with the new variant's four rows",
              instance=f"{len(names)} variants")

    # ---------------- R13.1 trait surfaces
    scope = [i for i in c.impls if (i.get("trait") or "").startswith(("serde_core::ser::", "serde_core::de::")) and "/any/" in (i.get("file") or "")
             and not (i.get("trait") or "").endswith("::Error")]
    visitor_allow = {"serde_core::de::Visitor": {
        "visit_borrowed_str": "default forwards to visit_str", "visit_borrowed_bytes": "default forwards to visit_bytes",
        "visit_newtype_struct": "JSON-shaped input has no newtype structs; serde's default error is the right answer",
        "visit_enum": "JSON-shaped input never presents an enum; default error"},
        "serde_core::de::Deserialize": {"deserialize_in_place": "default delegates to deserialize"},
        "serde_core::ser::Serializer": {"is_human_readable": "ONLY text-carrier: the carrier is JSON-shaped; true is right"}}
    sw.check_surface(ctx, c, scope, "R13.1", allow_extra=visitor_allow, only={"text-carrier": lambda i: True, "ser-wrapper": lambda i: False})
    ctx.floor("R13.1", "serde impls of the any module", len(scope), 18)
    # required overrides: every scalar entry point
    for i in scope:
        tr = i["trait"]
        a = ty_adt(i["self_ty"])
        if tr == "serde_core::de::Deserializer":
            for m in ("deserialize_i128", "deserialize_u128"):
                ctx.check(m in i["items"], "R13.1", f"{i['file']}:{i['line']}", f"{a}|{m}", f"{a} leaves {m} to serde's default (\"i128 is not supported\")", instance=f"{a.split('::')[-1]}::{m} overridden")
        if tr == "serde_core::de::Deserializer" and (a.endswith("::Any") or a.endswith("KeyDeserializer")):
            # serde-derived newtype structs only implement visit_newtype_struct / visit_seq: a carrier that answers
            # deserialize_newtype_struct through deserialize_any (visit_u32, visit_str, ...) cannot give them back
            nb = [b for b in c.bodies if b.trait == tr and ty_adt(b.self_ty) == a and b.name == "deserialize_newtype_struct"]
            ok = len(nb) == 1 and any(t["call"]["def"] == "serde_core::de::Visitor::visit_newtype_struct" for _, t in nb[0].calls())
            ctx.check(ok, "R13.1", nb[0].loc() if nb else f"{i['file']}:{i['line']}", f"{a}|deserialize_newtype_struct|visit_newtype_struct",
                      f"{a}::deserialize_newtype_struct does not call visit_newtype_struct (it answers through deserialize_any): a value of a serde-derived newtype struct `struct Id(u32)` converted to Any cannot be converted back (\"invalid type: integer, expected tuple struct\")",
                      instance=f"{a.split('::')[-1]}::deserialize_newtype_struct -> visit_newtype_struct")
        if tr == "serde_core::ser::Serializer":
            for m in ("serialize_i128", "serialize_u128"):
                ctx.check(m in i["items"], "R13.1", f"{i['file']}:{i['line']}", f"{a}|{m}", f"{a} leaves {m} to serde's default", instance=f"{a.split('::')[-1]}::{m} overridden")
        if tr == "serde_core::de::Visitor" and a.endswith("AnyVisitor"):
            for m in spec["visitor"]:
                ctx.check(m in i["items"], "R13.1", f"{i['file']}:{i['line']}", f"{a}|{m}", f"{a} does not override {m}: documents containing that kind are rejected", instance=f"AnyVisitor::{m} overridden")

    # ---------------- R13.2a serializer -> variant
    ser_impl = [i for i in scope if i["trait"] == "serde_core::ser::Serializer"]
    if len(ser_impl) != 1:
        ctx.violation("R13.2", "conjure_object", "anchor|AnySerializer", f"expected one Serializer impl in the any module, found {len(ser_impl)}")
        return
    ms = c.methods_of_impl(ser_impl[0])
    for m, exp in spec["serializer"].items():
        b = ms.get(m)
        if b is None:
            ctx.violation("R13.2", f"{ser_impl[0]['file']}:{ser_impl[0]['line']}", f"ser|{m}|missing", f"AnySerializer::{m} not overridden")
            continue
        built = set()
        eb_, fam = inline.expanded_family(c, b, depth=2, pred=lambda cb: cb.d.get("vis") != "pub" and "/any/" in (cb.file or ""))
        for x in fam:
            built |= {v for v, _ in variants_built(x, F)}
        delegated = {t["call"]["name"] for x in fam for _, t in x.calls() if t["call"].get("trait") == "serde_core::ser::Serializer" and t["call"]["name"] in spec["serializer"]}
        eff = set(built)
        for dn in delegated:
            eff.add(spec["serializer"][dn])
        if exp == "Map":
            eff.discard("String")  # the single key of a one-entry map
        ctx.check(eff == {exp}, "R13.2", b.loc(), f"ser|{m}", f"AnySerializer::{m} produces variant(s) {sorted(built)} (delegates to {sorted(delegated)}), canonical table says {exp}",
                  instance=f"AnySerializer::{m} -> {exp}")
    # compound end()
    for i in scope:
        exp = spec["compound_end"].get(i["trait"])
        if not exp:
            continue
        b = c.methods_of_impl(i).get("end")
        if b is None:
            continue
        eb_, fam_ = inline.expanded_family(c, b, depth=2, pred=lambda cb: cb.d.get("vis") != "pub" and "/any/" in (cb.file or ""))
        built = {v for x in fam_ for v, _ in variants_built(x, F)}
        for x in fam_:
            for _, t in x.calls():
                if t["call"]["name"] == "end" and t["call"].get("trait") in spec["compound_end"]:
                    built.add(spec["compound_end"][t["call"]["trait"]])
        # struct/tuple variants wrap a Seq/Map in a one-entry Map
        ctx.check(exp in built and built <= {exp, "Seq", "Map", "String"}, "R13.2", b.loc(), f"end|{i['trait']}|{ty_adt(i['self_ty'])}",
                  f"{ty_adt(i['self_ty'])} as {i['trait']}::end builds {sorted(built)}, canonical: {exp}", instance=f"{i['trait'].split('::')[-1]}::end -> {exp}")
    # ---------------- R13.2b Serialize for Any: variant -> serialize_X
    sb = [b for b in c.bodies if b.trait == "serde_core::ser::Serialize" and ty_adt(b.self_ty) == ANY and b.name == "serialize"]
    if len(sb) == 1:
        # the dispatch may live in `impl Serialize for Inner` with Any delegating to it
        sbx = inline.expand(c, sb[0], depth=2, pred=lambda cb: "/any/" in (cb.file or ""), max_callee_blocks=600)
        m, wild = discr_switch_map(sbx, F, lambda t: (t["call"].get("trait") or "") in ("serde_core::ser::Serializer", "serde_core::ser::Serialize"))
        for v in names:
            got = m.get(v, set())
            ctx.check(got == {spec["reserialize"][v]} and v not in wild, "R13.2", sb[0].loc(), f"reserialize|{v}",
                      f"Serialize for Any: variant {v} re-serializes through {sorted(got)}{' via a wildcard arm' if v in wild else ''}, canonical: {spec['reserialize'][v]}",
                      instance=f"Any::{v} -> {spec['reserialize'][v]}")
    else:
        ctx.violation("R13.2", "conjure_object", "anchor|Serialize for Any", "impl not found")
    # ---------------- R13.2c visitor -> variant
    vis_impl = [i for i in scope if i["trait"] == "serde_core::de::Visitor" and ty_adt(i["self_ty"]).endswith("AnyVisitor")]
    if len(vis_impl) == 1:
        vm = c.methods_of_impl(vis_impl[0])
        for m, exp in spec["visitor"].items():
            b = vm.get(m)
            if b is None:
                continue
            built = {v for x in [b] + c.closures_of(b) for v, _ in variants_built(x, F)}
            ctx.check(built == {exp}, "R13.2", b.loc(), f"visitor|{m}", f"AnyVisitor::{m} builds {sorted(built)}, canonical: {exp}", instance=f"AnyVisitor::{m} -> {exp}")
        if "visit_some" in vm:
            dz = [t for _, t in vm["visit_some"].calls() if t["call"]["def"] == "serde_core::de::Deserialize::deserialize" and ty_adt(t["call"]["substs"][0]) == ANY
                  or t["call"].get("name") == "deserialize_any"]
            ctx.check(len(dz) == 1, "R13.2", vm["visit_some"].loc(), "visitor|visit_some", "AnyVisitor::visit_some must decode the inner value as an Any", instance="visit_some -> Any::deserialize")
    else:
        ctx.violation("R13.2", "conjure_object", "anchor|AnyVisitor", "visitor impl not found")
    # ---------------- R13.2d deserialize_any: variant -> visit_X
    de_impl = [i for i in scope if i["trait"] == "serde_core::de::Deserializer" and ty_adt(i["self_ty"]) == ANY and "adt" in i["self_ty"]]
    if len(de_impl) != 1:
        ctx.violation("R13.2", "conjure_object", "anchor|Deserializer for Any", "impl not found")
        return
    dm = c.methods_of_impl(de_impl[0])
    da = dm.get("deserialize_any")
    if da is not None:
        m, wild = discr_switch_map(da, F, lambda t: (t["call"].get("trait") or "") == "serde_core::de::Visitor")
        for v in names:
            got = m.get(v, set())
            ctx.check(got == {spec["replay"][v]} and v not in wild, "R13.2", da.loc(), f"replay|{v}",
                      f"Deserializer for Any: variant {v} is replayed through {sorted(got)}{' via a wildcard arm' if v in wild else ''}, canonical: {spec['replay'][v]}",
                      instance=f"Any::{v} -> {spec['replay'][v]}")
    # every other deserialize_* forwards to deserialize_any (or is a checked coercion)
    # deserialize_newtype_struct hands the carrier itself to visit_newtype_struct (decided by R13.1)
    coercions = {"deserialize_f32", "deserialize_f64", "deserialize_bytes", "deserialize_byte_buf", "deserialize_option", "deserialize_enum", "deserialize_any", "deserialize_newtype_struct"}
    for name, b in sorted(dm.items()):
        if name in coercions or not name.startswith("deserialize_"):
            continue
        calls = [t["call"]["name"] for _, t in b.calls() if (t["call"].get("trait") or "") == "serde_core::de::Deserializer"]
        ctx.check(calls == ["deserialize_any"], "R13.2", b.loc(), f"forward|{name}", f"Deserializer for Any::{name} calls {calls}, expected a plain forward to deserialize_any", instance=f"{name} -> deserialize_any")
    # ---------------- R13.3 coercions
    for m, width in (("deserialize_f32", "f32"), ("deserialize_f64", "f64")):
        b = dm.get(m)
        if b is None:
            ctx.violation("R13.3", f"{de_impl[0]['file']}:{de_impl[0]['line']}", f"coerce|{m}|missing", f"Deserializer for Any does not override {m}: \"NaN\"/\"Infinity\" strings could not be viewed as doubles")
            continue
        ok = c01.check_float_reader(ctx, c, b, f"any {m}", width, rule="R13.3")
        ctx.check(ok, "R13.3", b.loc(), f"coerce|{m}|table", f"{m}: spelling table for non-finite doubles not found")
        fb = [t["call"]["name"] for _, t in b.calls() if (t["call"].get("trait") or "") == "serde_core::de::Deserializer"]
        ctx.check(fb == ["deserialize_any"], "R13.3", b.loc(), f"coerce|{m}|fallback", f"{m}: other values must fall back to deserialize_any, found {fb}", instance=f"{m}: fallback deserialize_any")
    b = dm.get("deserialize_bytes")
    if b is None:
        ctx.violation("R13.3", f"{de_impl[0]['file']}:{de_impl[0]['line']}", "coerce|deserialize_bytes|missing", "Deserializer for Any does not override deserialize_bytes (Base64 text could not be viewed as binary)")
    else:
        # the decoding step may be a private accessor of the carrier (`self.decode_base64()`)
        b = inline.expand(c, b, depth=2, pred=lambda cb: "/any/" in (cb.file or "") and cb.d.get("vis") != "pub" and not (cb.trait or "").startswith("serde_core::"), lower=True)
        eng = c01.uses_b64_standard(b)
        dec = [t for _, t in b.calls() if t["call"]["def"] == "base64::engine::Engine::decode"]
        vis = [t for _, t in b.calls() if t["call"].get("name") == "visit_byte_buf"]
        ctx.check(eng == [c01.B64_STD] and len(dec) == 1 and len(vis) == 1, "R13.3", b.loc(), "coerce|deserialize_bytes|engine",
                  f"deserialize_bytes decodes with {eng}; must be the padded standard alphabet", instance="deserialize_bytes: STANDARD.decode -> visit_byte_buf")
    bb_ = dm.get("deserialize_byte_buf")
    if bb_ is not None:
        calls = [t["call"]["name"] for _, t in bb_.calls() if (t["call"].get("trait") or "") == "serde_core::de::Deserializer"]
        ctx.check(calls == ["deserialize_bytes"], "R13.3", bb_.loc(), "coerce|deserialize_byte_buf", f"deserialize_byte_buf calls {calls}, expected deserialize_bytes", instance="deserialize_byte_buf -> deserialize_bytes")
    else:
        ctx.violation("R13.3", f"{de_impl[0]['file']}:{de_impl[0]['line']}", "coerce|deserialize_byte_buf|missing", "deserialize_byte_buf not overridden")
    # key coercions
    key_impl = [i for i in scope if i["trait"] == "serde_core::de::Deserializer" and ty_adt(i["self_ty"]) != ANY]
    rows = 0
    for ki in key_impl:
        km = c.methods_of_impl(ki)
        for m, (ty, vis) in spec["key_parse"].items():
            b = km.get(m)
            if b is None:
                ctx.violation("R13.3", f"{ki['file']}:{ki['line']}", f"key|{m}|missing", f"{ty_adt(ki['self_ty'])} does not override {m}: map keys of that type could not be read back from their string form")
                continue
            rows += 1
            # the "is it a string, does it parse" step may live in a private generic helper: decided on the expansion
            # (type parameters instantiated, combinators lowered)
            b0 = b
            b = inline.expand(c, b, depth=2, pred=lambda cb: cb.d.get("vis") != "pub" and "/any/" in (cb.file or ""), lower=True)
            cfg = CFG(b)
            parses = [(bb, t) for bb, t in b.calls() if (t["call"].get("name") == "parse" and "core::str" in t["call"]["def"])
                      or (t["call"].get("name") == "from_str" and "FromStr" in t["call"]["def"])]
            for _, t_ in parses:
                if t_["call"]["name"] == "from_str":
                    t_["call"] = dict(t_["call"], substs=t_["call"]["substs"][:1])
            visits = [(bb, t) for bb, t in b.calls() if (t["call"].get("trait") or "") == "serde_core::de::Visitor"]
            good = len(parses) == 1 and [tystr(x) for x in parses[0][1]["call"]["substs"]] == [ty] and len(visits) == 1 and visits[0][1]["call"]["name"] == vis
            if good:
                # the parse is attempted for every string key: nothing but "is it a string" decides whether it happens
                # (a syntactic pre-filter — leading zero, sign — refuses keys the type's own parser accepts, e.g. "0.5")
                pre = []
                for sbb, allowed, allv in dt.edge_conditions(cfg, parses[0][0]):
                    atom = dt.switch_atom(b, sbb)
                    if atom[0] != "discr":
                        pre.append(atom[0] if atom[0] != "call" else atom[1]["call"]["name"])
                ctx.check(not pre, "R13.3", b.loc(), f"key|{m}|no-prefilter", f"key coercion {m}: whether the key text is parsed depends on {pre}; every string key must be handed to the type's parser", instance=f"key {m}: parse attempted for every string key", nontrivial=False)
            if good:
                good = dt.dominated_by_success(cfg, F, parses[0][0], visits[0][0])
                tr = Tracer(b)
                good = good and ("call", parses[0][0]) in {s if s[0] != "field" else s[1] for s in tr.sources(visits[0][1]["args"][1])}
            elif not parses and len(visits) == 1 and visits[0][1]["call"]["name"] == vis:
                # combinator form: key.and_then(|k| k.parse().ok()) matched as Some(v) => visit(v)
                cparses = [(x, t) for x in c.closures_of(b0) for _, t in x.calls() if t["call"].get("name") == "parse" and "core::str" in t["call"]["def"]]
                parses = [(0, t) for _, t in cparses]
                if len(cparses) == 1 and [tystr(x) for x in cparses[0][1]["call"]["substs"]] == [ty]:
                    clo = cparses[0][0]
                    comb = [(bb, t) for bb, t in b.calls() if t["call"]["name"] in ("and_then", "map", "filter_map") and any(
                        s_[0] == "agg" and b.blocks[s_[1]]["s"][s_[2]]["r"].get("id") == clo.id for a_ in t["args"] for s_ in Tracer(b).sources(a_))]
                    if len(comb) == 1:
                        vsrc = {s_ if s_[0] != "field" else s_[1] for s_ in Tracer(b).sources(visits[0][1]["args"][1])}
                        on_some = any(dt.switch_atom(b, sbb)[0] == "discr" and dt.allowed_variants(al, av, ["None", "Some"]) == {"Some"} for sbb, al, av in dt.edge_conditions(cfg, visits[0][0]))
                        good = ("call", comb[0][0]) in vsrc and on_some
            ctx.check(good, "R13.3", b.loc(), f"key|{m}", f"key coercion {m}: must parse the key text as {ty} and hand the parsed value to {vis} (found parse::<{[tystr(x) for t_ in parses for x in t_[1]['call']['substs']]}>, visits {[t_[1]['call']['name'] for t_ in visits]})",
                      instance=f"key {m}: str::parse::<{ty}> -> {vis}")
    ctx.floor("R13.3", "key coercion rows", rows, 13)
    for ki in key_impl:
        kany = c.methods_of_impl(ki).get("deserialize_any")
        if kany is not None:
            vis_ = [t["call"]["name"] for x in [kany] + c.closures_of(kany) for _, t in x.calls() if (t["call"].get("trait") or "") == "serde_core::de::Visitor"]
            fwd_ = [t["call"]["name"] for _, t in kany.calls() if (t["call"].get("trait") or "") == "serde_core::de::Deserializer"]
            ctx.check(not vis_ and fwd_ == ["deserialize_any"], "R13.3", kany.loc(), "key|deserialize_any|forward", f"the key deserializer's deserialize_any visits {vis_} / forwards to {fwd_}: an untyped view of a key must replay the key as it is (a string stays that string)",
                      instance="key deserialize_any -> Any::deserialize_any")
    # ---------------- R13.4 option
    for owner, methods in (("Any", dm),) + tuple((ty_adt(k["self_ty"]).split("::")[-1], c.methods_of_impl(k)) for k in key_impl):
        b = methods.get("deserialize_option")
        if b is None:
            ctx.violation("R13.4", "conjure_object", f"option|{owner}|missing", f"{owner}: deserialize_option not overridden")
            continue
        b = inline.expand(c, b, depth=2, pred=lambda cb: "/any/" in (cb.file or "") and cb.d.get("vis") != "pub" and not (cb.trait or "").startswith("serde_core::"), lower=True)
        m, wild = discr_switch_map(b, F, lambda t: (t["call"].get("trait") or "") == "serde_core::de::Visitor")
        good = m.get("Null") == {"visit_none"} and all(m.get(v) == {"visit_some"} for v in names if v != "Null")
        ctx.check(good, "R13.4", b.loc(), f"option|{owner}", f"{owner}::deserialize_option: Null must map to visit_none and every other variant to visit_some; got Null->{sorted(m.get('Null', []))}",
                  instance=f"{owner}::deserialize_option: Null -> visit_none, else visit_some(self)")

    # ---------------- R13.6 the serializer side keeps everything it is given
    # (a) compound serializers: every element / field / entry handed in is stored — no conditional drop (a field whose value
    #     serializes to null is still a field of the value; dropping it makes the JSON differ and required fields vanish)
    ADD = ("serialize_element", "serialize_field", "serialize_value", "serialize_entry")
    COMPOUND = ("SerializeSeq", "SerializeTuple", "SerializeTupleStruct", "SerializeTupleVariant", "SerializeMap", "SerializeStruct", "SerializeStructVariant")
    nadd = 0
    for i in scope:
        if (i.get("trait") or "").split("::")[-1] not in COMPOUND or not (i.get("trait") or "").startswith("serde_core::ser::"):
            continue
        for mname, mb in sorted(c.methods_of_impl(i).items()):
            if mname not in ADD:
                continue
            nadd += 1
            eb = inline.expand(c, mb, depth=2, pred=lambda cb: "/any/" in (cb.file or "") and cb.name not in ADD, lower=True)
            cfg_ = CFG(eb)
            adders = [bb for bb, t in eb.calls() if (t["call"]["name"] in ("insert", "push", "push_back") and ("BTreeMap" in t["call"]["def"] or "Vec" in t["call"]["def"] or "vec::" in t["call"]["def"]))
                      or (t["call"]["name"] in ADD and (t["call"].get("trait") or "").startswith("serde_core::ser::"))]
            oks = [o for o in dt.ok_return_blocks(eb) if o[2]["r"].get("variant") == "Ok"]
            good = bool(adders) and all(any(cfg_.dominates(a_, okbb) for a_ in adders) for okbb, _, _ in oks)
            who = f"{(ty_adt(i['self_ty']) or '?').split('::')[-1]} as {i['trait'].split('::')[-1]}::{mname}"
            ctx.check(good, "R13.6", mb.loc(), f"{ty_adt(i['self_ty'])}|{i['trait'].split('::')[-1]}|{mname}|stores-unconditionally",
                      f"{who}: a success return is reachable without the element / field having been stored (or handed to the sibling method that stores it): values given to the carrier must not be dropped, whatever they serialize to",
                      instance=f"{who}: every Ok return follows the store")
    ctx.floor("R13.6", "element-adding methods of the compound serializers", nadd, 4)
    # (a') ... and refuse nothing on their own account: the only errors of serialize_key / serialize_element / serialize_field are
    #      those of the nested serializer (a carrier that rejects, say, binary keys is not lossless); serialize_value may report
    #      a missing key
    for i in scope:
        if (i.get("trait") or "").split("::")[-1] not in COMPOUND or not (i.get("trait") or "").startswith("serde_core::ser::"):
            continue
        for mname, mb in sorted(c.methods_of_impl(i).items()):
            if mname not in ADD + ("serialize_key",):
                continue
            fam_ = [mb] + c.closures_of(mb)
            own = [t["call"]["def"] for x in fam_ for _, t in x.calls() if t["call"]["name"] in ("custom", "invalid_value", "invalid_type") and "Error" in t["call"]["def"]]
            limit = 1 if mname == "serialize_value" else 0
            ctx.check(len(own) <= limit, "R13.6", mb.loc(), f"{ty_adt(i['self_ty'])}|{i['trait'].split('::')[-1]}|{mname}|refuses-nothing",
                      f"{(ty_adt(i['self_ty']) or '?').split('::')[-1]}::{mname} constructs {len(own)} error(s) of its own ({own}): the carrier must accept every key / element the nested serializer produced",
                      instance=f"{(ty_adt(i['self_ty']) or '?').split('::')[-1]}::{mname}: no refusal of its own", nontrivial=False)
    # (b) variant serializers: the single key of the {variant: payload} map is the *variant* name (4th parameter), the enum's
    #     type name (2nd parameter, same type &'static str) goes nowhere
    for mname, mb in sorted(ms.items()):
        if mname not in ("serialize_unit_variant", "serialize_newtype_variant", "serialize_tuple_variant", "serialize_struct_variant"):
            continue
        uses_name = [u for u in dt.uses_of_local(mb, 2)]
        uses_variant = [u for u in dt.uses_of_local(mb, 4)]
        ctx.check(not uses_name and bool(uses_variant), "R13.6", mb.loc(), f"ser|{mname}|variant-name",
                  f"AnySerializer::{mname}: the enum's type name (parameter `name`) is used {len(uses_name)} time(s) and the variant name (parameter `variant`) {len(uses_variant)} time(s); the carrier must record the variant name only — both are &'static str, so a swap type-checks",
                  instance=f"AnySerializer::{mname}: keyed by `variant`, `name` unused")

    # ---------------- R13.5 the key deserializer stays in force below optional / newtype / enum keys
    KD = "conjure_object::any::de::KeyDeserializer"
    nk = 0
    co = ctx.F.crate("conjure_object")
    for b in co.bodies:
        if b.trait != "serde_core::de::Deserializer" or ty_adt(b.self_ty) != KD:
            continue
        for x in [b] + co.closures_of(b):
            for bb, t in x.calls():
                if t["call"]["def"].startswith("serde_core::de::Visitor::visit_") and t["call"]["name"] in ("visit_some", "visit_newtype_struct", "visit_enum", "visit_seq", "visit_map"):
                    nk += 1
                    carrier = [tystr(q) for q in t["call"]["substs"][1:]]
                    ctx.check(carrier == [KD], "R13.5", x.loc(t["ln"]), f"KeyDeserializer::{b.name}|{t['call']['name']}|carrier",
                              f"KeyDeserializer::{b.name} hands {carrier} to {t['call']['name']}: the nested deserializer must be the KeyDeserializer itself, otherwise the string-to-number / bool key coercion is lost below an optional or newtype key",
                              instance=f"KeyDeserializer::{b.name}: {t['call']['name']}(KeyDeserializer)")
    ctx.floor("R13.5", "nested-deserializer hand-offs of the Any key deserializer", nk, 3)


_run_c13 = run


def run(ctx):
    _run_c13(ctx)
    # R13.7 per-call state parked in a thread-local is put back on every exit
    from .. import tls as _tls
    # R13.8 serializer and deserializer of the dynamic value answer serde's is_human_readable alike (a uuid or an address stored
    # in its compact form cannot be read back by a deserializer that expects text, nor re-serialized to JSON as text)
    co_ = ctx.F.crate("conjure_object")
    answers = {}
    for i_ in co_.impls:
        if i_.get("trait") in ("serde_core::ser::Serializer", "serde_core::de::Deserializer") and "::any::" in tystr(i_.get("self_ty") or {}):
            mid_ = (i_.get("items") or {}).get("is_human_readable")
            b_ = co_.body(mid_) if mid_ else None
            ans_ = True
            if b_ is not None:
                ans_ = "?"
                for _, _, s_ in b_.stmts():
                    if place_local(s_["d"]) == 0 and "use" in s_["r"] and isinstance(s_["r"]["use"].get("c"), dict) and "bool" in s_["r"]["use"]["c"]:
                        ans_ = s_["r"]["use"]["c"]["bool"]
            answers[tystr(i_["self_ty"])] = ans_
    ctx.check(len(set(answers.values())) <= 1, "R13.8", "conjure-object/src/any", "any|is_human_readable|agree",
              f"the serializers / deserializers of `any` disagree on is_human_readable: {answers} — a value whose encoding depends on it (uuid, IpAddr) is stored in one form and read back / re-serialized in the other",
              instance=f"{len(answers)} Serializer / Deserializer impls of `any` answer is_human_readable alike ({sorted(set(map(str, answers.values())))})")
    ctx.floor("R13.8", "Serializer / Deserializer impls of any", len(answers), 2)
    _tls.check(ctx, ctx.F.crate("conjure_object"), "R13.7", "`any` must carry every document whatever was (unsuccessfully) read before on the same thread")
