"""F10 instance translation validation: join of the generated program (conjure-test, both configurations)
with the IR it was generated from (conjure-test/test-ir.json).  Join keys are only constants the generator copies
verbatim from the IR (endpoint names, service names, paths, parameter ids, "Namespace:Name")."""
import json, os
from . import extract, dt
from .facts import ty_adt, tystr, op_place, place_local
from .cfg import Tracer


def load_ir():
    return json.load(open(os.path.join(extract.REPO, "conjure-test", "test-ir.json")))


class IR:
    def __init__(self, doc=None):
        self.doc = doc or load_ir()
        self.types = {}
        for t in self.doc["types"]:
            kind = t["type"]
            d = t[kind]
            self.types[(d["typeName"]["package"], d["typeName"]["name"])] = (kind, d)
        self.endpoints = []
        for s in self.doc["services"]:
            for e in s["endpoints"]:
                self.endpoints.append((s["serviceName"]["name"], e))

    def tkey(self, ref):
        return (ref["package"], ref["name"])

    def dealias(self, t):
        """follow alias references and external fallbacks down to a structural type"""
        seen = 0
        while seen < 50:
            seen += 1
            if t["type"] == "reference":
                kind, d = self.types[self.tkey(t["reference"])]
                if kind == "alias":
                    t = d["alias"]
                    continue
                return t
            if t["type"] == "external":
                t = t["external"]["fallback"]
                continue
            return t
        return t

    def ref_kind(self, t):
        if t["type"] == "reference":
            return self.types[self.tkey(t["reference"])][0]
        return None

    def is_binary(self, t):
        t = self.dealias(t)
        return t["type"] == "primitive" and t["primitive"] == "BINARY"

    def return_class(self, ret):
        """unit | binary | optional_binary | iterable | value  (what the client decodes / server serializes)"""
        if ret is None:
            return "unit"
        t = self.dealias(ret)
        if t["type"] == "primitive" and t["primitive"] == "BINARY":
            return "binary"
        if t["type"] == "optional":
            if self.is_binary(t["optional"]["itemType"]):
                return "optional_binary"
            return "optional"
        if t["type"] in ("list", "set", "map"):
            return "iterable"
        return "value"


def config_of(body_id):
    if body_id.startswith("conjure_test::exhaustive_types::"):
        return "exhaustive"
    if body_id.startswith("conjure_test::types::"):
        return "default"
    return None


def real_body(crate, b):
    kids = [k for k in crate.children.get(b.id, []) if k.kind == "coroutine"]
    if len(kids) == 1 and not any(True for _ in b.calls()):
        return kids[0], "async"
    return b, "blocking"


def const_str_arg(body, op):
    c = dt.resolve_const(body, op)
    return c.get("str") if c else None


class ClientMethod:
    def __init__(self, outer, body, flavor, service, name, path):
        self.outer, self.body, self.flavor, self.service, self.name, self.path = outer, body, flavor, service, name, path
        self.config = config_of(outer.id)

    def __repr__(self):
        return f"<client {self.config}/{self.flavor} {self.service}.{self.name}>"


def client_methods(ct):
    out = []
    for b in ct.bodies:
        if b.kind != "assoc_fn" or config_of(b.id) is None or b.trait:
            continue
        rb, flavor = real_body(ct, b)
        for bb, t in rb.calls():
            if t["call"]["def"] == "conjure_http::client::Endpoint::new":
                svc = const_str_arg(rb, t["args"][0])
                name = const_str_arg(rb, t["args"][2])
                path = const_str_arg(rb, t["args"][3])
                out.append(ClientMethod(b, rb, flavor, svc, name, path))
    return out


class Handler:
    def __init__(self, adt, body, flavor, service, name, meta):
        self.adt, self.body, self.flavor, self.service, self.name, self.meta = adt, body, flavor, service, name, meta
        self.config = config_of(body.id)

    def __repr__(self):
        return f"<handler {self.config}/{self.flavor} {self.service}.{self.name}>"


def _ret_str(body):
    for bb, j, s in body.stmts():
        if place_local(s["d"]) == 0:
            r = s["r"]
            c = None
            if "use" in r:
                c = dt.resolve_const(body, r["use"])
            elif "ref" in r:
                c = dt.resolve_const(body, {"cp": place_local(r["ref"])})
            if c and "str" in c:
                return c["str"]
    return None


def handlers(ct):
    """generated endpoint handler structs: EndpointMetadata (name/service_name/path) + Endpoint/AsyncEndpoint::handle"""
    meta = {}
    for i in ct.impls:
        if i.get("trait") == "conjure_http::server::EndpointMetadata" and config_of(i["id"]):
            ms = ct.methods_of_impl(i)
            meta[ty_adt(i["self_ty"])] = {k: _ret_str(v) for k, v in ms.items() if k in ("name", "service_name", "path", "template")}
    out = []
    for i in ct.impls:
        tr = i.get("trait")
        if tr in ("conjure_http::server::Endpoint", "conjure_http::server::AsyncEndpoint") and config_of(i["id"]):
            a = ty_adt(i["self_ty"])
            ms = ct.methods_of_impl(i)
            h = ms.get("handle")
            if h is None:
                continue
            rb, flavor = real_body(ct, h)
            m = meta.get(a, {})
            out.append(Handler(a, rb, "async" if tr.endswith("AsyncEndpoint") else "blocking", m.get("service_name"), m.get("name"), m))
    return out


EXTRACT_FNS = {"path_param": "path", "query_param": "query", "header_param": "header", "body_arg": "body", "async_body_arg": "body",
               "parse_header_auth": "auth_header", "parse_cookie_auth": "auth_cookie"}


def extraction_calls(h):
    """ordered argument extraction calls of a handler: [(kind, bb, term)]"""
    out = []
    for bb, t in sorted(h.body.calls(), key=lambda x: x[0]):
        d = t["call"]["def"]
        if d.startswith("conjure_http::private::server::") and t["call"]["name"] in EXTRACT_FNS:
            out.append((EXTRACT_FNS[t["call"]["name"]], bb, t))
    return out


def handler_trait_call(h):
    """the call of the user's service trait method inside the handler"""
    out = []
    for bb, t in h.body.calls():
        f = t["call"]
        tr = f.get("trait") or ""
        if tr.startswith("conjure_test::") and config_of(tr) and not tr.startswith("conjure_http"):
            out.append((bb, t))
    return out
