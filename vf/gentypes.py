"""Extraction of the generated Conjure enums / unions / objects / aliases of the instance (conjure_test) and their join
with the IR through wire constants."""
from .facts import ty_adt, tystr, place_local, place_proj, op_place, strip_refs, walk_ty
from .cfg import CFG, Tracer
from . import dt, instance
from .rules import c17

VARIANT = "conjure_object::private::Variant"
ANY = "conjure_object::any::Any"


def str_match_table(body, facts, leaf):
    """for `match s { "lit" => X, .. , _ => Y }`: returns ({lit: leafvalue}, [fallthrough leafvalues]).
    `leaf(body, bb)` extracts a value description from a block (or None)"""
    cfg = CFG(body)
    table = {}
    fall = []
    for bb in range(len(body.blocks)):
        if bb not in cfg.reach or body.blocks[bb].get("cleanup"):
            continue
        v = leaf(body, bb)
        if v is None:
            continue
        pos = set()
        negs = 0
        for sbb, allowed, allv in dt.edge_conditions(cfg, bb):
            atom = dt.switch_atom(body, sbb)
            if atom[0] == "call":
                se = dt.str_eq_const(body, atom[1])
                if se:
                    pol = dt.bool_polarity(allowed)
                    if atom[1]["call"]["name"] == "ne" and pol is not None:
                        pol = not pol
                    if pol:
                        pos.add(se[1])
                    else:
                        negs += 1
        if len(pos) == 1:
            table.setdefault(next(iter(pos)), []).append(v)
        elif not pos:
            fall.append((v, negs))
    return table, fall


def agg_leaf(adt_path):
    def leaf(body, bb):
        for s in body.blocks[bb]["s"]:
            if "d" in s and s["r"].get("agg") == "adt" and s["r"]["adt"] == adt_path:
                return s["r"]["variant"]
        return None
    return leaf


class GenEnum:
    pass


def find_enums(ct, F):
    """generated Conjure enums: local enums with an inherent as_str and a FromStr impl"""
    out = []
    for path, a in sorted(ct.adts.items()):
        if not a.get("local") or a["kind"] != "enum" or not instance.config_of(path):
            continue
        as_str = [b for b in ct.bodies if b.name == "as_str" and b.impl and not b.trait and ty_adt(b.self_ty) == path]
        from_str = [b for b in ct.bodies if b.trait == "core::str::traits::FromStr" and ty_adt(b.self_ty) == path and b.name == "from_str"]
        if len(as_str) == 1 and len(from_str) == 1:
            e = GenEnum()
            e.path, e.adt, e.as_str, e.from_str = path, a, as_str[0], from_str[0]
            e.config = instance.config_of(path)
            tab, wild, names = c17.const_returns_by_variant(as_str[0], F, path)
            e.names = names
            e.as_table = {v: next(iter(s)) for v, s in tab.items() if len(s) == 1}
            e.as_wild = wild
            out.append(e)
    return out


def unknown_variant_of(ct, F, adt):
    """variant whose payload (through local newtypes) is conjure_object::private::Variant, or a struct {type_, value: Any}"""
    res = []
    for v in adt["variants"]:
        if len(v["fields"]) != 1:
            continue
        t = v["fields"][0]["ty"]
        seen = 0
        while t and seen < 4:
            seen += 1
            p = t.get("adt")
            if p == VARIANT:
                res.append((v["name"], "enum-unknown"))
                break
            if p == "alloc::boxed::Box":
                t = t["args"][0]
                continue
            a = ct.adts.get(p) if p else None
            if not a or not a.get("local") or a["kind"] != "struct":
                break
            fs = a["variants"][0]["fields"]
            if len(fs) == 1:
                t = fs[0]["ty"]
                continue
            if len(fs) == 2 and sorted(short_ty(f["ty"]) for f in fs) == sorted(["Box<str>", ANY]):
                res.append((v["name"], "union-unknown"))
            break
    return res


def short_ty(t):
    if t.get("adt") == "alloc::boxed::Box":
        return "Box<" + tystr(t["args"][0]) + ">"
    return tystr(t)


class GenUnion:
    pass


def find_unions(ct, F):
    """generated Conjure unions: local enums with a hand-written Serialize writing a "type" entry"""
    out = []
    for path, a in sorted(ct.adts.items()):
        if not a.get("local") or a["kind"] != "enum" or not instance.config_of(path):
            continue
        ser = [b for b in ct.bodies if b.trait == "serde_core::ser::Serialize" and ty_adt(b.self_ty) == path and b.name == "serialize"]
        if len(ser) != 1:
            continue
        b = ser[0]
        entries = [(bb, t) for bb, t in b.calls() if t["call"]["name"] == "serialize_entry"]
        keys = [dt.resolve_const(b, t["args"][1]) for bb, t in entries]
        empty = not a["variants"] and any(x.trait == "serde_core::de::Visitor" and x.name == "visit_map" and tystr(x.local_ty(0)).startswith("core::result::Result<" + path) for x in ct.bodies)
        if not empty and not any(k and k.get("str") == "type" for k in keys):
            continue
        u = GenUnion()
        u.path, u.adt, u.ser = path, a, b
        u.config = instance.config_of(path)
        u.names = [v["name"] for v in a["variants"]]
        cfg = CFG(b)
        arms = {}
        for bb, t in entries:
            for sbb, allowed, allv in dt.edge_conditions(cfg, bb):
                atom = dt.switch_atom(b, sbb)
                if atom[0] == "discr" and ty_adt(dt.place_ty(b, F, atom[1]) or {}) == path:
                    vs = dt.allowed_variants(allowed, allv, u.names)
                    if len(vs) == 1:
                        arms.setdefault(next(iter(vs)), []).append((bb, t))
        if len(u.names) == 1:
            arms = {u.names[0]: entries}
        u.arms = arms
        de = [x for x in ct.bodies if x.trait == "serde_core::de::Visitor" and x.name == "visit_map" and tystr(x.local_ty(0)).startswith("core::result::Result<" + path)]
        u.visit_map = de[0] if len(de) == 1 else None
        # the Variant_ classifier: a visit_str returning Result<LocalEnum,_> in the same module
        mod = path.rsplit("::", 1)[0]
        vs = [x for x in ct.bodies if x.trait == "serde_core::de::Visitor" and x.name == "visit_str" and x.id.startswith(mod + "::") and
              (ty_adt((x.local_ty(0).get("args") or [{}])[0]) or "").startswith(mod + "::") and ty_adt((x.local_ty(0).get("args") or [{}])[0]) != path]
        u.variant_visit = vs[0] if len(vs) == 1 else None
        u.variant_adt = ty_adt(vs[0].local_ty(0)["args"][0]) if len(vs) == 1 else None
        out.append(u)
    return out


def ir_enum_for(ir, values):
    m = [k for k, (kind, d) in ir.types.items() if kind == "enum" and {v["value"] for v in d["values"]} == set(values)]
    return m[0] if len(m) == 1 else None


def ir_union_for(ir, members):
    m = [k for k, (kind, d) in ir.types.items() if kind == "union" and {f["fieldName"] for f in d["union"]} == set(members)]
    return m[0] if len(m) == 1 else None


def _syms(v, out):
    if isinstance(v, tuple):
        if v and v[0] == "sym":
            out.add(v[1])
        for x in v[1:]:
            if isinstance(x, (tuple, list)):
                for y in (x if isinstance(x, list) else [x]):
                    _syms(y, out)
    elif isinstance(v, list):
        for y in v:
            _syms(y, out)
    return out


def structural_eq(ct, F, adt_path):
    """None if `<adt as PartialEq>::eq` is structural over the variants (different variants unequal, same variant equal iff
    the payloads are — decided by constant propagation over every pair of variants), else a witness string."""
    from . import minterp
    eqs = [b for b in ct.bodies if b.trait == "core::cmp::PartialEq" and ty_adt(b.self_ty) == adt_path and b.name == "eq"]
    if len(eqs) != 1:
        return f"{adt_path} has {len(eqs)} PartialEq::eq impls"
    a = F.adt(adt_path)
    I = minterp.Interp(F, ct)
    nv = len(a["variants"])
    for i in range(nv):
        for j in range(nv):
            va = minterp.adt(adt_path, i, [("sym", f"a{k}") for k in range(len(a["variants"][i]["fields"]))])
            vb = minterp.adt(adt_path, j, [("sym", f"b{k}") for k in range(len(a["variants"][j]["fields"]))])
            try:
                r = I.run(eqs[0], [va, vb])
            except minterp.Unsupported as e:
                return f"eq({a['variants'][i]['name']}, {a['variants'][j]['name']}) left the analysable fragment: {e}"
            if i != j:
                if r is not False:
                    return f"eq({a['variants'][i]['name']}, {a['variants'][j]['name']}) = {minterp.show(I, r)} (must be false)"
            elif not a["variants"][i]["fields"]:
                if r is not True:
                    return f"eq({a['variants'][i]['name']}, same) = {minterp.show(I, r)} (must be true)"
            else:
                sy = _syms(r, set())
                if not (isinstance(r, tuple) and r and r[0] == "call" and "PartialEq" in r[1] and {"a0", "b0"} <= sy):
                    return f"eq of two {a['variants'][i]['name']} values = {minterp.show(I, r) if not isinstance(r, bool) else r}: must compare the payloads"
    return None


def injective_name_fn(ct, F, fn_body, adt_path):
    """None if fn(&Variant) -> &str maps different values to different strings (payload-less variants: distinct constants;
    payload variants: a payload-derived result), else a witness."""
    from . import minterp
    a = F.adt(adt_path)
    I = minterp.Interp(F, ct)
    seen = {}
    for i, v in enumerate(a["variants"]):
        val = minterp.adt(adt_path, i, [("sym", f"p{k}") for k in range(len(v["fields"]))])
        try:
            r = I.run(fn_body, [val])
        except minterp.Unsupported as e:
            return f"{fn_body.name}({v['name']}) left the analysable fragment: {e}"
        if v["fields"]:
            if not _syms(r, set()):
                return f"{fn_body.name}({v['name']}(..)) = {r!r} for every payload: different {v['name']} values are indistinguishable"
        else:
            if not isinstance(r, str) or r in seen:
                return f"{fn_body.name}({v['name']}) = {r!r} collides or is not a constant"
            seen[r] = v["name"]
    return None


def union_agreement(u, ct, F):
    """Member-first order of a generated union's visit_map: after the member's value, the "type" entry is read as a Variant_
    and the document is accepted only on the 'equal' edge of a comparison between the member's variant and the type's variant
    that distinguishes all values (structural PartialEq on Variant_, or an injective naming function on both sides).
    Returns (instances, problems)."""
    b = u.visit_map
    if b is None or u.variant_adt is None:
        return [], []
    a = F.adt(u.variant_adt)
    if a is None or not a["variants"]:
        return [], []
    cfg = CFG(b)
    vt = dt.value_tracer(b)
    tkeys = [(bb, t) for bb, t in b.calls() if t["call"]["name"] == "next_key" and any((ty_adt(x) or "").endswith("::UnionTypeField_") for x in t["call"].get("substs") or [])]
    fkeys = [(bb, t) for bb, t in b.calls() if t["call"]["name"] == "next_key" and any((ty_adt(x) or "").endswith("::UnionField_") for x in t["call"].get("substs") or [])]
    nvs = [(bb, t) for bb, t in b.calls() if t["call"]["name"] == "next_value" and any(ty_adt(x) == u.variant_adt for x in t["call"].get("substs") or [])
           and any(cfg.dominates(kb, bb) for kb, _ in tkeys)]
    problems, inst = [], []
    if len(tkeys) != 1 or len(nvs) != 1 or not fkeys:
        return [], [("anchor", f"member-first order: expected one `type` key read followed by one Variant_ read, found {len(tkeys)} / {len(nvs)}")]
    nbb, nt = nvs[0]
    cmps = [(bb, t) for bb, t in b.calls() if t["call"]["def"] in ("core::cmp::PartialEq::ne", "core::cmp::PartialEq::eq") and cfg.dominates(nbb, bb)]
    oks = dt.ok_return_blocks(b)
    good = None
    why = "no comparison between the member's variant and the `type` value guards the accepted path"
    for cbb, ct_ in cmps:
        # the accepted path lies on the 'equal' edge only: no Ok return is reachable from the 'different' edge
        sw = ct_.get("target")
        atom = dt.switch_atom(b, sw) if sw is not None and "switch" in b.blocks[sw]["t"] else None
        if not atom or atom[0] != "call" or atom[1] is not ct_:
            why = "the result of the comparison is not branched on"
            continue
        st_ = b.blocks[sw]["t"]
        zero = dict((v, tg) for v, tg in st_["targets"]).get(0)
        if zero is None:
            why = "the result of the comparison is branched on in an unusual way"
            continue
        true_t, false_t = st_["otherwise"], zero
        diff_t, same_t = (true_t, false_t) if ct_["call"]["name"] == "ne" else (false_t, true_t)
        okbbs = {okbb for okbb, _, _s in oks}
        if okbbs & set(cfg.reachable_from(diff_t)) or not okbbs & set(cfg.reachable_from(same_t)):
            why = "the document is still accepted when the comparison reports a difference"
            continue
        st = strip_refs((ct_["call"].get("substs") or [{}])[0])
        ops = ct_["args"][:2]
        def from_type(op):
            return dt.derives_from_call(b, op, nbb, vt)
        def from_member(op):
            return any(dt.derives_from_call(b, op, kb, vt) for kb, _ in fkeys)
        if ty_adt(st) == u.variant_adt:
            if not ((from_type(ops[0]) and from_member(ops[1])) or (from_type(ops[1]) and from_member(ops[0]))):
                why = "the compared Variant_ values are not the member's variant and the `type` value"
                continue
            w = structural_eq(ct, F, u.variant_adt)
            if w:
                why = f"Variant_'s equality does not distinguish all values: {w}"
                continue
            good = "Variant_ == Variant_ (structural equality, all variant pairs evaluated)"
        else:
            # comparison of names: both operands are results of one local naming function applied to the two values
            tr = Tracer(b, through_calls=False)
            gcalls = []
            for op in ops:
                cs = [s_ for s_ in (x if x[0] != "field" else x[1] for x in tr.sources(op)) if s_[0] == "call"]
                gcalls.append([b.blocks[s_[1]]["t"] for s_ in cs])
            if not all(len(g) == 1 and g[0]["call"].get("local") for g in gcalls) or gcalls[0][0]["call"].get("id") != gcalls[1][0]["call"].get("id"):
                why = f"the comparison is on {tystr(st)} values that are not the two variants themselves"
                continue
            g0, g1 = gcalls[0][0], gcalls[1][0]
            if not ((from_type(g0["args"][0]) and from_member(g1["args"][0])) or (from_type(g1["args"][0]) and from_member(g0["args"][0]))):
                why = "the compared names are not those of the member's variant and of the `type` value"
                continue
            gb = ct.body(g0["call"]["id"])
            w = injective_name_fn(ct, F, gb, u.variant_adt) if gb is not None else "naming function not found"
            if w:
                why = f"type and member are compared through `{g0['call']['name']}`, which does not distinguish all variants: {w}"
                continue
            good = f"{g0['call']['name']}(member) == {g0['call']['name']}(type) with an injective naming function"
    if good:
        inst.append(good)
        # the member's variant must still be what was read when it is compared: no mutable access to it in between
        # (`std::mem::take(&mut name)` while building the value leaves an emptied name that never equals the `type` entry)
        mv = set()
        for kb, kt in fkeys:
            dl = place_local(kt["dest"])
            for x in range(len(b.d["locals"])):
                if x != dl and dt.derives_from_call(b, {"cp": x}, kb, vt) and ty_adt(strip_refs(b.local_ty(x) or {})) == u.variant_adt:
                    mv.add(x)
        muts = []

        def mutated_through(ref_local, seen_):
            """the mutable reference (or a reborrow / projection of it) is handed to a call or written through"""
            if ref_local in seen_:
                return None
            seen_.add(ref_local)
            for ubb, uj, it in dt.uses_of_local(b, ref_local):
                if uj == "T":
                    if "call" in it:
                        return it.get("ln")
                    continue
                r2 = it["r"]
                if ("ref" in r2 and r2.get("mut")) or "use" in r2:
                    hit = mutated_through(place_local(it["d"]), seen_)
                    if hit:
                        return hit
            for bb2, j2, s2 in b.stmts():
                if not isinstance(s2["d"], int) and s2["d"]["l"] == ref_local and "*" in s2["d"]["p"]:
                    return s2["ln"]
            return None
        for bb_, j_, s_ in b.stmts():
            r_ = s_["r"]
            if r_.get("mut") and "ref" in r_ and place_local(r_["ref"]) in mv and cfg.dominates(fkeys[0][0], bb_):
                hit = mutated_through(place_local(s_["d"]), set())
                if hit:
                    muts.append(hit)
            if not isinstance(s_["d"], int) and s_["d"]["p"] and place_local(s_["d"]) in mv and cfg.dominates(fkeys[0][0], bb_):
                muts.append(s_["ln"])
        if muts:
            problems.append(("member-variant-mutated", f"the member's variant value is mutably accessed (lines {sorted(set(muts))[:4]}) between being read and being compared with the `type` entry: the comparison no longer sees the name that was read"))
    else:
        problems.append(("member-first-agreement", why))
    return inst, problems
