#!/bin/bash
# usage: tools/keep_benign.sh <name> <props-comma> <description...>   — snapshot the diff of /tmp/bw as benign/<name>, then reset /tmp/bw
set -e
name=$1; props=$2; shift 2
mkdir -p /verif/benign/$name
git -C /tmp/bw add -A -N .
git -C /tmp/bw diff > /verif/benign/$name/patch.diff
python3 - "$name" "$props" "$*" <<'PY'
import json,sys
json.dump({"properties": sys.argv[2].split(","), "description": sys.argv[3], "expectation": "behaviour-preserving for the listed properties: every claimed check must stay silent"}, open(f"/verif/benign/{sys.argv[1]}/meta.json","w"), indent=1)
PY
git -C /tmp/bw reset -q --hard HEAD; git -C /tmp/bw clean -fdq -e target
echo kept benign/$name $(wc -l < /verif/benign/$name/patch.diff) lines
