"""C02 — generated types read and write the Conjure wire format for every definition (partial)."""
import json, os
from ..facts import ty_adt, tystr, walk_ty, place_local, place_proj, op_place, strip_refs
from ..cfg import CFG, Tracer
from .. import dt, inline, instance, gentypes, minterp, core
from . import c17

TY = "conjure_codegen::types::type_::Type"
PT = "conjure_codegen::types::primitive_type::PrimitiveType"
TD = "conjure_codegen::types::type_definition::TypeDefinition"

EXPLANATION = (
    "PARTIAL: acceptance / rejection of documents rests on serde-derive and serde_json semantics and on IR shapes beyond the tables; "
    "rejection of malformed primitives is inherited from C15 (safelong), C16 (rid, bearer token), C10 (enum names), C01 (Base64, "
    "non-finite doubles). Decided: (R2.1) the generator's type predicates as decision tables over the 7 type constructors x 11 "
    "primitives, extracted from MIR by constant propagation, against the wire specification (optional/list/set/map are omittable "
    "and defaulted, everything else required, alias and external transparent) and sibling agreement is_required == no emptiness "
    "method; (R2.2) the field-attribute decisions of the object generator by template conditions: rename on every path, "
    "skip_serializing_if exactly under !serialize_empty_collections and an emptiness method, default exactly under !is_required, "
    "aliases transparent; (R2.3) the generated instance against the IR in both configurations: every object's derived Serialize "
    "passes exactly the IR field names in IR order with an emptiness guard iff the dealiased type is optional/collection, its "
    "Deserialize knows exactly the IR names and raises missing_field exactly for required fields, enums serialize the IR value "
    "strings, aliases delegate to the aliased type, unions are decided by C10's tables, and the discriminator key is the one "
    "constant \"type\" in the generated serializers and in conjure_object's field visitors.")


def run(ctx):
    ctx.explanation = EXPLANATION
    ctx.assumptions = ["serde-derive semantics of rename / default / skip_serializing_if / transparent / untagged", "serde_json rejects JSON kind mismatches"]
    F = ctx.F
    cg = F.crate("conjure_codegen")
    ctx.units["conjure_codegen bodies"] = len(cg.bodies)
    spec = json.load(open(os.path.join(core.VERIF, "spec", "wire_tables.json")))
    I = minterp.Interp(F, cg, inline=lambda d, i: False)
    I.loop_recurse = TY
    tyv = [v["name"] for v in F.adt(TY)["variants"]]
    ctxb = {b.name: b for b in cg.bodies if b.impl and not b.trait and (ty_adt(b.self_ty) or "") == "conjure_codegen::context::Context" and b.kind == "assoc_fn"}
    # ---------------- R2.1
    tables = {}
    for pred, rows in spec["predicates"].items():
        b = ctxb.get(pred)
        if b is None:
            ctx.violation("R2.1", "conjure_codegen", f"{pred}|anchor", f"Context::{pred} not found")
            continue
        nargs = b.argc
        got = {}
        for k, vn in enumerate(tyv):
            payload = [("sym", "p")] * len(F.adt(TY)["variants"][k]["fields"])
            args = [("sym", "self")] + [("sym", f"a{j}") for j in range(nargs - 2)] + [minterp.adt(TY, k, payload)]
            try:
                r = I.run(b, args)
                got[vn] = classify(I, r, pred)
            except minterp.Unsupported as e:
                got[vn] = f"unsupported({e})"
        tables[pred] = got
        for vn, exp in rows.items():
            if vn.startswith("_") or exp == "see reference_rows":
                continue
            ok = got.get(vn) == exp or (isinstance(exp, list) and got.get(vn) in exp)
            ctx.check(ok, "R2.1", b.loc(), f"{pred}|{vn}", f"Context::{pred}({vn}) = {got.get(vn)}; wire specification: {exp} ({rows.get('_why', '')})", instance=f"{pred}({vn}) = {got.get(vn)}")
    # primitive rows
    for pred, tab in (("is_default", "default_primitives"), ("is_binary", "binary_primitives"), ("is_double", "double_primitives")):
        b = ctxb.get(pred)
        if b is None:
            continue
        prim = [v["name"] for v in F.adt(PT)["variants"]]
        k_prim = tyv.index("Primitive")
        for j, pn in enumerate(prim):
            if pn not in spec[tab]:
                continue
            try:
                r = I.run(b, [("sym", "self"), minterp.adt(TY, k_prim, [minterp.adt(PT, j, [("sym", "x")] * len(F.adt(PT)["variants"][j]["fields"]))])])
                if isinstance(r, tuple) and r and r[0] == "call":
                    r = classify(I, r, pred)       # (a thin wrapper over an associated function: its table)
            except minterp.Unsupported as e:
                r = f"unsupported({e})"
            ctx.check(r == spec[tab][pn], "R2.1", b.loc(), f"{pred}|primitive|{pn}", f"{pred}({pn}) = {r}; specification {spec[tab][pn]}", instance=f"{pred}({pn}) = {r}")
    # sibling agreement
    if "is_required" in tables and "is_empty_method" in tables:
        for vn in ("Primitive", "Optional", "List", "Set", "Map"):
            a, e = tables["is_required"].get(vn), tables["is_empty_method"].get(vn)
            ctx.check((a is True and e == "None") or (a is False and e == "Some"), "R2.1", ctxb["is_required"].loc(), f"siblings|{vn}", f"is_required({vn}) = {a} but is_empty_method({vn}) = {e}: a type is required exactly when it has no emptiness method",
                      instance=f"{vn}: required={a} / emptiness={e}")
    # named types: an alias is transparent (recursion on its target), every other definition is terminal — evaluated holistically
    # (helpers inlined), so merging / splitting the *_ref helper functions does not change the verdict
    tdn = [v["name"] for v in F.adt(TD)["variants"]]
    kref = tyv.index("Reference")
    preds = set(spec["predicates"])
    for pred, rows in spec["reference_rows"].items():
        if pred.startswith("_"):
            continue
        b = ctxb.get(pred)
        if b is None:
            continue
        for vi, vn in enumerate(tdn):
            I2 = minterp.Interp(F, cg, inline=lambda d_, rid, bid=b.id: rid != bid and rid.startswith("conjure_codegen::context::") and rid.split("::")[-1] not in preds, max_depth=4)
            I2.oracle = {TD: vi}
            I2.loop_recurse = TY
            args = [("sym", "self")] + [("sym", f"a{j}") for j in range(b.argc - 2)] + [minterp.adt(TY, kref, [("sym", "name")])]
            try:
                got_ = classify(I2, I2.run(b, args), pred)
            except minterp.Unsupported as e:
                got_ = f"unsupported({e})"
            exp = rows.get(vn)
            if exp == "recurse(alias-target)":
                ok = isinstance(got_, str) and got_.startswith("recurse(") and "alias" in got_ and "name" in got_
            else:
                ok = got_ == exp and type(got_) == type(exp)
            ctx.check(ok, "R2.1", b.loc(), f"{pred}|Reference|{vn}", f"Context::{pred}(Reference to {vn}) = {got_}; wire specification: {exp} (aliases are transparent, other named types terminal)",
                      instance=f"{pred}(Reference -> {vn}) = {got_}")
    # ---------------- R2.2 templates
    tm = F.tmpl()
    if tm is not None:
        seen = {}
        for fn in tm["functions"]:
            if fn["file"].endswith("conjure-codegen/src/objects.rs"):
                for q in fn["quotes"]:
                    txt = q["text"].replace(" ", "")
                    conds = [c_.replace(" ", "") for c_ in q["conds"]]
                    if txt.startswith("rename="):
                        seen["rename"] = (fn, q, conds)
                    elif txt.startswith("skip_serializing_if="):
                        seen["skip"] = (fn, q, conds)
                    elif txt == "default":
                        seen["default"] = (fn, q, conds)
            if fn["file"].endswith("conjure-codegen/src/aliases.rs"):
                for q in fn["quotes"]:
                    if "transparent" in q["text"] and "serde" in q["text"]:
                        seen["transparent"] = (fn, q, [c_.replace(" ", "") for c_ in q["conds"]])
        def where(k):
            fn, q, _ = seen[k]
            return f"{fn['file']}:{q['line']}"
        ctx.check("rename" in seen and not seen["rename"][2], "R2.2", where("rename") if "rename" in seen else "objects.rs", "attr|rename", "the serde rename attribute (wire field name) must be emitted unconditionally", instance="rename: unconditional")
        def consults(fn, names):
            """which of `names` the function emitting the template calls (its private helpers and closures included)"""
            gb = [x for x in cg.bodies if x.kind in ("fn", "assoc_fn") and x.name == fn["name"] and x.file.endswith(fn["file"].split("/src/")[-1])]
            called = set()
            for g in gb:
                eb, fam = inline.expanded_family(cg, g, depth=3, pred=lambda cb: cb.d.get("vis") != "pub" or cb.id.startswith("conjure_codegen::objects::"))
                for x in fam:
                    for _, t in x.calls():
                        if t["call"]["name"] in names:
                            called.add(t["call"]["name"])
                # the decision may be taken by the caller and handed down as a parameter (`serde_field_attr(field, is_empty, required)`)
                for y in cg.bodies:
                    if any(t["call"].get("id") == g.id for _, t in y.calls()):
                        root = cg.body(y.d.get("root")) if y.kind == "closure" and y.d.get("root") else y
                        for z in [root] + cg.closures_of(root):
                            for _, t in z.calls():
                                if t["call"]["name"] in names:
                                    called.add(t["call"]["name"])
            return called

        def guard_verdict(k, strict, mentions):
            """ok / violation / unrecognised(None) for the syntactic conditions of a template"""
            if k not in seen:
                return False, "template not found"
            conds = seen[k][2]
            if strict(conds):
                return True, ""
            if any(m_ in c_ for c_ in conds for m_ in mentions):
                return False, f"conditions: {conds}"
            missing = set(mentions) - consults(seen[k][0], set(mentions))
            if missing:
                return False, f"the emitting function never consults {sorted(missing)}"
            return None, f"conditions {conds}: the decision is taken outside the template's syntactic conditions (helper / Option value)"
        v, why = guard_verdict("skip", lambda cs: len(cs) == 2 and any(c_.startswith("if!ctx.serialize_empty_collections()") for c_ in cs) and any("is_empty_method(" in c_ and c_.startswith("ifletSome(") for c_ in cs),
                               ("serialize_empty_collections", "is_empty_method"))
        if v is None:
            ctx.note(f"R2.2 skip_serializing_if: shape not recognised, no verdict at generator level ({why}); decided on the generated instance by R2.3")
        else:
            ctx.check(v, "R2.2", where("skip") if "skip" in seen else "objects.rs", "attr|skip_serializing_if", f"skip_serializing_if must be emitted exactly under !serialize_empty_collections && is_empty_method is Some ({why})",
                      instance="skip_serializing_if: !serialize_empty_collections && Some(is_empty)")
        v, why = guard_verdict("default", lambda cs: cs in (["if!ctx.is_required(field.type_())"], ["elseofifctx.is_required(field.type_())"]), ("is_required",))
        if v is None:
            ctx.note(f"R2.2 default: shape not recognised, no verdict at generator level ({why}); decided on the generated instance by R2.3")
        else:
            ctx.check(v, "R2.2", where("default") if "default" in seen else "objects.rs", "attr|default", f"`default` must be emitted exactly under !is_required(field type) ({why})", instance="default: !is_required")
        ctx.check("transparent" in seen and not seen["transparent"][2], "R2.2", where("transparent") if "transparent" in seen else "aliases.rs", "attr|transparent", "aliases must be serde(transparent) unconditionally", instance="alias: transparent")
    # ---------------- R2.3 instance
    ct = F.crate("conjure_test")
    ir = instance.IR()
    ir_objects = {k: d for k, (kind, d) in ir.types.items() if kind == "object"}
    ir_aliases = {k: d for k, (kind, d) in ir.types.items() if kind == "alias"}
    ir_enums = {k: d for k, (kind, d) in ir.types.items() if kind == "enum"}
    sers = [b for b in ct.bodies if b.trait == "serde_core::ser::Serialize" and b.name == "serialize" and instance.config_of(b.id) and "serde::Serialize" in str(b.d.get("x") or "")]
    joined = set()
    nobj = 0
    for b in sers:
        path = ty_adt(b.self_ty)
        a = ct.adts.get(path)
        if a is None or not a.get("local"):
            continue
        cfgname = instance.config_of(b.id)
        if a["kind"] == "struct" and any(t["call"]["name"] == "serialize_struct" for _, t in b.calls()):
            # ---- object
            nm = [instance.const_str_arg(b, t["args"][1]) for _, t in b.calls() if t["call"]["name"] == "serialize_struct"][0]
            cfg = CFG(b)
            fields = []
            for bb, t in sorted(b.calls(), key=lambda x: x[0]):
                if t["call"]["name"] == "serialize_field" and t["call"]["def"].startswith("serde_core::ser::SerializeStruct"):
                    guarded = False
                    for sbb, allowed, allv in dt.edge_conditions(cfg, bb):
                        atom = dt.switch_atom(b, sbb)
                        if atom[0] == "call" and atom[1]["call"]["name"] in ("is_none", "is_empty") and dt.bool_polarity(allowed) is False:
                            guarded = True
                    fields.append((instance.const_str_arg(b, t["args"][1]), guarded))
            names = [f for f, _ in fields]
            cands = [k for k, d in ir_objects.items() if [f["fieldName"] for f in d["fields"]] == names]
            if len(cands) > 1:
                cands = [k for k in cands if k[1] == nm] or cands
            err_obj = [e for e in ir.doc["errors"] if [f["fieldName"] for f in e["safeArgs"] + e["unsafeArgs"]] == names and e["errorName"]["name"] == nm]
            if err_obj and len(cands) != 1:
                continue  # error parameter objects (C17)
            if len(cands) != 1:
                if "::builder" in path or path.endswith("Stage"):
                    continue
                ctx.violation("R2.3", b.loc(), f"{path}|ir-join", f"{path}: serialized field names {names} match {len(cands)} IR objects")
                continue
            k = cands[0]
            joined.add((cfgname, k))
            nobj += 1
            d = ir_objects[k]
            who = f"{cfgname}/{k[1]}"
            for (fname, guarded), f in zip(fields, d["fields"]):
                omittable = ir.dealias(f["type"])["type"] in ("optional", "list", "set", "map")
                ctx.check(guarded == omittable, "R2.3", b.loc(), f"{path}|guard|{fname}", f"{who}.{fname}: emptiness guard on serialization = {guarded}, but the field's wire type is {'omittable' if omittable else 'required'} (absent/empty values must be omitted, required ones always written)",
                          instance=f"{who}.{fname}: {'omitted when empty' if omittable else 'always written'}")
            # Deserialize side
            mod = path.rsplit("::", 1)[0]
            vm = [x for x in ct.bodies if x.name == "visit_map" and x.trait == "serde_core::de::Visitor" and x.id.startswith(mod + "::_") and tystr(x.local_ty(0)).startswith("core::result::Result<" + path + ",")]
            if len(vm) != 1:
                ctx.violation("R2.3", b.loc(), f"{path}|derive-visit_map", f"{who}: derived visit_map not found ({len(vm)})")
                continue
            missing = sorted(instance.const_str_arg(vm[0], t["args"][0]) for _, t in vm[0].calls() if t["call"]["name"] == "missing_field")
            want_missing = sorted(f["fieldName"] for f in d["fields"] if ir.dealias(f["type"])["type"] not in ("optional", "list", "set", "map"))
            ctx.check(missing == want_missing, "R2.3", vm[0].loc(), f"{path}|missing_field", f"{who}: missing_field is raised for {missing}; required fields per IR: {want_missing}", instance=f"{who}: required = {want_missing}")
            fc = [x for x in ct.bodies if x.kind == "const" and x.name == "FIELDS" and x.id.startswith(mod + "::_") and path.split("::")[-1] + ">" in x.path]
            if fc:
                arr = c17.promoted_str_array(fc[0], c17.first_ret_operand(fc[0]))
                ctx.check(arr == names, "R2.3", fc[0].loc(), f"{path}|FIELDS", f"{who}: deserializer field table {arr} != IR names {names}", instance=f"{who}: FIELDS = {names}")
        elif a["kind"] == "enum":
            vals = [instance.const_str_arg(b, t["args"][3]) for bb, t in sorted(b.calls(), key=lambda x: x[0]) if t["call"]["name"] == "serialize_unit_variant"]
            if not vals:
                continue
            k = gentypes.ir_enum_for(ir, vals)
            ctx.check(k is not None, "R2.3", b.loc(), f"{path}|enum-values", f"{path}: unit variants serialize as {vals}, which matches no IR enum's value set", instance=f"{cfgname}/{path.split('::')[-1]}: serializes {vals}")
            if k:
                joined.add((cfgname, k))
        elif a["kind"] == "struct" and len(a["variants"][0]["fields"]) == 1:
            # ---- alias (transparent newtype)
            inner = a["variants"][0]["fields"][0]["ty"]
            calls = [t for _, t in b.calls() if t["call"]["def"] == "serde_core::ser::Serialize::serialize"]
            if len(calls) != 1:
                continue
            ok = tystr(strip_refs(calls[0]["call"]["substs"][0])) == tystr(inner)
            if path.endswith("::Unknown"):
                continue
            ctx.check(ok, "R2.3", b.loc(), f"{path}|alias-ser", f"{path}: Serialize must delegate to the aliased type {tystr(inner)}", instance=f"{cfgname}/{path.split('::')[-1]}: transparent over {tystr(inner)}")
    for cfgname in ("default", "exhaustive"):
        for k in list(ir_objects) + list(ir_enums):
            ctx.check((cfgname, k) in joined, "R2.3", "conjure_test", f"{cfgname}|{k[1]}|generated", f"IR type {k[1]} has no generated Serialize counterpart in the {cfgname} configuration", nontrivial=False)
    ctx.floor("R2.3", "generated objects joined with the IR", nobj, 2 * len(ir_objects))
    # aliases: count
    nalias = 0
    for path, a in ct.adts.items():
        if a.get("local") and instance.config_of(path) and a["kind"] == "struct" and len(a["variants"][0]["fields"]) == 1 and a["variants"][0]["fields"][0]["name"] == "0" and not path.endswith("::Unknown"):
            des = [x for x in ct.bodies if x.trait == "serde_core::de::Deserialize" and ty_adt(x.self_ty) == path and x.name == "deserialize"]
            if des:
                nalias += 1
                inner = a["variants"][0]["fields"][0]["ty"]
                calls = [t for x in [des[0]] + ct.closures_of(des[0]) for _, t in x.calls() if t["call"]["def"] == "serde_core::de::Deserialize::deserialize"]
                ctx.check(len(calls) == 1 and tystr(calls[0]["call"]["substs"][0]) == tystr(inner), "R2.3", des[0].loc(), f"{path}|alias-de", f"{path}: Deserialize must read the aliased type {tystr(inner)}", instance=f"{path.split('::', 1)[1]}: reads {tystr(inner)}")
    ctx.floor("R2.3", "generated aliases", nalias, 2 * len(ir_aliases))
    # discriminator constant
    co = F.crate("conjure_object")
    consts = set()
    nvis = 0
    for b in co.bodies:
        if b.name == "visit_str" and b.file.endswith("private.rs") and ("UnionField" in b.path or "UnionTypeField" in b.path):
            nvis += 1
            for i, blk in enumerate(b.blocks):
                if "call" in blk["t"]:
                    se = dt.str_eq_const(b, blk["t"]) if blk["t"]["call"]["def"].startswith("core::cmp::PartialEq") else None
                    if se:
                        consts.add(se[1])
    ser_consts = set()
    for u in gentypes.find_unions(ct, F):
        for vn, ents in u.arms.items():
            if ents:
                k0 = dt.resolve_const(u.ser, ents[0][1]["args"][1])
                if k0 and "str" in k0:
                    ser_consts.add(k0["str"])
    nun = 0
    for u in gentypes.find_unions(ct, F):
        if u.visit_map is None:
            continue
        insts, probs = gentypes.union_agreement(u, ct, F)
        who = f"{u.config}/{u.path.split('::')[-1]}"
        for x in insts:
            nun += 1
            ctx.ok("R2.3", u.visit_map.loc(), f"{who}: member-first document accepted only if {x}")
        for k_, w_ in probs:
            nun += 1
            ctx.violation("R2.3", u.visit_map.loc(), f"{u.path}|union|{k_}", f"{who}: a union document whose `type` and member disagree must be rejected in either member order — {w_}")
    ctx.floor("R2.3", "unions whose type/member agreement check was decided", nun, 4)
    ctx.check(consts == {"type"} and ser_consts <= {"type"} and nvis == 2 and ser_consts, "R2.3", "conjure-object/src/private.rs", "union|discriminator-constant",
              f"union discriminator key: written {sorted(ser_consts)}, matched by the field visitors {sorted(consts)}; must be the single constant \"type\" on both sides", instance="discriminator \"type\" on both sides")
    # ---------------- R2.4-R2.6 primitive validators shared with C15 / C16 / C10 (the documents C02 must accept / reject)
    from . import c15, c16, c10, c14
    from . import c01 as _c01
    ctx.include(_c01, {"R1.5"}, "R2.9", "doubles, binary and map keys must be written and read in the Conjure spellings (a double-keyed map, a binary field)")
    ctx.include(c10, {"R10.5"}, "R2.8", "generated enums must read and write the declared value names")
    ctx.include(c14, {"R14.3"}, "R2.7", "set elements / map keys that differ only in the length of a list<double> must stay distinct when a document is read (the order decides set membership)")
    ctx.include(c15, {"O2", "O3"}, "R2.4", "every safelong in [-(2^53-1), 2^53-1] must be accepted and everything outside rejected")
    ctx.include(c16, {"R16.2"}, "R2.5", "malformed bearer tokens / rids must be rejected and well-formed ones accepted")
    ctx.include(c10, {"R10.3"}, "R2.6", "malformed enum names must be rejected and well-formed ones accepted")


def classify(I, r, pred, depth=0):
    if isinstance(r, bool):
        return r
    if isinstance(r, tuple) and r and r[0] == "call" and depth < 3 and r[1].split("::")[-1] != pred and r[1].startswith("conjure_codegen::context::"):
        # a thin wrapper (`is_double(&self, ty) = Self::type_is_double(ty)`): the table is the callee's, whose self-recursion is
        # the wrapper's
        cbs = [x for x in I.crate.bodies if x.path == r[1] and x.kind in ("fn", "assoc_fn")]
        if len(cbs) == 1 and len(r[2]) == cbs[0].argc and any(minterp.is_adt(a_) for a_ in r[2]):
            try:
                return classify(I, I.run(cbs[0], list(r[2])), r[1].split("::")[-1], depth + 1)
            except minterp.Unsupported:
                pass
    if isinstance(r, tuple) and r and r[0] == "recurse":
        return "recurse(" + minterp.show(I, r[1]) + ")"
    if minterp.is_adt(r) and r[1] == "core::option::Option":
        return "None" if r[2] == 0 else "Some"
    if isinstance(r, tuple) and r and r[0] == "call":
        name = r[1].split("::")[-1]
        args = [minterp.show(I, x) for x in r[2]]
        if name == pred:
            return "recurse(" + (args[-1] if args else "") + ")"
        return "delegate:" + name
    return minterp.show(I, r)
