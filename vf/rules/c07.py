"""C07 — parameter values cannot alter the request URI structure and decode back exactly."""
import json, os
from ..facts import ty_adt, tystr, walk_ty, place_local, place_proj, op_place, strip_refs
from ..cfg import CFG, Tracer, thaw
from .. import dt, instance, core, inline
from . import c06

UB = "conjure_http::private::client::uri_builder::UriBuilder"
EXTEND = "bytes::bytes_mut::BytesMut::extend_from_slice"

EXPLANATION = (
    "Decides (R7.1) that the compiler-evaluated percent-encode sets (conjure_http's COMPONENT and the macro crate's copy) contain "
    "every byte that is structural or illegal in a path or query value for this repository's decoders (44 bytes, each with its "
    "reason in spec/uri_required.json; keys additionally '='); (R7.2) that in UriBuilder only the escaper writes value bytes: every "
    "BytesMut::extend_from_slice operand is a byte constant, an escaped chunk, or a 'raw' parameter — and the set of raw "
    "parameter positions computed from the MIR is exactly the one (R7.3) that all generated call sites feed with compile-time "
    "constants free of reserved bytes (literals '/'-led, no trailing '/', keys without '='); (R7.4) typestate of every generated "
    "client method: (literal | path-param)* (query-param)* build, build exactly once; (R7.5) the server decoders pair with the "
    "encoder (split on '/', percent_decode_str per segment; form_urlencoded::parse for the query); (R7.6) panic inventory of "
    "UriBuilder: debug assertions discharged by R7.3/R7.4 and the unwrap in build(), whose InvalidUriChar/Empty causes are "
    "excluded by R7.1-R7.3 while TooLong is NOT (known finding: URIs longer than 65534 bytes panic). NOT decided: "
    "percent-encoding's own correctness; decode(encode(s)) == s is then a library fact.")


def ascii_set_bits(hexmem):
    b = bytes.fromhex(hexmem)
    out = set()
    for i in range(128):
        word = int.from_bytes(b[(i // 32) * 4:(i // 32) * 4 + 4], "little")
        if word >> (i % 32) & 1:
            out.add(i)
    return out


def escaper_table(ctx, F, c, name, body, req):
    """The escaping function of UriBuilder evaluated (decision-table interpreter; strings, iterators and the byte buffer
    concrete, `utf8_percent_encode` modelled by its definition over the compiler-evaluated AsciiSet it is given) on probe
    values: every ASCII character alone and between two letters, non-ASCII text, the empty string, a mix of structural
    characters.  What it appends must (a) percent-decode to the value and (b) contain none of the bytes that must be encoded
    (spec/uri_required.json) nor any non-ASCII byte.  -> True / False (recorded) or None when a probe leaves the fragment."""
    from .. import minterp
    vi = [k for k in range(1, body.argc + 1) if tystr(strip_refs(body.local_ty(k))) == "str"]
    if len(vi) != 1:
        return None
    probes = ["", "plain-Value_1.0~", "a b", "a/b?c#d&e=f%g+h", "\u00e9", "x\u00e9y", "\U0001f600", "%41", "a%2Fb", "..", "/"]
    for k in range(128):
        probes += [chr(k), "a" + chr(k) + "b"]
    bad, n = [], 0
    for val in probes:
        out = bytearray()

        def oracle(f, argv, out=out):
            nm, dd = f.get("name"), f.get("def", "")
            if dd == "percent_encoding::utf8_percent_encode" and len(argv) == 2 and isinstance(argv[0], str) and isinstance(argv[1], tuple) and argv[1] and argv[1][0] == "mem":
                bits = ascii_set_bits(argv[1][1].hex())
                chunks, cur = [], ""
                for byte in argv[0].encode():
                    if byte >= 128 or byte in bits:
                        if cur:
                            chunks.append(cur)
                            cur = ""
                        chunks.append("%%%02X" % byte)
                    else:
                        cur += chr(byte)
                if cur:
                    chunks.append(cur)
                return ("iter", minterp._It(chunks))
            if nm in ("extend_from_slice", "put_slice", "put", "push_str") and len(argv) == 2 and ("BytesMut" in dd or "BufMut" in dd or "String" in dd or "Vec" in dd):
                b_ = minterp._bytes_of(argv[1])
                if b_ is None:
                    raise minterp.Unsupported("appends a value that is not concrete")
                out.extend(b_)
                return ("tuple", [])
            if nm in ("put_u8", "push") and len(argv) == 2 and isinstance(argv[1], int) and ("BytesMut" in dd or "BufMut" in dd or "Vec" in dd or "String" in dd):
                out.extend(chr(argv[1]).encode() if "String" in dd else bytes([argv[1]]))
                return ("tuple", [])
            if nm in ("reserve", "reserve_exact") and ("BytesMut" in dd or "BufMut" in dd or "Vec" in dd or "String" in dd):
                return ("tuple", [])
            return minterp.NO_VALUE
        I = minterp.Interp(F, c, inline=lambda d_, rid: rid.startswith("conjure_http::private::client::uri_builder::"), max_depth=4)
        I.call_oracle = oracle
        args = [("sym", f"a{k}") for k in range(1, body.argc + 1)]
        args[vi[0] - 1] = val
        try:
            I.run(body, args)
        except minterp.Unsupported:
            return None
        n += 1
        from urllib.parse import unquote_to_bytes
        import re as _re
        wrong = [x for x in _re.sub(rb"%[0-9A-Fa-f]{2}", b"", bytes(out)) if x in req or x >= 128]
        if unquote_to_bytes(bytes(out)) != val.encode():
            bad.append(f"{val!r} is written as {bytes(out)!r}, which decodes to {unquote_to_bytes(bytes(out))!r}")
        elif wrong:
            bad.append(f"{val!r} is written as {bytes(out)!r}: {[chr(x) if 32 < x < 127 else hex(x) for x in wrong[:4]]} must be percent-encoded")
    ctx.check(not bad, "R7.2", body.loc(), f"{name}|escaper-table", f"{name}: " + "; ".join(bad[:4]), instance=f"{name}: {n} probe values (every ASCII character, non-ASCII, structural mixes): output decodes to the value and contains no byte that must be encoded")
    return not bad


def uri_builder_methods(c):
    return {b.name: b for b in c.bodies if b.impl and not b.trait and ty_adt(b.self_ty) == UB and b.kind == "assoc_fn"}


def encode_sets(F, req, req_key):
    """Every AsciiSet that can reach a percent-encoding call of the client URI builder and of the client macro.  A set passed
    as a parameter is followed to the arguments of every caller inside UriBuilder.  Returns (escapers, sets, problems):
    escapers {method: (body, call)}, sets {label: (bits, required, where)}, problems [(where, key, message)]."""
    c = F.crate("conjure_http")
    cm = F.crate("conjure_macros")
    methods = uri_builder_methods(c)
    escapers, sets, problems = {}, {}, []

    def resolve(b, op, depth, trail):
        """list of (const, where-label) for operand `op` of body b"""
        cst = dt.resolve_const(b, op)
        if cst is not None and "mem" in cst:
            return [(cst, trail)]
        srcs = Tracer(b, through_calls=False, through_agg=False).sources(op)
        out = []
        for s_ in srcs:
            if s_[0] == "arg" and depth < 4:
                k = s_[1]
                callers = 0
                for nm, cb in methods.items():
                    for bb, t in cb.calls():
                        if t["call"].get("local") and ty_adt(t["call"].get("self_ty")) == UB and t["call"]["name"] == b.name and len(t["args"]) >= k:
                            callers += 1
                            out += resolve(cb, t["args"][k - 1], depth + 1, trail + [f"{nm} -> {b.name}"])
                if not callers:
                    return None
            else:
                return None
        return out or None

    spec = json.load(open(os.path.join(core.VERIF, "spec", "uri_required.json")))
    path_only = {int(k) for k in spec.get("path_only", {})}
    query_only = {int(k) for k in spec.get("query_only", {})}
    callers_of = {}
    for nm, cb in methods.items():
        for bb, t in cb.calls():
            if t["call"].get("local") and ty_adt(t["call"].get("self_ty")) == UB and t["call"]["name"] in methods:
                callers_of.setdefault(t["call"]["name"], set()).add(nm)

    def public_roots(name, seen=None):
        seen = seen or set()
        if name in seen:
            return set()
        seen.add(name)
        out = {name} if methods[name].d.get("vis") == "pub" else set()
        for cn in callers_of.get(name, ()):
            out |= public_roots(cn, seen)
        return out

    def needed(entry):
        """bytes required of a set that is reached from the public methods leading to `entry`"""
        ctxs = {"query" if "query" in r else "path" for r in public_roots(entry)} or {"path", "query"}
        need = set(req)
        if "path" not in ctxs:
            need -= path_only
        if "query" not in ctxs:
            need -= query_only
        return need, "+".join(sorted(ctxs))

    for name, b in methods.items():
        for bb, t in b.calls():
            if t["call"]["def"] in ("percent_encoding::utf8_percent_encode", "percent_encoding::percent_encode"):
                escapers[name] = (b, t)
                r = resolve(b, t["args"][1], 0, [])
                if r is None:
                    problems.append((b.loc(t["ln"]), f"{name}|set-const", "the percent-encode set passed to the percent-encoder cannot be resolved to compile-time constants (directly or through the arguments of every caller in UriBuilder)"))
                    continue
                for cst, trail in r:
                    need, cx = needed(trail[-1].split(" -> ")[0] if trail else name)
                    label = "conjure_http " + cst.get("item", "?") + (" via " + " / ".join(trail) if trail else "") + f" [{cx} values]"
                    sets[label] = (ascii_set_bits(cst["mem"]), need, b.loc(t["ln"]))
    for b in cm.bodies:
        for bb, t in b.calls():
            if t["call"]["def"] in ("percent_encoding::utf8_percent_encode", "percent_encoding::percent_encode"):
                cst = dt.resolve_const(b, t["args"][1])
                if cst is None or "mem" not in cst:
                    problems.append((b.loc(t["ln"]), f"{b.id}|set-const", "macro: percent-encode set is not a constant"))
                    continue
                sets[f"conjure_macros {cst.get('item', '?')} in {b.name}"] = (ascii_set_bits(cst["mem"]), req_key, b.loc(t["ln"]))
    return escapers, sets, problems


def load_required():
    spec = json.load(open(os.path.join(core.VERIF, "spec", "uri_required.json")))
    req = {int(k) for k in spec["required_value"]}
    return spec, req, req | {int(k) for k in spec["required_key_extra"]}


def missing_text(spec, missing):
    return "; ".join(f"{chr(x) if 32 < x < 127 else hex(x)}: {spec['required_value'].get(str(x)) or spec['required_key_extra'].get(str(x))}" for x in missing[:4])


def run(ctx):
    ctx.explanation = EXPLANATION
    ctx.assumptions = ["percent-encoding encodes exactly the bytes of the given AsciiSet plus all non-ASCII bytes; percent_decode / form_urlencoded invert it",
                       "http::Uri::from_maybe_shared accepts any string free of the listed bytes that starts with '/' and is shorter than 65535 bytes"]
    F = ctx.F
    spec = json.load(open(os.path.join(core.VERIF, "spec", "uri_required.json")))
    req = {int(k) for k in spec["required_value"]}
    req_key = req | {int(k) for k in spec["required_key_extra"]}
    c = F.crate("conjure_http")
    cm = F.crate("conjure_macros")
    ctx.units["conjure_http bodies"] = len(c.bodies)
    # ---------------- escaper and its set
    methods = {b.name: b for b in c.bodies if b.impl and not b.trait and ty_adt(b.self_ty) == UB and b.kind == "assoc_fn"}
    ctx.floor("R7.2", "UriBuilder methods", len(methods), 11)
    escapers, sets, problems = encode_sets(F, req, req_key)
    ctx.check(len(escapers) == 1, "R7.2", "conjure_http", "escaper|unique", f"expected exactly one escaping function in UriBuilder, found {sorted(escapers)}", nontrivial=False)
    for where, key, msg in problems:
        ctx.violation("R7.1", where, key, msg)
    ctx.floor("R7.1", "percent-encode set uses", len(sets), 2)
    for name, (bits, need, where) in sorted(sets.items()):
        missing = sorted(need - bits)
        ctx.check(not missing, "R7.1", where, f"{name.split(' in ')[0]}|sufficient",
                  f"{name}: the encode set lacks {[chr(x) if 32 < x < 127 else hex(x) for x in missing]} — " + "; ".join(f"{chr(x) if 32 < x < 127 else hex(x)}: {spec['required_value'].get(str(x)) or spec['required_key_extra'].get(str(x))}" for x in missing[:4]),
                  instance=f"{name}: {len(bits)} ASCII bytes encoded, superset of the {len(need)} required")
    # ---------------- R7.2 who writes what
    # per method: classification of each parameter: 'escaped' | 'raw' | 'unused'
    raw_pos = {}
    esc_name = next(iter(escapers), None)
    memo = {}
    esc_table = None
    if esc_name is not None and esc_name in methods:
        esc_table = escaper_table(ctx, F, c, esc_name, methods[esc_name], req)
        if esc_table is not None:
            # decided on values: whatever reaches the buffer from the escaper's value parameter is escaped text
            for k_ in range(2, methods[esc_name].argc + 1):
                if tystr(strip_refs(methods[esc_name].local_ty(k_))) == "str":
                    memo[(esc_name, k_)] = {"escaped"}

    def param_flows(name, k, depth=0):
        """set of {'raw','escaped'} describing how parameter k of method `name` reaches the buffer"""
        key = (name, k)
        if key in memo:
            return memo[key]
        memo[key] = set()
        b = methods[name]
        tr = Tracer(b, through_calls=True, through_agg=True)
        out = set()
        for bb, t in b.calls():
            d = t["call"]["def"]
            if d == EXTEND:
                srcs = tr.sources(t["args"][1])
                via_escaper = any(s[0] == "call" and b.blocks[s[1]]["t"]["call"]["def"] == "percent_encoding::utf8_percent_encode" for s in flat(srcs))
                if k in roots_of(tr, t["args"][1]) and not via_escaper:
                    out.add("raw")
            elif d == "percent_encoding::utf8_percent_encode":
                if k in roots_of(tr, t["args"][0]):
                    out.add("escaped")
            elif t["call"].get("local") and ty_adt(t["call"].get("self_ty")) == UB and t["call"]["name"] in methods and depth < 5:
                for j, a in enumerate(t["args"]):
                    if j == 0:
                        continue
                    if k in roots_of(Tracer(b, through_calls=True, through_agg=True, transparent=set(Tracer.TRANSPARENT) | {"conjure_object::plain::ToPlain::to_plain"}), a):
                        out |= param_flows(t["call"]["name"], j + 1, depth + 1)
        memo[key] = out
        return out

    for name, b in sorted(methods.items()):
        if b.d.get("vis") != "pub":
            continue
        for k in range(2, b.argc + 1):
            fl = param_flows(name, k)
            cls = "raw" if "raw" in fl else "escaped" if fl == {"escaped"} else "unused"
            raw_pos[(name, k)] = cls
            ctx.ok("R7.2", b.loc(), f"UriBuilder::{name} parameter #{k} ({b.local_name(k)}): {cls}")
    # every extend_from_slice operand is const / chunk of the escaper / raw parameter
    for name, b in sorted(methods.items()):
        tr = Tracer(b, through_calls=True, through_agg=True)
        for bb, t in b.calls():
            if t["call"]["def"] != EXTEND:
                continue
            kinds = set()
            for s in tr.sources(t["args"][1]):
                base = s
                while base[0] == "field":
                    base = base[1]
                if base[0] == "const":
                    kinds.add("const")
                elif base[0] == "arg":
                    kinds.add(f"param#{base[1]}")
                elif base[0] == "call":
                    kinds.add("call:" + b.blocks[base[1]]["t"]["call"]["name"])
                elif base[0] in ("local",):
                    kinds.add("local")
            params = {int(x[6:]) for x in kinds if x.startswith("param#")}
            if name in escapers and esc_table is not None:
                continue
            if name in escapers:
                ok = any(x == "call:utf8_percent_encode" for x in kinds)
                ctx.check(ok, "R7.2", b.loc(t["ln"]), f"{name}|writes-chunks", f"{name}: writes {sorted(kinds)}; the escaper must write only the chunks produced by utf8_percent_encode", instance=f"{name}: writes escaped chunks")
    # ---------------- R7.3 call sites of raw positions in generated code are constants
    ct = F.crate("conjure_test")
    cms = instance.client_methods(ct)
    ir = instance.IR()
    nsites = 0
    for m in cms:
        b = m.body
        key = f"{m.config}/{m.flavor}/{m.service}.{m.name}"
        seq = []
        for bb, t in sorted(b.calls(), key=lambda x: x[0]):
            f = t["call"]
            if ty_adt(f.get("self_ty")) != UB or not f.get("local") is False and False:
                pass
            if not f["def"].startswith(UB + "::"):
                continue
            seq.append((bb, t))
            nm = f["name"]
            for j in range(1, len(t["args"])):
                cls = raw_pos.get((nm, j + 1))
                if cls == "raw":
                    nsites += 1
                    cst = dt.resolve_const(b, t["args"][j])
                    s_ = cst.get("str") if cst else None
                    if s_ is None:
                        ctx.violation("R7.3", b.loc(t["ln"]), f"{key}|{nm}|non-const", f"{key}: {nm} receives a non-constant string in an unescaped position")
                        continue
                    bs = set(s_.encode())
                    if nm == "push_literal":
                        ok = s_.startswith("/") and not s_.endswith("/") and not ((bs - {ord('/')}) & req) and all(x < 128 for x in bs)
                        why = "path literals must start with '/', not end with '/', and contain no reserved byte"
                    else:
                        ok = not (bs & req_key) and all(x < 128 for x in bs) and s_ != ""
                        why = "query keys must be free of reserved bytes and '='"
                    ctx.check(ok, "R7.3", b.loc(t["ln"]), f"{key}|{nm}|{s_}", f"{key}: {nm}({s_!r}): {why}", instance=f"{key}: {nm}({s_!r})", nontrivial=False)
        # R7.4 typestate
        cfg = CFG(b)
        phase_err = None
        builds = [x for x in seq if x[1]["call"]["name"] == "build"]
        news = [x for x in seq if x[1]["call"]["name"] == "new"]
        pushes = [x for x in seq if x[1]["call"]["name"].startswith("push_")]
        queries = [x for x in pushes if "query" in x[1]["call"]["name"]]
        paths = [x for x in pushes if "query" not in x[1]["call"]["name"]]
        ok = len(builds) == 1 and len(news) == 1
        if ok:
            for qbb, _ in queries:
                for pbb, _ in paths:
                    if pbb in cfg.reachable_from(qbb) and pbb != qbb:
                        ok = False
                        phase_err = "a path component is pushed after a query parameter"
            for pbb, _ in pushes:
                if not (builds[0][0] in cfg.reachable_from(pbb)) or pbb in cfg.reachable_from(builds[0][0]) and pbb != builds[0][0]:
                    ok = False
                    phase_err = "a push happens after build or cannot reach it"
            if not all(cfg.dominates(pbb, builds[0][0]) for pbb, _ in pushes):
                ok = False
                phase_err = "a push is conditional in the generated method"
            if cfg.in_loop(builds[0][0]):
                ok = False
        ctx.check(ok, "R7.4", b.loc(), f"{key}|typestate", f"{key}: UriBuilder call order violates (literal|path)* query* build ({phase_err or f'{len(builds)} builds'})",
                  instance=f"{key}: {len(paths)} path pushes, {len(queries)} query pushes, 1 build")
    ctx.floor("R7.3", "raw-position call sites in generated clients", nsites, 4 * 28)
    # generator templates emit them in that order (the instance is generated by the current generator; the template order
    # is additionally pinned through E3 when available)
    # ---------------- R7.5 decoder pairing
    pp = [b for b in c.bodies if b.name == "path_param" and b.id.startswith("conjure_http::private::server::")]
    if len(pp) == 1:
        b = pp[0]
        # (the work may sit in a sibling function of the module that path_param forwards to)
        eb_ = inline.expand(c, b, depth=2, pred=lambda cb: cb.id.startswith("conjure_http::private::server::") and cb.kind == "fn")
        fam = [eb_] + c.closures_of(b) + [y for i_ in getattr(eb_, "inlined", []) if c.body(i_) is not None for y in c.closures_of(c.body(i_))]
        b = eb_
        split = [t for x in fam for _, t in x.calls() if t["call"]["name"] == "split" and "str" in t["call"]["def"]]
        sc = dt.resolve_const(b, split[0]["args"][1]) if split else None
        PDS = "percent_encoding::percent_decode_str"

        def decodes(fnref, depth=0):
            """the function reference is percent_decode_str, or a local function / closure whose body (helpers included) calls it"""
            if not fnref:
                return False
            if fnref.get("def", "").startswith(PDS):
                return True
            cb_ = c.body(fnref.get("id")) if fnref.get("local") else None
            if cb_ is None or depth > 2:
                return False
            return any(decodes(t2["call"], depth + 1) or any(decodes((y.get("c") or {}).get("fn"), depth + 1) for y in t2["args"])
                       for x2 in [cb_] + c.closures_of(cb_) for _, t2 in x2.calls())
        dec = [a for x in fam for _, t in x.calls() for a in ([t["call"]] + [(y.get("c") or {}).get("fn") for y in t["args"]]) if a and decodes(a)]
        order_ok = False
        if len(split) == 1:
            trp = Tracer(b, through_calls=True, through_agg=True)
            src_calls = {b.blocks[s[1]]["t"]["call"]["name"] for s in flat(trp.sources(split[0]["args"][0])) if s[0] == "call"}
            order_ok = not any("decode" in n for n in src_calls)
            # the decoder is mapped over the split iterator
            def maps_decoder(t):
                """the map's function argument is percent_decode_str itself or a closure that calls it"""
                for a in t["args"][1:]:
                    if decodes((a.get("c") or {}).get("fn")):
                        return True
                    for s_ in trp.sources(a):
                        if s_[0] == "agg":
                            st_ = b.blocks[s_[1]]["s"][s_[2]]
                            clo = c.body(st_["r"].get("id")) if st_["r"].get("agg") == "closure" else None
                            if clo is not None and any(decodes(t2["call"]) or any(decodes((y.get("c") or {}).get("fn")) for y in t2["args"]) for _, t2 in clo.calls()):
                                return True
                return False
            maps = [t for _, t in b.calls() if t["call"]["name"] == "map" and maps_decoder(t)]
            order_ok = order_ok and len(maps) == 1 and any(s[0] == "call" and b.blocks[s[1]]["t"] is split[0] for s in flat(trp.sources(maps[0]["args"][0])))
        ctx.check(len(split) == 1 and sc is not None and sc.get("char") == "/" and len(dec) >= 1 and order_ok, "R7.5", b.loc(), "path_param|pairing",
                  "path_param must split the matched parameter on '/' and percent-decode each segment (the inverse of push_path_parameter)", instance="path_param: split('/') . percent_decode_str")
    else:
        ctx.violation("R7.5", "conjure_http", "anchor|path_param", "path_param not found")
    # R7.9 the same pairing decided on values: path_param evaluated (decision-table interpreter; strings and iterators concrete) on
    # matched path texts — the decoder must be handed exactly one percent-decoded text per '/'-separated segment, in order, empty
    # segments included (an empty string and the empty elements of a multi-segment parameter are legitimate values)
    if len(pp) == 1:
        from .. import minterp as _mi
        from urllib.parse import unquote as _unq
        pb_ = pp[0]
        pidx = [k for k in range(1, pb_.argc + 1) if tystr(strip_refs(pb_.local_ty(k))) == "str"]
        probes = ["a", "a/b", "", "a//b", "a/", "/a", "a%2Fb/c", "%41%20b", "x/%2F/y", "//"]
        bad, unsup, rows = [], None, 0
        for raw in probes:
            seen_ = {}

            def oracle(f, argv, raw=raw, seen_=seen_):
                nm, dd = f.get("name"), f.get("def", "")
                if nm == "get" and "Extensions" in dd:
                    return _mi.adt("core::option::Option", 1, [("sym", "path-params")])
                if nm in ("index", "get") and argv and argv[0] == ("sym", "path-params"):
                    return raw if nm == "index" else _mi.adt("core::option::Option", 1, [raw])
                if nm in ("expect", "unwrap") and argv and _mi.is_adt(argv[0]) and argv[0][2] == 1:
                    return argv[0][3][0]
                if dd.startswith("percent_encoding::percent_decode_str") and argv and isinstance(argv[0], str):
                    return ("pd", argv[0])
                if nm in ("decode_utf8_lossy", "decode_utf8") and argv and isinstance(argv[0], tuple) and argv[0] and argv[0][0] == "pd":
                    v_ = _unq(argv[0][1])
                    return v_ if nm == "decode_utf8_lossy" else _mi.adt("core::result::Result", 0, [v_])
                if nm == "decode" and (f.get("trait") or "").endswith("DecodeParam") and len(argv) == 2:
                    a_ = argv[1]
                    items_ = list(a_[1].items) if _mi.is_it(a_) else (list(a_[1]) if isinstance(a_, tuple) and a_ and a_[0] == "array" else None)
                    seen_["items"] = items_
                    return _mi.adt("core::result::Result", 0, [("sym", "value")])
                return _mi.NO_VALUE
            I_ = _mi.Interp(F, c, inline=lambda d_, rid: rid.startswith("conjure_http::private::server::"), max_depth=4)
            I_.call_oracle = oracle
            args_ = [("sym", f"a{k}") for k in range(1, pb_.argc + 1)]
            if pidx:
                args_[pidx[0] - 1] = "name"
            try:
                I_.run(pb_, args_)
            except _mi.Unsupported as e_:
                unsup = str(e_)
                break
            rows += 1
            want = [_unq(x_) for x_ in raw.split("/")]
            if seen_.get("items") != want:
                bad.append(f"matched text {raw!r}: the decoder is given {seen_.get('items')!r}, must be given {want!r}")
        if unsup is not None:
            ctx.note(f"R7.9 path_param is not evaluable on concrete texts ({unsup}); decided structurally by R7.5")
        else:
            ctx.check(not bad, "R7.9", pb_.loc(), "path_param|values", "path_param: " + "; ".join(bad[:3]), instance=f"path_param: {rows} matched texts -> one decoded text per segment, in order, empty ones included")
    pq = [b for b in c.bodies if b.name == "parse_query_params" and b.id.startswith("conjure_http::private::server::")]
    if len(pq) == 1:
        epq_ = inline.expand(c, pq[0], depth=2, pred=lambda cb: cb.id.startswith("conjure_http::private::server::") and cb.kind == "fn")
        fu = [t for x in [epq_] + c.closures_of(pq[0]) + [y for i_ in getattr(epq_, "inlined", []) if c.body(i_) is not None for y in c.closures_of(c.body(i_))] for _, t in x.calls() if t["call"]["def"].startswith("form_urlencoded::parse")]
        ctx.check(len(fu) == 1, "R7.5", pq[0].loc(), "parse_query_params|pairing", "parse_query_params must decode the query with form_urlencoded::parse", instance="parse_query_params: form_urlencoded::parse")
    else:
        ctx.violation("R7.5", "conjure_http", "anchor|parse_query_params", "parse_query_params not found")
    # ---------------- R7.10 the pair separator is chosen per pair: `in_path` ('?' for the first pair, '&' afterwards) is consulted
    # inside the loop that writes the pairs, never once in front of it (every element of a list written first into the query
    # would otherwise be led by '?': `?k=1?k=2` is one pair for the server)
    nsel = 0
    for b in [x for x in c.bodies if x.id.startswith(UB.rsplit("::", 1)[0] + "::") and x.kind in ("fn", "assoc_fn")]:
        cfg_ = CFG(b)
        sel = []
        for bb_, blk in enumerate(b.blocks):
            if "switch" not in blk["t"]:
                continue
            p_ = op_place(blk["t"]["switch"])
            if p_ is None:
                continue
            names_ = {e_.get("n") for e_ in place_proj(p_) if isinstance(e_, dict)}
            if "in_path" not in names_:
                r_ = dt.resolve_copy(b, blk["t"]["switch"])
                if r_[0] == "place" and not isinstance(r_[1], int):
                    names_ = {e_.get("n") for e_ in r_[1]["p"] if isinstance(e_, dict)}
            if "in_path" in names_:
                sel.append(bb_)
        if not sel:
            continue
        nsel += len(sel)
        writes_in_loop = [bb_ for bb_, t_ in b.calls() if t_["call"]["name"] in ("extend_from_slice", "put", "put_slice", "put_u8", "push") and cfg_.in_loop(bb_)
                          and ("BytesMut" in t_["call"]["def"] or "BufMut" in t_["call"]["def"])]
        for s_ in sel:
            outside = [w_ for w_ in writes_in_loop if not cfg_.in_loop(s_) and cfg_.dominates(s_, w_)]
            ctx.check(not outside, "R7.10", b.loc(b.blocks[s_]["t"].get("ln")), f"{b.name}|separator-per-pair",
                      f"{b.name}: the '?' / '&' separator is selected from `in_path` once, in front of a loop that writes to the buffer (line {b.blocks[outside[0]]['t'].get('ln') if outside else '?'}): every pair written by the loop gets the same separator",
                      instance=f"{b.name}: separator selected where the pair is written")
    if not nsel:
        ctx.note("R7.10: no selection on a field named `in_path` found in the URI builder (the path / query phase is kept differently); the separator rule gives no verdict — the call order is decided by R7.4")
    # ---------------- R7.6 panic inventory
    for name, b in sorted(methods.items()):
        nd = len(c06.debug_only_blocks(b))
        if nd:
            ctx.ok("R7.6", b.loc(), f"{name}: debug assertions only under cfg!(debug_assertions) (discharged by R7.3 / R7.4; absent in release builds)", nontrivial=False)
        for ln, what, x in c06.panic_sites(b):
            pretty = f"{UB}::{name}"
            ctx.violation("R7.6", b.loc(ln), f"{pretty}|{what}", f"{pretty}: `{what}` can panic: building a URI must complete or report an error"
                          + (" — Uri::from_maybe_shared fails with TooLong for URIs longer than 65534 bytes (InvalidUriChar and Empty are excluded by R7.1-R7.3)" if name == "build" else ""))

    # ---------------- R7.8 a query parameter's *name* is percent-encoded exactly once on its way into the URI: by the macro at
    # expansion time (then the runtime writes it raw) — and from the declared name itself, not from a decoded / normalised form
    cmac_ = F.crate("conjure_macros")
    VIEWS = {"value", "as_bytes", "as_str", "deref", "as_ref", "borrow", "to_string", "clone"}
    m_enc, m_bad = 0, []
    for mb_ in [x for x in cmac_.bodies if x.name == "add_query_arg" and x.kind == "fn"]:
        ex_ = inline.expand(cmac_, mb_, depth=2, pred=lambda cb: cb.d.get("vis") != "pub")
        for bb, t in ex_.calls():
            if t["call"]["def"].startswith("percent_encoding::percent_encode") and t["args"]:
                m_enc += 1
                roots_, via_ = dt.transforming_calls(ex_, t["args"][0])
                m_bad += [c_["call"]["name"] for c_ in via_ if c_["call"]["name"] not in VIEWS]
    r_esc = 0
    for rb_ in [x for x in c.bodies if x.name == "push_query_parameter_raw" and x.kind == "assoc_fn"]:
        derived, work_ = set(), [2]
        while work_:
            l_ = work_.pop()
            if l_ in derived:
                continue
            derived.add(l_)
            for _, uj, it in dt.uses_of_local(rb_, l_):
                if uj != "T" and "d" in it and ("ref" in it["r"] or "use" in it["r"]) and isinstance(it["d"], int):
                    work_.append(it["d"])
                if uj == "T" and "call" in it and it["call"]["name"] in ("as_bytes", "deref", "as_ref", "borrow"):
                    work_.append(place_local(it["dest"]))
        for l_ in derived:
            for _, uj, it in dt.uses_of_local(rb_, l_):
                if uj == "T" and "call" in it and it["call"]["name"] in ("push_escaped", "percent_encode", "utf8_percent_encode", "byte_serialize"):
                    r_esc += 1
    if m_enc or r_esc:
        ctx.check(m_enc + r_esc == 1 and not m_bad, "R7.8", "conjure-macros/src/client.rs", "query-name|encoded-once",
                  f"a macro client's query parameter name is percent-encoded {m_enc} time(s) at expansion time (through {m_bad or 'nothing else'}) and {r_esc} time(s) by UriBuilder::push_query_parameter_raw: it must be encoded exactly once, from the declared name itself — twice (or from a decoded form) and the server looks the value up under another key",
                  instance="query name: percent-encoded once (by the macro), written raw by the runtime")
    # ---------------- R7.7 generators bind each path-template parameter to the argument of the same name
    # (a positional binding writes values into the wrong segments as soon as the arguments are declared in another order)
    tm = F.tmpl()
    gens = []
    if tm is not None:
        for fn in tm["functions"]:
            if any("push_path_parameter" in q["text"] for q in fn["quotes"]):
                gens.append(fn)
    ctx.floor("R7.7", "generator functions emitting push_path_parameter", len(gens), 2)
    for fn in gens:
        cn = "conjure_macros" if "conjure-macros" in fn["file"] else "conjure_codegen"
        gb = [x for x in F.crate(cn).bodies if x.kind == "fn" and x.name == fn["name"] and x.file.endswith(fn["file"].split("/src/")[-1])]
        if len(gb) != 1:
            ctx.violation("R7.7", fn["file"], f"{fn['name']}|body", f"{fn['name']}: body not found in the compiled facts")
            continue
        gb = gb[0]
        keyed = 0
        for bb, t in gb.calls():
            if t["call"]["name"] in ("index", "get", "get_key_value", "remove") and len(t["args"]) == 2 and any(x in tystr(gb.local_ty(place_local(op_place(t["args"][0])))) for x in ("HashMap", "BTreeMap")):
                for s_ in dt.value_tracer(gb).sources(t["args"][1]):
                    chain = []
                    while s_[0] == "field":
                        chain.append(s_[2])
                        s_ = s_[1]
                    if s_[0] == "call" and gb.blocks[s_[1]]["t"]["call"]["name"] == "next" and "Parameter" in str(chain):
                        keyed += 1
        def from_parameter(x, op_):
            for s_ in Tracer(x, through_agg=True, transparent=dt.value_tracer(x).transparent).sources(op_):
                chain = []
                while s_[0] == "field":
                    chain.append(s_[2])
                    s_ = s_[1]
                if s_[0] == "call" and x.blocks[s_[1]]["t"]["call"]["name"] == "next" and "Parameter" in str(chain):
                    return True
            return False
        if not keyed:
            # the lookup may be routed through a local closure (`let lookup = |name| &table[name]`): the keyed access is in the
            # closure, on its own parameter, and the closure is applied to the Parameter(name) payload
            cgen = F.crate(cn)
            for clo in cgen.closures_of(gb):
                for bb, t in clo.calls():
                    if t["call"]["name"] in ("index", "get", "get_key_value", "remove") and len(t["args"]) == 2:
                        kroots = Tracer(clo, through_calls=True).root_locals(t["args"][1])
                        if kroots and all(2 <= r_ <= clo.argc for r_ in kroots):
                            for bb2, t2 in gb.calls():
                                res_ = t2["call"].get("resolved") or {}
                                if res_.get("id") == clo.id and len(t2["args"]) == 2 and from_parameter(gb, t2["args"][1]):
                                    keyed += 1
        if not keyed:
            # the keyed access may sit in a closure mapped over the (possibly pre-grouped) path pieces: the key is the payload of
            # a `Parameter` variant of whatever the closure is given
            cgen = F.crate(cn)
            for x in [gb] + cgen.closures_of(gb):
                for bb, t in x.calls():
                    if t["call"]["name"] in ("index", "get", "get_key_value", "remove") and len(t["args"]) == 2 and op_place(t["args"][0]) is not None \
                            and any(m_ in tystr(strip_refs(x.local_ty(place_local(op_place(t["args"][0]))) or {})) or m_ in str(Tracer(x, through_calls=True).sources(t["args"][0])) for m_ in ("HashMap", "BTreeMap")):
                        for s_ in Tracer(x, through_agg=True, transparent=dt.value_tracer(x).transparent).sources(t["args"][1]):
                            chain = []
                            while s_[0] == "field":
                                chain.append(s_[2])
                                s_ = s_[1]
                            if "Parameter" in str(chain):
                                keyed += 1
        ctx.check(keyed >= 1, "R7.7", gb.loc(), f"{fn['name']}|path-parameter-by-name",
                  f"{fn['name']}: no lookup of the argument by the path template's parameter name (a map indexed with the `Parameter(name)` payload of the component being written): path arguments bound by position end up in the wrong segments when declared in another order",
                  instance=f"{fn['name']}: Parameter(name) -> args_by_name[name]")


def flat(srcs):
    for s in srcs:
        while s[0] == "field":
            s = s[1]
        yield s


def roots_of(tr, op):
    out = set()
    for s in tr.sources(op):
        while s[0] == "field":
            s = s[1]
        if s[0] == "arg":
            out.add(s[1])
    return out
