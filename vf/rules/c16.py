"""C16 — bearer tokens and resource identifiers are validated exactly on every entry path."""
from ..facts import ty_adt, tystr, walk_ty, place_local, place_proj, op_place, strip_refs
from ..cfg import CFG, Tracer, thaw
from .. import dt, rx, recog, inline

BT = "conjure_object::bearer_token::BearerToken"
RID = "conjure_object::resource_identifier::ResourceIdentifier"
WORKSPACE = ["conjure_object", "conjure_serde", "conjure_error", "conjure_http", "conjure_codegen", "conjure_macros", "conjure_rust", "conjure_test"]
TOKEN_SPEC = r"^[A-Za-z0-9\-._~+/]+=*$"
TOKEN_CLASS = set(b"ABCDEFGHIJKLMNOPQRSTUVWXYZabcdefghijklmnopqrstuvwxyz0123456789-._~+/")
RID_SPEC = r"^ri\.([a-z][a-z0-9-]*)\.((?:[a-z0-9][a-z0-9-]*)?)\.([a-z][a-z0-9-]*)\.([a-zA-Z0-9_.-]+)$"

EXPLANATION = (
    "Decides (R16.1) that every construction site of BearerToken / ResourceIdentifier in the whole workspace is either a "
    "copy (derived Clone) or control-dependent on the positive outcome of the validator for the very string it stores; "
    "(R16.2) that the validators' recognisers equal the specification's languages — the token byte class read from the "
    "compiler-evaluated 256-entry table the predicate indexes must be exactly [A-Za-z0-9-._~+/], the validator accepts "
    "exactly when the '='-stripped text is non-empty and all bytes pass the table, and the rid regex literal is "
    "language-equivalent (DFA product over the full alphabet) to the specification regex, group by group; (R16.3) "
    "from_components rejects a dot in each of the first three components before formatting; (R16.4) serde / PLAIN / new "
    "routes resolve to the guarded constructors and no From/TryFrom/Default impl builds either type; (R16.5) renderings "
    "return the stored string untransformed and capture-group ends 1,2,3 are stored in the service/instance/type boundary "
    "fields. NOT decided: the regex crate's matching semantics, accessor slice arithmetic at run time.")


def sites(ctx, adt):
    """construction sites of `adt` in the workspace.  In the defining crate they are looked for in every function with its
    private helpers, combinators and closures spliced in (so that `checked(s).map(Token)` is the guarded construction it is);
    a private helper whose sites were all seen through its callers is not judged a second time on its own."""
    out = []
    home = adt.split("::")[0]
    for cn in WORKSPACE:
        c = ctx.F.crate(cn)
        if cn == home:
            def builds(x):
                return any(s_["r"].get("agg") == "adt" and s_["r"]["adt"] == adt for _, _, s_ in x.stmts()) or any(
                    ((a_.get("c") or {}).get("fn") or {}).get("def") == adt for _, t_ in x.calls() for a_ in t_["args"])
            roots = [b for b in c.bodies if b.kind in ("fn", "assoc_fn")]
            exp = {}
            for r_ in roots:
                fam_ = [r_] + c.closures_of(r_)
                direct = any(builds(x) for x in fam_)
                callee_builds = any(t_["call"].get("local") and c.body(t_["call"].get("id")) is not None and c.body(t_["call"]["id"]).d.get("vis") != "pub"
                                    for x in fam_ for _, t_ in x.calls())
                if direct or callee_builds:
                    # (bool-valued private functions are the validators themselves: kept as atoms)
                    exp[r_.id] = inline.expand(c, r_, depth=2, pred=lambda cb: cb.d.get("vis") != "pub" and tystr(cb.local_ty(0)) != "bool", lower=True)
            inl_by = {}
            for rid, eb in exp.items():
                for i_ in eb.inlined:
                    inl_by.setdefault(i_, set()).add(rid)
            callers = {}
            for r_ in roots:
                for x in [r_] + c.closures_of(r_):
                    for _, t_ in x.calls():
                        for f_ in [t_["call"]] + [(a_.get("c") or {}).get("fn") or {} for a_ in t_["args"]]:
                            if f_.get("local") and f_.get("id"):
                                callers.setdefault(f_["id"], set()).add(r_.id)
            skipped = set()
            changed = True
            while changed:
                changed = False
                for r_ in roots:
                    if r_.id in skipped or r_.d.get("vis") == "pub" or not callers.get(r_.id) or r_.id not in inl_by:
                        continue
                    if all(cid in skipped or (cid in exp and r_.id in exp[cid].inlined) for cid in callers[r_.id] if cid != r_.id):
                        skipped.add(r_.id)
                        changed = True
            for r_ in roots:
                if r_.id in skipped:
                    continue
                eb = exp.get(r_.id)
                if eb is None:
                    continue
                for bb, j, s in eb.stmts():
                    if s["r"].get("agg") == "adt" and s["r"]["adt"] == adt:
                        out.append((c, eb, bb, j, s))
                for bb, t_ in eb.calls():
                    for a_ in t_["args"]:
                        if ((a_.get("c") or {}).get("fn") or {}).get("def") == adt:
                            ctx.violation("R16.1", eb.loc(t_["ln"]), f"{eb.id}|constructor-as-value", f"{eb.id}: the constructor of {adt.split('::')[-1]} is passed as a function value to {t_['call']['name']}: the construction cannot be tied to a validation")
                for x in c.closures_of(r_):
                    if x.id in eb.inlined:
                        continue
                    for bb, j, s in x.stmts():
                        if s["r"].get("agg") == "adt" and s["r"]["adt"] == adt:
                            out.append((c, x, bb, j, s))
            for b in c.bodies:
                if b.kind not in ("fn", "assoc_fn", "closure"):
                    for bb, j, s in b.stmts():
                        if s["r"].get("agg") == "adt" and s["r"]["adt"] == adt:
                            out.append((c, b, bb, j, s))
            continue
        for b in c.bodies:
            for bb, j, s in b.stmts():
                if s["r"].get("agg") == "adt" and s["r"]["adt"] == adt:
                    out.append((c, b, bb, j, s))
    return out


def same_string(tr, a_op, b_op, body):
    """both operands derive from the same value (modulo to_string/clone/borrow/deref)"""
    sa, sb = tr.sources(a_op), tr.sources(b_op)
    sa = {s for s in sa if s[0] != "const"}
    sb = {s for s in sb if s[0] != "const"}
    return bool(sa) and sa == sb


import re as _re
TOKEN_SPEC = _re.compile(r"[A-Za-z0-9\-._~+/]+=*")


def token_probes():
    out = ["", "a", "A-._~+/09z", "a=", "a==", "abc===", "=", "==", "=a", "a=b", "a==b", "a b", " a", "a ", "a\n", "\ta", "a\t", "\u00e9", "a\u00e9", "\u00e9a", "a\u00f1", "\u00f6", "a\u00ab", "\u00b0", "a\u00ad", "\uff21"]
    for k in range(128):
        ch = chr(k)
        out += [ch, "a" + ch, ch + "a", "a" + ch + "="]
    return out


def token_route_table(ctx, F, co, b, rule="R16.2"):
    """A function text -> Result<BearerToken, _> evaluated on probe texts (decision-table interpreter; strings, byte tables and
    iterators concrete): Ok(BearerToken(text)) exactly for the texts of the specification `[A-Za-z0-9-._~+/]+=*`, with the text
    stored unchanged.  -> True / False (recorded) or None when a probe leaves the interpretable fragment."""
    from .. import minterp
    I = minterp.Interp(F, co, inline=lambda d_, rid: rid.startswith("conjure_object::"), max_depth=6)
    bad, n = [], 0
    for s_ in token_probes():
        try:
            r = I.run(b, [s_])
        except minterp.Unsupported:
            return None
        if not (minterp.is_adt(r) and r[1] == "core::result::Result"):
            return None
        n += 1
        want = TOKEN_SPEC.fullmatch(s_) is not None
        got = r[2] == 0
        if got and not (minterp.is_adt(r[3][0]) and r[3][0][1] == BT and r[3][0][3] and r[3][0][3][0] == s_):
            bad.append(f"{s_!r} -> a token holding {r[3][0]!r:.50}")
        elif got != want:
            bad.append(f"{s_!r} is {'accepted' if got else 'rejected'}")
    ctx.check(not bad, rule, b.loc(), f"{b.id}|token-route-table", f"{b.id}: bearer tokens must be accepted exactly when they match [A-Za-z0-9-._~+/]+=* and be stored unchanged: " + "; ".join(bad[:6]),
              instance=f"{b.id}: {n} probe texts (every ASCII character in four positions, padding forms, whitespace, non-ASCII) = specification")
    return not bad


TOKEN_ROUTES = {}


def validator_analysable(ctx, co, vb):
    try:
        recog.analyse(ctx.F, co, vb)
        return True
    except recog.NotAnalysable:
        try:
            recog.loop_automaton(ctx.F, co, vb)
            return True
        except Exception:
            return False
    except Exception:
        return False


def run(ctx):
    ctx.explanation = EXPLANATION
    ctx.assumptions = ["the regex crate implements the documented syntax/semantics (leftmost-first search with ^/$ anchors)",
                       "str::trim_end_matches, is_empty, Iterator::all as documented"]
    F = ctx.F
    co = F.crate("conjure_object")
    ctx.units["conjure_object bodies"] = len(co.bodies)
    # =========================================================== bearer token
    bt_sites = sites(ctx, BT)
    validator = None
    guarded = 0
    # every text route into a token (FromStr, new, TryFrom<&str> / <String>, from_string, FromPlain, ...) is decided on probe texts
    # when it can be evaluated; the structural clauses below then only have to cover the routes that cannot (Deserialize)
    global TOKEN_ROUTES
    TOKEN_ROUTES = {}
    for b_ in co.bodies:
        if b_.kind in ("fn", "assoc_fn") and b_.argc == 1 and tystr(strip_refs(b_.local_ty(1))) in ("str", "alloc::string::String"):
            rt_ = b_.local_ty(0)
            if ty_adt(rt_) == "core::result::Result" and rt_.get("args") and ty_adt(rt_["args"][0]) == BT:
                TOKEN_ROUTES[b_.id] = token_route_table(ctx, F, co, b_)
    for c, b, bb, j, s in bt_sites:
        where = b.loc(s["ln"])
        if TOKEN_ROUTES.get((co.body(b.root).id if getattr(b, "root", None) and co.body(b.root) is not None else b.id)) is not None and c.name == "conjure_object":
            guarded += 1
            continue        # this site's function is a text route decided by its table
        if b.trait == "core::clone::Clone":
            tr = Tracer(b)
            src = tr.sources(s["r"]["ops"][0])
            ok = all(x[0] == "call" and b.blocks[x[1]]["t"]["call"]["def"] == "core::clone::Clone::clone" for x in src) or tr.root_locals(s["r"]["ops"][0]) == {1}
            ctx.check(ok, "R16.1", where, f"{b.id}|clone-site", "Clone for BearerToken must copy the existing token", instance="BearerToken: Clone copies an existing token")
            continue
        cfg = CFG(b)
        tr = Tracer(b)
        stored = s["r"]["ops"][0]
        ok = False
        for sbb, allowed, allv in dt.edge_conditions(cfg, bb):
            atom = dt.switch_atom(b, sbb)
            pol = dt.bool_polarity(allowed)
            if atom[0] == "call" and atom[1]["call"].get("local") and pol is True and tystr(b.local_ty(place_local(atom[1]["dest"]))) == "bool":
                if same_string(tr, atom[1]["args"][0], stored, b):
                    ok = True
                    validator = validator or atom[1]["call"]["id"]
                    if atom[1]["call"]["id"] != validator:
                        ok = False
        if not ok:
            # through a guard function: `validate(s)?` where validate returns Ok only when the validator accepts its argument
            for cbb, t in b.calls():
                gb = co.body(t["call"].get("id")) if t["call"].get("local") else None
                if gb is None or not t["args"] or "Result" not in tystr(b.local_ty(place_local(t["dest"]))):
                    continue
                if not (dt.dominated_by_success(cfg, F, cbb, bb) and same_string(tr, t["args"][0], stored, b)):
                    continue
                gcfg, gtr = CFG(gb), Tracer(gb)
                goks = [o for o in dt.ok_return_blocks(gb) if o[2]["r"].get("variant") == "Ok"]
                vids = set()
                for obb, _, os_ in goks:
                    hit = None
                    for sbb, allowed, allv in dt.edge_conditions(gcfg, obb):
                        atom = dt.switch_atom(gb, sbb)
                        if atom[0] == "call" and atom[1]["call"].get("local") and dt.bool_polarity(allowed) is True and tystr(gb.local_ty(place_local(atom[1]["dest"]))) == "bool" \
                                and gtr.root_locals(atom[1]["args"][0]) == {1}:
                            hit = atom[1]["call"]["id"]
                    vids.add(hit)
                if goks and None not in vids and len(vids) == 1 and (validator in (None, next(iter(vids)))):
                    validator = next(iter(vids))
                    ok = True
        if ok:
            guarded += 1
        ctx.check(ok, "R16.1", where, f"{b.id}|guarded-site",
                  f"{b.id}: BearerToken constructed without being control-dependent on the validator returning true for the stored string",
                  instance=f"{b.id}: BearerToken(s) guarded by validator(s) == true")
    ctx.floor("R16.1", "BearerToken construction sites", len(bt_sites), 2)
    ctx.check(guarded >= 2, "R16.1", "conjure_object", "token|guarded-routes", f"only {guarded} guarded token construction routes found (FromStr and Deserialize expected)", nontrivial=False)
    # ---- R16.2 token validator = specification language
    if validator and TOKEN_ROUTES and all(v is not None for v in TOKEN_ROUTES.values()) and not validator_analysable(ctx, co, co.body(validator)):
        ctx.note("R16.2 token: the validator is not in the `non-empty && all(class)` form; the language is decided on the text routes' probe tables (and the Deserialize site is guarded by the same validator, R16.1)")
    elif validator:
        vb = co.body(validator)
        check_token_validator(ctx, co, vb)
    elif TOKEN_ROUTES and all(v is not None for v in TOKEN_ROUTES.values()) and guarded >= 2:
        ctx.note("R16.2 token: no bool validator guards a construction site directly; the language is decided on the text routes' probe tables")
    else:
        ctx.violation("R16.2", "conjure_object", "token|validator-anchor", "no validator function found guarding the token constructors")
    # ---- R16.4 routes (token)
    routes(ctx, co, BT, "BearerToken")
    # ---- R9.4-style rendering (token): as_str/AsRef/Borrow/into_string/Serialize return the stored string
    renderings(ctx, co, BT, {"as_str", "as_ref", "borrow", "into_string"}, 0)

    # =========================================================== resource identifier
    rid_sites = sites(ctx, RID)
    for c, b, bb, j, s in rid_sites:
        where = b.loc(s["ln"])
        if b.trait == "core::clone::Clone":
            ctx.ok("R16.1", where, "ResourceIdentifier: Clone copies an existing value")
            continue
        cfg = CFG(b)
        tr = Tracer(b)
        caps = [(cbb, t) for cbb, t in b.calls() if t["call"]["def"].startswith("regex::") and t["call"]["name"] == "captures"]
        ok = False
        if len(caps) == 1:
            cbb, ct = caps[0]
            ok = dt.dominated_by_success(cfg, F, cbb, bb) and same_string(tr, ct["args"][1], s["r"]["ops"][0], b)
            # receiver is the module's regex static
            rsrc = tr.sources(ct["args"][0])
        ctx.check(ok, "R16.1", where, f"{b.id}|guarded-site",
                  f"{b.id}: ResourceIdentifier constructed without being dominated by a successful Regex::captures on the stored string",
                  instance=f"{b.id}: ResourceIdentifier{{rid: s,..}} dominated by captures(s) == Some")
        if ok:
            # R16.5 capture group k end -> k-th boundary field
            adt = F.adt(RID)
            fields = [f["name"] for f in adt["variants"][0]["fields"]]
            tr2 = Tracer(b, through_calls=True)
            def leaves(op_, ty_, name_, depth=0):
                """(name, operand) of the usize boundary values, looking into nested local structs (`bounds: Bounds {..}`)"""
                a_ = F.adt(ty_adt(ty_) or "")
                if a_ and a_.get("local") and a_["kind"] == "struct" and depth < 3 and ty_adt(ty_) != RID:
                    r_ = dt.resolve_copy(b, op_)
                    if r_[0] == "def" and r_[1][1] != "T" and r_[1][2]["r"].get("agg") == "adt" and r_[1][2]["r"]["adt"] == ty_adt(ty_):
                        out_ = []
                        for kk_, f_ in enumerate(a_["variants"][0]["fields"]):
                            out_ += leaves(r_[1][2]["r"]["ops"][kk_], f_["ty"], f_["name"], depth + 1)
                        return out_
                return [(name_, op_)]
            flat = []
            for k, f_ in enumerate(adt["variants"][0]["fields"]):
                if f_["name"] != "rid":
                    flat += leaves(s["r"]["ops"][k], f_["ty"], f_["name"])
            ctx.check(len(flat) == 3, "R16.5", where, "rid|boundary-count", f"expected three component boundaries, found {[n for n, _ in flat]}", nontrivial=False)
            for fname, op in flat:
                gets = set()
                ends = 0
                for src in tr2.sources(op):
                    while src[0] == "field":
                        src = src[1]
                    if src[0] == "call":
                        t = b.blocks[src[1]]["t"]
                        if t["call"]["name"] == "get" and t["call"]["def"].startswith("regex::"):
                            c_ = dt.resolve_const(b, t["args"][1])
                            gets.add(c_.get("int") if c_ else None)
                        if t["call"]["name"] == "end" and t["call"]["def"].startswith("regex::"):
                            ends += 1
                        if t["call"]["def"].startswith("core::ops::function::Fn") and len(t["args"]) == 2:
                            # a local closure |n| captures.get(n).unwrap().end() applied to a constant group number
                            res = (t["call"].get("resolved") or {})
                            clo = co.body(res.get("id")) if res.get("local") else None
                            kk = None
                            r_ = dt.resolve_copy(b, t["args"][1])
                            if r_[0] == "def" and r_[1][1] != "T" and r_[1][2]["r"].get("agg") == "tuple" and len(r_[1][2]["r"]["ops"]) == 1:
                                kk = (r_[1][2]["r"]["ops"][0].get("c") or {}).get("int")
                            if clo is not None and kk is not None:
                                cg = [t2 for _, t2 in clo.calls() if t2["call"]["name"] == "get" and t2["call"]["def"].startswith("regex::")]
                                ce_ = [t2 for _, t2 in clo.calls() if t2["call"]["name"] == "end" and t2["call"]["def"].startswith("regex::")]
                                if len(cg) == 1 and len(ce_) == 1 and Tracer(clo).root_locals(cg[0]["args"][1]) == {2}:
                                    gets.add(kk)
                                    ends += 1
                exp = 1 if "service" in fname else 2 if "instance" in fname else 3 if "type" in fname else None
                ctx.check(exp is not None and gets == {exp} and ends == 1, "R16.5", where, f"rid|boundary|{fname}",
                          f"boundary field {fname} is the end of capture group(s) {sorted(gets, key=str)} (end() calls: {ends}); expected group {exp}",
                          instance=f"{fname} = captures.get({exp}).end()")
    ctx.floor("R16.1", "ResourceIdentifier construction sites", len(rid_sites), 2)
    # ---- R16.2 regex literal language
    lits = []
    for b in co.bodies:
        if "resource_identifier" not in b.id:
            continue
        for bb, t in b.calls():
            if t["call"]["def"] == "regex::regex::string::Regex::new":
                c_ = dt.resolve_const(b, t["args"][0])
                lits.append((b, t, c_.get("str") if c_ else None))
    if len(lits) != 1 or lits[0][2] is None:
        ctx.violation("R16.2", "conjure_object", "rid|regex-anchor", f"expected exactly one Regex::new(<literal>) in the resource identifier module, found {len(lits)}")
    else:
        b, t, lit = lits[0]
        try:
            w = rx.equivalent(lit, RID_SPEC)
            ctx.check(w is None, "R16.2", b.loc(t["ln"]), "rid|regex-language",
                      f"the rid regex is not language-equivalent to the specification grammar: {w[0]!r} is accepted by {'the implementation only' if w and w[1] else 'the specification only'}" if w else "",
                      instance="rid regex == specification grammar (DFA product, 129-symbol alphabet)")
            gi, gs = rx.group_patterns(lit), rx.group_patterns(RID_SPEC)
            ctx.check(len(gi) == 4, "R16.2", b.loc(t["ln"]), "rid|regex-groups", f"rid regex has {len(gi)} capture groups, expected 4 (service, instance, type, locator)", instance="4 capture groups")
            for k, (a, b_) in enumerate(zip(gi, gs)):
                wk = rx.difference_witness(a, b_)
                ctx.check(wk is None, "R16.2", b.loc(t["ln"]), f"rid|group{k + 1}", f"capture group {k + 1} differs from the specification's component grammar (witness {wk})",
                          instance=f"group {k + 1} == spec component {['service', 'instance', 'type', 'locator'][k]}")
        except ValueError as e:
            ctx.violation("R16.2", b.loc(t["ln"]), "rid|regex-parse", f"rid regex uses syntax outside the analysable fragment: {e}")
    # ---- R16.3 from_components
    fc = [b for b in co.bodies if b.name == "from_components" and b.impl and ty_adt(b.self_ty) == RID]
    if len(fc) == 1:
        check_from_components(ctx, co, fc[0])
    else:
        ctx.violation("R16.3", "conjure_object", "rid|from_components-anchor", "from_components not found")
    routes(ctx, co, RID, "ResourceIdentifier")
    renderings(ctx, co, RID, {"as_str", "as_ref", "borrow", "into_string"}, "rid")


def check_token_validator(ctx, co, vb):
    tr = Tracer(vb)
    try:
        an = recog.analyse(ctx.F, co, vb)
    except recog.NotAnalysable as e:
        # automaton form: a single scan over the bytes with a finite state (Empty / Token / Padding ...), compared with the
        # automaton of ^[A-Za-z0-9\-._~+/]+=*$ by language equivalence
        try:
            A = recog.loop_automaton(ctx.F, co, vb)
        except recog.NotAnalysable as e2:
            ctx.violation("R16.2", vb.loc(), "token|shape", f"token validator left the analysable fragment: {e}; as a byte automaton: {e2}")
            return

        def sd(st, v):
            if st == "E":
                return "T" if v in TOKEN_CLASS else "D"
            if st == "T":
                return "T" if v in TOKEN_CLASS else ("P" if v == 0x3D else "D")
            if st == "P":
                return "P" if v == 0x3D else "D"
            return "D"
        w = recog.automaton_difference(A, "E", sd, lambda st: st in ("T", "P"))
        rooted = Tracer(vb, through_calls=True).root_locals(A["next"][1]["args"][0]) == {1}
        ctx.check(w is None and rooted, "R16.2", vb.loc(), "token|byte-class",
                  f"token validator (byte automaton, {len(A['states'])} states) differs from ^[A-Za-z0-9\\-._~+/]+=*$ on the input {w!r}" if w is not None else "the scan does not run over the validated text",
                  instance=f"token validator: byte automaton with {len(A['states'])} states accepts exactly ^[A-Za-z0-9\\-._~+/]+=*$ (language equivalence over all 256 byte values)")
        return
    pb, accepted = an["pred"], an["accepted"]
    extra = sorted(accepted - TOKEN_CLASS)
    missing = sorted(TOKEN_CLASS - accepted)
    show = lambda x: chr(x) if 32 < x < 127 else f"U+{x:04X}"
    ctx.check(not extra and not missing, "R16.2", pb.loc(), "token|byte-class",
              f"token {'byte' if an['unit'] == 'u8' else 'character'} class differs from [A-Za-z0-9-._~+/]: wrongly accepted {[show(x) for x in extra[:8]]}, wrongly rejected {[show(x) for x in missing[:8]]}",
              instance=f"token class over {an['unit']}: {len(accepted)} values accepted of {an['domain']} evaluated == specification's 68")
    # stripped = trim_end_matches(arg, '='); both tests look at the stripped text
    trims = [(bb, t) for bb, t in vb.calls() if t["call"]["name"] == "trim_end_matches"]
    ok_trim = len(trims) == 1 and tr.root_locals(trims[0][1]["args"][0]) == {1}
    if ok_trim:
        pc = dt.resolve_const(vb, trims[0][1]["args"][1])
        ok_trim = pc is not None and pc.get("char") == "="
    other_trims = [t["call"]["name"] for _, t in vb.calls() if t["call"]["name"].startswith("trim") and t["call"]["name"] != "trim_end_matches"]
    ctx.check(ok_trim and not other_trims, "R16.2", vb.loc(), "token|padding", f"padding handling: expected exactly trim_end_matches(s, '=') (found {len(trims)} such calls, other trims {other_trims})",
              instance="padding: trailing '=' only")
    rooted = True
    if trims:
        trc = Tracer(vb, through_calls=True)
        for _, t in (an["all_call"], an["empty_call"]):
            srcs = {s if s[0] != "field" else s[1] for s in trc.sources(t["args"][0])}
            rooted = rooted and ("call", trims[0][0]) in srcs
    ctx.check(an["law_ok"] and rooted, "R16.2", vb.loc(), "token|acceptance-shape",
              "token validator must return true exactly when the '='-stripped text is non-empty and every unit of it passes the predicate"
              + (f" — {an['witness']}" if an["witness"] else "") + ("" if rooted else " — the tests do not look at the stripped text"),
              instance="validator: true iff !stripped.is_empty() && all(valid) (truth table over both conditions)")


def predicate_set(ctx, co, pb):
    """set of bytes for which the predicate returns true: table lookup `TABLE[b] != 0` or comparison chains"""
    # table form: a local static of 256 bytes indexed by the argument, compared with 0
    for bb, j, s in pb.stmts():
        r = s["r"]
        if "bin" in r and r["bin"] in ("Ne", "Eq"):
            for x, y in ((r["a"], r["b"]), (r["b"], r["a"])):
                c0 = dt.resolve_copy(pb, y)
                if c0[0] == "const" and c0[1].get("int") == 0:
                    px = dt.resolve_copy(pb, x)
                    if px[0] == "place" and not isinstance(px[1], int) and any(isinstance(e, dict) and "idx" in e for e in px[1]["p"]):
                        base = dt.resolve_copy(pb, {"cp": px[1]["l"]})
                        stat = None
                        if base[0] == "const":
                            stat = base[1].get("static") or base[1].get("item")
                        if stat and stat in co.consts and "mem" in co.consts[stat]:
                            mem = bytes.fromhex(co.consts[stat]["mem"])
                            if len(mem) == 256:
                                nz = {i for i, v in enumerate(mem) if v != 0}
                                return nz if r["bin"] == "Ne" else set(range(256)) - nz
    return None


def check_from_components(ctx, co, b):
    # combinator chains (`(!dotted).then(|| format!(..)).ok_or(..).and_then(|rid| rid.parse())`) written out
    b = inline.expand(co, b, depth=1, pred=lambda cb: cb.d.get("vis") != "pub" and tystr(cb.local_ty(0)) != "bool", lower=True)
    cfg = CFG(b)
    tr = Tracer(b)
    fmt = [bb for bb, t in b.calls() if t["call"]["name"] in ("parse", "from_str") and any(ty_adt(x) == RID for x in t["call"]["substs"])]
    if not fmt:
        # ... or one call of a crate-private constructor function of the type taking the built string (its construction site is
        # guarded by the regular expression: R16.1)
        fmt = [bb for bb, t in b.calls() if t["call"].get("local") and co.body(t["call"].get("id")) is not None and co.body(t["call"]["id"]).d.get("vis") != "pub"
               and ty_adt(b.local_ty(place_local(t["dest"]))) == "core::result::Result" and ty_adt((b.local_ty(place_local(t["dest"])).get("args") or [{}])[0]) == RID]
    if not fmt:
        # ... which may have been spliced in: then the (single, R16.1-guarded) construction of the value itself
        fmt = sorted({bb for bb, j, s_ in b.stmts() if s_["r"].get("agg") == "adt" and s_["r"]["adt"] == RID})
    if len(fmt) != 1:
        ctx.violation("R16.3", b.loc(), "from_components|parse", "from_components must end in exactly one parse of the formatted string")
        return
    tested = {}
    for sbb, allowed, allv in dt.edge_conditions(cfg, fmt[0]):
        atom = dt.switch_atom(b, sbb)
        pol = dt.bool_polarity(allowed)
        if atom[0] == "not" and pol is not None:
            r_ = dt.resolve_copy(b, atom[1])
            if r_[0] == "def" and r_[1][1] == "T" and "call" in r_[1][2]:
                atom, pol = ("call", r_[1][2], atom[-1]), not pol
        if atom[0] == "call" and atom[1]["call"]["name"] in ("contains",):
            t = atom[1]
            roots = tr.root_locals(t["args"][0])
            pc = dt.resolve_const(b, t["args"][1])
            if pol is False and pc is not None and (pc.get("char") == "." or pc.get("str") == "."):
                for r in roots:
                    tested[r] = True
        if atom[0] == "call" and atom[1]["call"]["name"] == "fold" and pol is False and len(atom[1]["args"]) == 3 and (dt.resolve_const(b, atom[1]["args"][1]) or {}).get("bool") is False:
            # [a, b, c].iter().fold(false, |acc, x| acc || x.contains('.')) == false
            t = atom[1]
            clos = [s_ for s_ in tr.sources(t["args"][2]) if s_[0] == "agg"]
            clo = co.body(b.blocks[clos[0][1]]["s"][clos[0][2]]["r"].get("id")) if len(clos) == 1 else None
            if clo is not None:
                cc = [t2 for _, t2 in clo.calls() if t2["call"]["name"] == "contains"]
                dotc = len(cc) == 1 and ((dt.resolve_const(clo, cc[0]["args"][1]) or {}).get("char") == "." or (dt.resolve_const(clo, cc[0]["args"][1]) or {}).get("str") == ".") \
                    and 3 in Tracer(clo, through_calls=True).root_locals(cc[0]["args"][0])
                # the accumulator can only go from false to true: `acc || ..` (no assignment of false inside the closure)
                resets = [s_ for _, _, s_ in clo.stmts() if place_local(s_["d"]) in dt.return_aliases(clo) and "use" in s_["r"] and (s_["r"]["use"].get("c") or {}).get("bool") is False]
                if dotc and not resets:
                    for r in Tracer(b, through_calls=True, through_agg=True).root_locals(t["args"][0]):
                        tested[r] = True
        if atom[0] == "call" and atom[1]["call"]["name"] == "any" and pol is False and len(atom[1]["args"]) == 2:
            # [a, b, c].iter().any(|x| x.contains('.')) == false
            t = atom[1]
            clos = [s_ for s_ in tr.sources(t["args"][1]) if s_[0] == "agg"]
            clo = co.body(b.blocks[clos[0][1]]["s"][clos[0][2]]["r"].get("id")) if len(clos) == 1 else None
            if clo is not None:
                cc = [t2 for _, t2 in clo.calls() if t2["call"]["name"] == "contains"]
                dotc = len(cc) == 1 and ((dt.resolve_const(clo, cc[0]["args"][1]) or {}).get("char") == "." or (dt.resolve_const(clo, cc[0]["args"][1]) or {}).get("str") == ".") \
                    and 2 in Tracer(clo, through_calls=True).root_locals(cc[0]["args"][0]) and place_local(cc[0]["dest"]) in dt.return_aliases(clo)
                if dotc:
                    for r in Tracer(b, through_calls=True, through_agg=True).root_locals(t["args"][0]):
                        tested[r] = True
    for k, name in ((1, "service"), (2, "instance"), (3, "type")):
        ctx.check(tested.get(k), "R16.3", b.loc(), f"from_components|{name}",
                  f"from_components: the {name} component is not tested for '.' before formatting (a dotted component could shift the boundaries and still parse)",
                  instance=f"from_components: {name}.contains('.') == false dominates the parse")
    # the Err return on a dotted component
    ctx.check(4 not in tested, "R16.3", b.loc(), "from_components|locator", "the locator may contain dots and must not be rejected for them", nontrivial=False)


def routes(ctx, co, adt, short):
    # Deserialize is hand written and resolves to the guarded constructor (no derived Deserialize: R16.1 enumerates sites)
    for tr_name, need in (("serde_core::de::Deserialize", True), ("conjure_object::plain::FromPlain", True)):
        bs = [b for b in co.bodies if b.trait == tr_name and ty_adt(b.self_ty) == adt and b.kind == "assoc_fn"]
        ctx.check(bool(bs), "R16.4", "conjure_object", f"{short}|{tr_name}|exists", f"{tr_name} for {short} missing", nontrivial=False)
        for b in bs:
            # combinators lowered: `checked(s).map(Token)` is a construction
            fam = [inline.expand(co, b, depth=3, pred=lambda cb: (cb.d.get("vis") != "pub" or (cb.trait or "").startswith("conjure_object::")) and cb.name not in ("new", "from_str") and tystr(cb.local_ty(0)) != "bool", lower=True)] + co.closures_of(b)
            makes = [s for x in fam for _, _, s in x.stmts() if s["r"].get("agg") == "adt" and s["r"]["adt"] == adt]
            calls = [t["call"] for x in fam for _, t in x.calls()]
            via = [f for f in calls if (f["def"] == "core::str::traits::FromStr::from_str" and ty_adt(f["substs"][0]) == adt)
                   or (f["name"] == "parse" and any(ty_adt(x) == adt for x in f["substs"])) or (f.get("local") and f["name"] == "new" and ty_adt(f.get("self_ty")) == adt)]
            if tr_name.endswith("::Deserialize"):
                inner_reads = [tystr(t["call"]["substs"][0]) for x in fam for _, t in x.calls() if t["call"]["def"] == "serde_core::de::Deserialize::deserialize" and t["call"].get("substs")]
                borrowed = [x_ for x_ in inner_reads if x_.startswith("&")]
                ctx.check(not borrowed, "R16.4", b.loc(), f"{short}|Deserialize|owned-text", f"{b.id}: reads the text as {borrowed}: a borrowed &str can only be produced from unescaped, in-memory input — the same valid string is then refused when it comes from a reader or contains a JSON escape, although parsing and PLAIN decoding accept it",
                          instance=f"{short}: Deserialize reads an owned string", nontrivial=False)
            ctx.check(bool(makes) or bool(via), "R16.4", b.loc(), f"{short}|{tr_name}|route",
                      f"{b.id} neither constructs (guarded, see R16.1) nor delegates to FromStr/new", instance=f"{short}: {tr_name.split('::')[-1]} -> {'guarded site' if makes else 'FromStr/new'}")
            if tr_name.endswith("FromPlain") and not makes:
                # the PLAIN route hands its input to the validator unmodified (a trimmed / normalised copy would accept
                # texts the other entry paths reject)
                for x in fam:
                    for _, t in x.calls():
                        f = t["call"]
                        if f in via and t["args"]:
                            roots, calls = dt.transforming_calls(x, t["args"][0])
                            ctx.check(roots == {1} and not calls, "R16.4", x.loc(t["ln"]), f"{short}|{tr_name}|unmodified-input",
                                      f"{b.id}: the text given to the validator is not the route's input unchanged (passes through {[c['call']['name'] for c in calls]}); every entry path must accept exactly the same strings",
                                      instance=f"{short}: from_plain(s) validates s itself")
    nb = [b for b in co.bodies if b.name == "new" and b.impl and not b.trait and ty_adt(b.self_ty) == adt]
    for b in nb:
        if adt == BT and TOKEN_ROUTES.get(b.id) is not None:
            continue
        via = [t for _, t in b.calls() if t["call"]["name"] in ("parse", "from_str")]
        ctx.check(len(via) == 1, "R16.4", b.loc(), f"{short}|new", f"{short}::new must delegate to FromStr", instance=f"{short}::new -> FromStr")
    bad = [i for i in co.impls if ty_adt(i["self_ty"]) == adt and i.get("trait") in ("core::convert::From", "core::convert::TryFrom", "core::default::Default")]
    if adt == BT:
        # a conversion from text that was decided on the probe texts is a route like FromStr
        bad = [i for i in bad if not (i.get("items") and all(TOKEN_ROUTES.get(bid) is not None for bid in i["items"].values() if co.by_id.get(bid) is not None and co.by_id[bid].kind in ("fn", "assoc_fn")))]
    ctx.check(not bad, "R16.4", "conjure_object", f"{short}|no-conversion-impls", f"unexpected conversion impls constructing {short}: {[i['trait'] for i in bad]}", instance=f"{short}: no From/TryFrom/Default")


def renderings(ctx, co, adt, names, field):
    n = 0
    for b in co.bodies:
        if not b.impl or ty_adt(b.self_ty) != adt or b.name not in names or b.kind != "assoc_fn":
            continue
        if b.trait not in (None, "core::convert::AsRef", "core::borrow::Borrow"):
            continue
        n += 1
        calls = [t["call"]["def"] for _, t in b.calls() if t["call"]["def"] not in Tracer.TRANSPARENT and "deref" not in t["call"]["def"]]
        ctx.check(not calls, "R16.5", b.loc(), f"{adt.split('::')[-1]}|{b.name}|identity", f"{b.id} transforms the stored string through {calls}", instance=f"{adt.split('::')[-1]}::{b.name} returns the stored string")
    ctx.floor("R16.5", f"rendering accessors of {adt.split('::')[-1]}", n, 2)
    for trn in ("core::fmt::Display", "serde_core::ser::Serialize"):
        for b in co.bodies:
            if b.trait == trn and ty_adt(b.self_ty) == adt and b.kind == "assoc_fn":
                fwd = [t["call"] for _, t in b.calls() if t["call"]["name"] in ("fmt", "serialize", "write_str", "serialize_str")]
                ok = len(fwd) == 1 and (not fwd[0].get("substs") or tystr(fwd[0]["substs"][0]) in ("alloc::string::String", "str", "&str") or fwd[0]["name"] in ("write_str", "serialize_str"))
                ctx.check(ok, "R16.5", b.loc(), f"{adt.split('::')[-1]}|{trn.split('::')[-1]}|forward", f"{b.id} must forward the stored string to {trn.split('::')[-1]} of String/str", instance=f"{adt.split('::')[-1]}: {trn.split('::')[-1]} forwards the stored string")
