"""C14 — generated types with doubles have a lawful total order, equality and hash (partial)."""
from ..facts import ty_adt, tystr, walk_ty, place_local, place_proj, op_place, strip_refs
from ..cfg import CFG, Tracer
from .. import dt, instance, minterp, inline, tguard

DOPS = "conjure_object::private::DoubleOps"
OF = "ordered_float::OrderedFloat"
DK = "conjure_object::double_key::DoubleKey"
ORD = "core::cmp::Ordering"
CMP_TRAITS = ("core::cmp::PartialEq", "core::cmp::PartialOrd", "core::cmp::Ord", "core::hash::Hash", "core::cmp::Eq")

EXPLANATION = (
    "PARTIAL. Decided: (R14.1) no raw float comparison (no MIR BinaryOp Eq/Ne/Lt/Le/Gt/Ge on f32/f64 and no <f64 as PartialEq/"
    "PartialOrd> call) in conjure_object's DoubleOps / DoubleKey code or in any generated PartialEq/Ord/Hash impl of the instance; "
    "(R14.2) DoubleKey and DoubleOps for f64 implement eq, cmp and hash through the same canonical wrapper (OrderedFloat) and "
    "partial_cmp = Some(cmp); (R14.3) the container impls (Option, Vec, BTreeMap, the wrapper) touch elements only through "
    "DoubleOps::{eq,cmp,hash}; Vec::eq returns false on a length mismatch before indexing and Vec::cmp falls back to the length "
    "order; (R14.4) the decision tables of Option's eq and cmp over {None,Some}^2 (elements only touched through the element "
    "comparison, so the finite table is exact) are reflexive, antisymmetric and satisfy cmp == Equal <=> eq; (R14.5) the three "
    "educe field templates route PartialEq/Ord/Hash to DoubleOps::{eq,cmp,hash} and are emitted under is_double, the type-level "
    "educe under has_double; (R14.6) every generated type with a double-bearing field calls DoubleOps for it in all three impls. "
    "NOT decided: transitivity over unbounded containers, ordered-float and educe semantics.")


def raw_float_ops(body):
    out = []
    from . import c06 as _c06
    dbg = _c06.debug_only_blocks(body)      # debug_assert!s: compiled out of release builds, they do not decide the order
    for bb, j, s in body.stmts():
        if bb in dbg:
            continue
        r = s["r"]
        if "bin" in r and r["bin"] in ("Eq", "Ne", "Lt", "Le", "Gt", "Ge") and (r.get("aty") or {}).get("prim") in ("f32", "f64"):
            out.append((s["ln"], f"{r['bin']} on {r['aty']['prim']}"))
    for bb, t in body.calls():
        if bb in dbg:
            continue
        f = t["call"]
        if (f.get("trait") in ("core::cmp::PartialEq", "core::cmp::PartialOrd")) and f.get("substs") and tystr(strip_refs(f["substs"][0])) in ("f32", "f64"):
            out.append((t["ln"], f"{f['def']} on {tystr(f['substs'][0])}"))
        if f.get("name") in ("total_cmp", "to_bits") and tystr(strip_refs(f.get("self_ty") or {})) in ("f32", "f64"):
            out.append((t["ln"], f"{f['def']}"))
    return out


def double_positions(t, depth=0):
    """the field type is a 'double position' handled by DoubleOps: f64, Option<..>, Vec<..>, BTreeMap<_, ..> thereof"""
    if t is None or depth > 6:
        return False
    if t.get("prim") == "f64":
        return True
    a = t.get("adt")
    if a == "core::option::Option" or a == "alloc::vec::Vec":
        return double_positions(t["args"][0], depth + 1)
    if a == "alloc::collections::btree::map::BTreeMap":
        return double_positions(t["args"][1], depth + 1)
    if a == "alloc::boxed::Box":
        return double_positions(t["args"][0], depth + 1)
    return False


def run(ctx):
    ctx.explanation = EXPLANATION
    ctx.assumptions = ["ordered_float::OrderedFloat implements a lawful total order / equality / hash with NaN == NaN greatest", "educe derives call the given methods field by field in declaration order"]
    F = ctx.F
    c = F.crate("conjure_object")
    ctx.units["conjure_object bodies"] = len(c.bodies)
    scope = [b for b in c.bodies if b.file.endswith("private.rs") or b.file.endswith("double_key.rs")]
    n = 0
    for b in scope:
        n += 1
        for ln, what in raw_float_ops(b):
            ctx.violation("R14.1", b.loc(ln), f"{b.id}|{what}", f"{b.id}: raw float comparison `{what}` (NaN != NaN would break reflexivity / total order)")
    ctx.ok("R14.1", "conjure_object", f"{n} bodies of DoubleOps / DoubleKey scanned: no raw float comparison")
    # ---------------- R14.2 canonical wrapper
    canon = []
    for b in c.bodies:
        is_dk = b.impl and ty_adt(b.self_ty) == DK and b.trait in CMP_TRAITS
        is_f64 = b.trait == DOPS and tystr(b.self_ty or {}) == "f64"
        if not (is_dk or is_f64) or b.kind != "assoc_fn":
            continue
        who = f"{'DoubleKey' if is_dk else 'f64'}::{b.trait.split('::')[-1]}::{b.name}"
        if b.name == "partial_cmp":
            cm = [t for _, t in b.calls() if t["call"]["name"] == "cmp"]
            some = [s for _, _, s in b.stmts() if s["r"].get("variant") == "Some"]
            ctx.check(len(cm) == 1 and len(some) == 1, "R14.2", b.loc(), f"{who}|some-cmp", f"{who} must be Some(self.cmp(other))", instance=f"{who} = Some(cmp)")
            continue
        if b.name in ("eq", "cmp", "hash"):
            nm0 = b.name
            # DoubleKey may delegate to <f64 as DoubleOps>::{eq,cmp,hash} (checked here as well), and both may share crate-private
            # helper functions: looked through
            b = inline.expand(c, b, depth=2, pred=lambda cb, nm=b.name: (cb.trait == DOPS and tystr(cb.self_ty or {}) == "f64" and cb.name == nm) or (cb.kind == "fn" and cb.d.get("vis") != "pub"))
            from . import c06 as _c06
            dbg_ = _c06.debug_only_blocks(b)       # debug_assert!s restating the invariant do not count
            wraps = [s for bb_, _, s in b.stmts() if bb_ not in dbg_ and s["r"].get("agg") == "adt" and s["r"]["adt"] == OF]
            calls = [t for bb_, t in b.calls() if bb_ not in dbg_ and t["call"]["name"] == nm0 and t["call"].get("substs") and ty_adt(strip_refs(t["call"]["substs"][0])) == OF]
            need = 1 if nm0 == "hash" else 2
            ok = len(wraps) == need and len(calls) == 1
            canon.append((who, ok))
            ctx.check(ok, "R14.2", b.loc(), f"{who}|canonical", f"{who} must wrap its operand(s) in OrderedFloat and use OrderedFloat's {b.name} (wraps {len(wraps)}, calls {len(calls)})", instance=f"{who} via OrderedFloat")
    ctx.floor("R14.2", "canonical comparison methods", len(canon), 3)
    # ---------------- R14.3 containers
    for b in c.bodies:
        if b.trait != DOPS or b.kind != "assoc_fn" or tystr(b.self_ty or {}) == "f64":
            continue
        a = ty_adt(b.self_ty)
        who = f"{(a or '?').split('::')[-1]}::{b.name}"
        fam = [b] + c.closures_of(b)
        elem_calls = [t for x in fam for _, t in x.calls() if t["call"].get("trait") in CMP_TRAITS + (DOPS,) and t["call"].get("substs")]
        bad = []
        for t in elem_calls:
            st = strip_refs(t["call"]["substs"][0])
            if "param" in st and t["call"].get("trait") != DOPS:
                # generic element compared through std traits: only allowed for map keys (K: Eq + Ord + Hash)
                if st["param"] not in ("K",):
                    bad.append(f"{t['call']['def']}::<{tystr(st)}>")
        ctx.check(not bad, "R14.3", b.loc(), f"{who}|elements-via-doubleops", f"{who}: elements compared outside DoubleOps: {bad}", instance=f"{who}: elements only through DoubleOps")
    vec_eq = [b for b in c.bodies if b.trait == DOPS and ty_adt(b.self_ty) == "alloc::vec::Vec" and b.name == "eq"]
    if len(vec_eq) == 1:
        # the comparison may be delegated to a private slice helper: decided on the expansion
        b = inline.expand(c, vec_eq[0], depth=2, pred=lambda cb: cb.d.get("vis") != "pub", lower=True)
        cfg = CFG(b)
        idx = [bb for bb, t in b.calls() if t["call"]["name"] == "index"] + [i for i, blk in enumerate(b.blocks) if "assert" in blk["t"] and blk["t"]["kind"] == "bounds"]
        rets_ = dt.return_aliases(b)
        falses = [bb for bb, j, s in b.stmts() if place_local(s["d"]) in rets_ and not place_proj(s["d"]) and "use" in s["r"] and (s["r"]["use"].get("c") or {}).get("bool") is False]
        guard = None
        for i, blk in enumerate(b.blocks):
            if "switch" in blk["t"]:
                atom = dt.switch_atom(b, i)
                if atom[0] == "bin" and atom[1] in ("Ne", "Eq") or (atom[0] == "call" and atom[1]["call"]["name"] in ("ne", "eq") and "usize" in tystr(atom[1]["call"]["substs"][0])):
                    guard = i
                    break
        ok = guard is not None and all(cfg.dominates(guard, x) for x in idx) and any(cfg.dominates(guard, x) and not any(cfg.dominates(i2, x) for i2 in idx) for x in falses)
        ctx.check(ok, "R14.3", b.loc(), "Vec::eq|length-first", "Vec::eq must compare lengths before indexing and return false on mismatch (prefix-related lists would otherwise panic or compare equal)", instance="Vec::eq: len mismatch -> false, before any indexing")
    vec_cmp = [b for b in c.bodies if b.trait == DOPS and ty_adt(b.self_ty) == "alloc::vec::Vec" and b.name == "cmp"]
    if len(vec_cmp) == 1:
        b = inline.expand(c, vec_cmp[0], depth=2, pred=lambda cb: cb.d.get("vis") != "pub", lower=True)
        lc = [t for _, t in b.calls() if t["call"]["name"] == "cmp" and tystr(strip_refs(t["call"]["substs"][0])) == "usize"]
        ok = len(lc) == 1
        why = ""
        if ok:
            trc = Tracer(b, through_calls=True, through_agg=True)
            ra, rb = trc.root_locals(lc[0]["args"][0]), trc.root_locals(lc[0]["args"][1])
            # each operand is the length of one whole parameter: it must not pass through the common-prefix slices / min()
            ok = {ra and frozenset(ra), rb and frozenset(rb)} == {frozenset({1}), frozenset({2})}
            if not ok:
                why = f" — the compared lengths derive from parameters {sorted(ra)} and {sorted(rb)}; they must be the lengths of `self` alone and `other` alone (not of the truncated prefixes, which are always equal)"
        ctx.check(ok, "R14.3", b.loc(), "Vec::cmp|length-fallback", "Vec::cmp must fall back to the order of the two lists' lengths when one list is a prefix of the other" + why, instance="Vec::cmp: falls back to self.len().cmp(other.len()) (operands rooted in self / other only)")
    # maps: the comparison of two maps is the lexicographic comparison of their (key, value) sequences *including their lengths*:
    # Iterator::cmp / eq over both entry iterators does that; a hand-written pairwise loop must fall back to the lengths
    for mname in ("cmp", "eq"):
        mb_ = [b for b in c.bodies if b.trait == DOPS and ty_adt(b.self_ty) == "alloc::collections::btree::map::BTreeMap" and b.name == mname]
        if len(mb_) != 1:
            continue
        eb = inline.expand(c, mb_[0], depth=2, pred=lambda cb: cb.d.get("vis") != "pub", lower=True)
        trm = Tracer(eb, through_calls=True, through_agg=True)
        whole = [t for _, t in eb.calls() if t["call"]["def"].startswith("core::iter::traits::iterator::Iterator::") and t["call"]["name"] in (("cmp", "cmp_by") if mname == "cmp" else ("eq", "eq_by")) and len(t["args"]) >= 2]
        ok = False
        why = ""
        if len(whole) == 1:
            ra, rb = trm.root_locals(whole[0]["args"][0]), trm.root_locals(whole[0]["args"][1])
            ok = {frozenset(ra), frozenset(rb)} == {frozenset({1}), frozenset({2})}
            why = f"Iterator::{whole[0]['call']['name']} over iterators rooted in parameters {sorted(ra)} / {sorted(rb)}"
        else:
            lens = [t for _, t in eb.calls() if t["call"]["name"] == "len"]
            lc = [t for _, t in eb.calls() if t["call"]["name"] in ("cmp", "eq", "ne") and tystr(strip_refs((t["call"].get("substs") or [{}])[0])) == "usize"]
            lb = [s_ for _, _, s_ in eb.stmts() if "bin" in s_["r"] and s_["r"]["bin"] in ("Eq", "Ne") and (s_["r"].get("aty") or {}).get("prim") == "usize"]
            cands = [(t["args"][0], t["args"][1]) for t in lc] + [(s_["r"]["a"], s_["r"]["b"]) for s_ in lb]
            for a_, b_ in cands:
                if {frozenset(trm.root_locals(a_)), frozenset(trm.root_locals(b_))} == {frozenset({1}), frozenset({2})}:
                    ok = True
            why = f"no whole-sequence Iterator::{mname} and {len(cands)} length comparison(s), none between the lengths of `self` and `other`"
        ctx.check(ok, "R14.3", mb_[0].loc(), f"BTreeMap::{mname}|length", f"BTreeMap::{mname} must take the number of entries into account when one map's entries are a prefix of the other's ({why}): otherwise a map and its extension compare Equal although they are different values",
                  instance=f"BTreeMap::{mname}: {why if ok else 'lengths compared'}")
    # ---------------- R14.4 Option tables
    I = minterp.Interp(F, c, inline=lambda d, i: False)
    oe = [b for b in c.bodies if b.trait == DOPS and ty_adt(b.self_ty) == "core::option::Option" and b.name == "eq"]
    oc = [b for b in c.bodies if b.trait == DOPS and ty_adt(b.self_ty) == "core::option::Option" and b.name == "cmp"]
    if len(oe) == 1 and len(oc) == 1:
        vals = {"None": minterp.adt("core::option::Option", 0), "Some": None}
        table_eq, table_cmp = {}, {}
        ordn = [v["name"] for v in F.adt(ORD)["variants"]] if F.adt(ORD) else ["Less", "Equal", "Greater"]
        try:
            for an in ("None", "Some"):
                for bn in ("None", "Some"):
                    a = minterp.adt("core::option::Option", 1, [("sym", "a")]) if an == "Some" else vals["None"]
                    b_ = minterp.adt("core::option::Option", 1, [("sym", "b")]) if bn == "Some" else vals["None"]
                    r1 = I.run(oe[0], [a, b_])
                    r2 = I.run(oc[0], [a, b_])
                    table_eq[(an, bn)] = r1 if isinstance(r1, bool) else "elem-eq" if (isinstance(r1, tuple) and r1[0] == "call" and r1[1].endswith("::eq")) else str(r1)
                    table_cmp[(an, bn)] = I.variant_name(ORD, r2[2]) if minterp.is_adt(r2) else "elem-cmp" if (isinstance(r2, tuple) and r2[0] == "call" and r2[1].endswith("::cmp")) else str(r2)
            exp_eq = {("None", "None"): True, ("None", "Some"): False, ("Some", "None"): False, ("Some", "Some"): "elem-eq"}
            ctx.check(table_eq == exp_eq, "R14.4", oe[0].loc(), "Option::eq|table", f"Option eq table {table_eq}; lawful table: {exp_eq}", instance=f"Option::eq table {sorted(table_eq.items())}")
            tc = table_cmp
            lawful = tc[("None", "None")] == "Equal" and tc[("Some", "Some")] == "elem-cmp" and {tc[("None", "Some")], tc[("Some", "None")]} == {"Less", "Greater"}
            ctx.check(lawful, "R14.4", oc[0].loc(), "Option::cmp|table", f"Option cmp table {tc}: must be reflexive (None,None)=Equal, antisymmetric on (None,Some)/(Some,None) and defer (Some,Some) to the element order", instance=f"Option::cmp table {sorted(tc.items())}")
            cons = all((table_cmp[k] == "Equal") == (table_eq[k] is True) for k in table_eq if table_eq[k] != "elem-eq")
            ctx.check(cons, "R14.4", oc[0].loc(), "Option|cmp-eq-consistent", "Option: cmp == Equal must hold exactly where eq is true", instance="Option: cmp == Equal <=> eq")
        except minterp.Unsupported as e:
            ctx.violation("R14.4", oe[0].loc(), "Option|unsupported", f"Option comparison left the analysable fragment: {e}")
    else:
        ctx.violation("R14.4", "conjure_object", "Option|anchor", "DoubleOps for Option not found")
    # ---------------- R14.5 templates
    tm = F.tmpl()
    if tm is not None:
        field_t = 0
        type_t = 0
        for fn in tm["functions"]:
            if "conjure-codegen/src/" not in fn["file"]:
                continue
            for q in fn["quotes"]:
                txt = q["text"].replace(" ", "").replace("\n", "")
                if "educe(" not in txt:
                    continue
                where = f"{fn['file'].split('/repo/')[-1]}:{q['line']}"
                if "method(" in txt:
                    field_t += 1
                    ok = all(f"{tr}(method(conjure_object::private::DoubleOps::{m}))" in txt for tr, m in (("PartialEq", "eq"), ("Ord", "cmp"), ("Hash", "hash")))
                    ctx.check(ok, "R14.5", where, f"{fn['name']}|field-template|routes", f"{fn['name']}: the educe field template must route PartialEq/Ord/Hash to DoubleOps::eq/cmp/hash; template: {txt[:200]}",
                              instance=f"{fn['name']}: field educe -> DoubleOps::eq/cmp/hash")
                    under = any("is_double" in cnd and cnd.startswith("if") for cnd in q["conds"]) or tguard.positive_guard(q["conds"], "is_double", allow_others=True) is True
                    if not under and tguard.positive_guard(q["conds"], "is_double", allow_others=True) is None:
                        # early-return style helper (`if !is_double(ty) { return quote!() }`): not a syntactic condition of the
                        # template; the generated instances are decided by R14.6
                        ctx.note(f"R14.5 {fn['name']}: field template emitted under no syntactic is_double condition (decision taken elsewhere); instances decided by R14.6")
                        continue
                    ctx.check(under, "R14.5", where, f"{fn['name']}|field-template|guard", f"{fn['name']}: the field template is emitted under {q['conds']}, expected the is_double predicate", instance=f"{fn['name']}: emitted under is_double")
                elif all(x in txt for x in ("PartialEq", "Eq", "PartialOrd", "Ord", "Hash")):
                    type_t += 1
                    import re as _re

                    def mentions(cnd):
                        """the condition (or the `let` the tested variable is bound to) consults has_double / is_double"""
                        if "has_double" in cnd or "is_double" in cnd:
                            return True
                        return any(("has_double" in (fn["lets"].get(v) or "") or "is_double" in (fn["lets"].get(v) or "")) for v in _re.findall(r"[A-Za-z_]\w*", cnd))
                    under = any(mentions(cnd) and cnd.startswith("if") and not cnd.replace(" ", "").startswith("if!") for cnd in q["conds"]) \
                        or any(mentions(cnd) and cnd.replace(" ", "").startswith("elseofif!") for cnd in q["conds"])      # after `if !has_double { return .. }`
                    if not under and not q["conds"]:
                        ctx.note(f"R14.5 {fn['name']}: type-level educe emitted under no syntactic condition (decision taken elsewhere); instance decided by R14.6")
                        continue
                    ctx.check(under, "R14.5", where, f"{fn['name']}|type-template|guard", f"{fn['name']}: the type-level educe is emitted under {q['conds']}, expected has_double / is_double", instance=f"{fn['name']}: type educe under has_double")
        ctx.floor("R14.5", "educe field templates", field_t, 1)
        ctx.floor("R14.5", "educe type templates", type_t, 1)
    # ---------------- R14.6 instance
    ct = F.crate("conjure_test")
    ntypes = 0
    for path, a in sorted(ct.adts.items()):
        if not a.get("local") or not instance.config_of(path):
            continue
        dfields = [(v["name"], f["name"], f["ty"]) for v in a["variants"] for f in v["fields"] if double_positions(f["ty"])]
        if not dfields:
            continue
        if not any(i.get("trait") in ("core::cmp::PartialEq", "core::cmp::Ord", "core::hash::Hash") and ty_adt(i["self_ty"]) == path for i in ct.impls):
            continue  # builder stages and other helper types that are never compared
        ntypes += 1
        for trn, m in (("core::cmp::PartialEq", "eq"), ("core::cmp::Ord", "cmp"), ("core::hash::Hash", "hash")):
            imp = [i for i in ct.impls if i.get("trait") == trn and ty_adt(i["self_ty"]) == path]
            if len(imp) != 1:
                ctx.violation("R14.6", f"{a['file']}:{a['line']}", f"{path}|{trn}|missing", f"{path}: no {trn} impl")
                continue
            b = ct.methods_of_impl(imp[0]).get(m)
            if b is None:
                continue
            fam = [b] + ct.closures_of(b)
            dcalls = [tystr(strip_refs(t["call"]["substs"][0])) for x in fam for _, t in x.calls() if t["call"]["def"] == f"{DOPS}::{m}"]
            want = sorted(tystr(ft) for _, _, ft in dfields)
            ctx.check(sorted(dcalls) == want, "R14.6", b.loc(), f"{path}|{m}", f"{path}: {trn.split('::')[-1]} must compare its double-bearing fields {want} through DoubleOps::{m}; found {sorted(dcalls)}",
                      instance=f"{path.split('::', 1)[1]}: {m} via DoubleOps for {len(want)} field(s)")
            for x in fam:
                for ln, what in raw_float_ops(x):
                    ctx.violation("R14.1", x.loc(ln), f"{path}|{m}|{what}", f"{path}: generated {m} uses a raw float comparison: {what}")
        # PartialOrd must agree with Ord: it is Some(cmp) (educe forwards it when it derives both), never the std derive, which
        # compares the doubles with f64::partial_cmp (NaN: None, although cmp says Equal / Greater)
        pimp = [i for i in ct.impls if i.get("trait") == "core::cmp::PartialOrd" and ty_adt(i["self_ty"]) == path]
        for i in pimp:
            pb = ct.methods_of_impl(i).get("partial_cmp")
            if pb is None:
                continue
            fam = [pb] + ct.closures_of(pb)
            raw = [(x, ln, what) for x in fam for ln, what in raw_float_ops(x)]
            fcalls = [t["call"]["def"] for x in fam for _, t in x.calls() if t["call"]["def"] == "core::cmp::PartialOrd::partial_cmp" and t["call"].get("substs")
                      and any(n_.get("prim") in ("f64", "f32") for n_ in walk_ty(t["call"]["substs"][0]))]
            ctx.check(not raw and not fcalls, "R14.6", pb.loc(), f"{path}|partial_cmp", f"{path}: PartialOrd compares a double-bearing field with the float's own partial_cmp ({(raw[0][2] if raw else (fcalls[0] if fcalls else ''))}): for NaN `partial_cmp` / `<` / `>` disagree with `cmp` and `==`",
                      instance=f"{path.split('::', 1)[1]}: partial_cmp does not use the float's partial order")
    ctx.floor("R14.6", "generated types with double-bearing fields", ntypes, 12)
