"""C04 — a client call reaches the matching server handler with identical arguments (partial: pairing tables)."""
import json, os, re
from ..facts import ty_adt, tystr, walk_ty, place_local, place_proj, op_place, strip_refs
from ..cfg import CFG, Tracer, thaw
from .. import dt, instance, core
from . import c06, c07

PRIVC = "conjure_http::private::client::"
UB = "conjure_http::private::client::uri_builder::UriBuilder"
SRV = "conjure_http::server::"
CJ = "conjure_http::server::conjure::"

EXPLANATION = (
    "PARTIAL (value equality end to end for all values is not decided; C07/C12 feed it). Decided on the generated instance — "
    "28 endpoints x blocking/async x 2 configurations, every argument joined with the IR: (R4.1) the client encoder call and "
    "the server decoder type argument are the pair the IR parameter class prescribes (spec/pairs.json: single / optional / list "
    "/ set query, single / optional header, path, JSON / optional / binary body, header / cookie auth), with the same key, "
    "header name (case-insensitively), path variable, cookie prefix (= cookieName + '=') and element type on both sides; (R4.2) "
    "the server response serializer and the client decoder are the pair the IR return class prescribes, the Accept constant "
    "equals the content type the paired serializer produces (string constants of the const initialisers), StdResponseSerializer "
    "takes header value and body from the same negotiated encoding, the 204 producers (Empty / Collection default / absent "
    "optional binary) are exactly the ones the paired client decoders shortcut (C18 R18.3); (R4.4) the handler is invoked once, "
    "outside any loop, after all extractions succeeded, with the extracted values in declared (IR) order, and its result is what "
    "the response serializer receives; (R4.5) path and query values arrive unaltered only if the client escapes every byte the "
    "server's decoders interpret: every percent-encode set that can reach the URI builder's encoder (followed through set "
    "parameters to all callers) and the client macro's sets contain the bytes of spec/uri_required.json (notably '%' and '/', "
    "which percent_decode / split('/') on the server would otherwise re-interpret) — shared with C07 R7.1. NOT decided: header text legality beyond 'failure is an Err', value-level equality.")


def elem_ty(t):
    """element type of Option / Vec / BTreeSet (after stripping references)"""
    t = strip_refs(t)
    if t and t.get("adt") in ("core::option::Option", "alloc::vec::Vec", "alloc::collections::btree::set::BTreeSet"):
        return strip_refs(t["args"][0])
    return t


def norm_ty(t):
    s = tystr(strip_refs(t))
    return {"str": "alloc::string::String", "&str": "alloc::string::String"}.get(s, s)


def decoder_core(t):
    """(core decoder adt, from-wrapper target or None, element type arg or None)"""
    a = ty_adt(t)
    if a in (SRV + "FromDecoder", SRV + "FromRequestDeserializer"):
        inner = t["args"][0]
        return ty_adt(inner), t["args"][1], (inner.get("args") or [None])[0] if inner.get("args") else None
    return a, None, (t.get("args") or [None])[0] if t.get("args") else None


def run(ctx):
    ctx.explanation = EXPLANATION
    ctx.assumptions = ["C07 decides URI escaping, C12 the PLAIN sibling agreement, C06/C18 the body / response decoding"]
    F = ctx.F
    spec = json.load(open(os.path.join(core.VERIF, "spec", "pairs.json")))
    ct = F.crate("conjure_test")
    ch = F.crate("conjure_http")
    ir = instance.IR()
    cms = {(m.config, m.flavor, m.service, m.name): m for m in instance.client_methods(ct)}
    hs = {(h.config, h.flavor, h.service, h.name): h for h in instance.handlers(ct)}
    ctx.floor("R4.1", "client methods", len(cms), 4 * len(ir.endpoints))
    ctx.floor("R4.1", "handlers", len(hs), 4 * len(ir.endpoints))
    nargs = 0
    for svc, e in ir.endpoints:
        for config in ("default", "exhaustive"):
            for flavor in ("blocking", "async"):
                m = cms.get((config, flavor, svc, e["endpointName"]))
                h = hs.get((config, flavor, svc, e["endpointName"]))
                key = f"{config}/{flavor}/{svc}.{e['endpointName']}"
                if m is None or h is None:
                    ctx.violation("R4.1", "conjure_test", f"{key}|joined", f"{key}: client method or handler missing")
                    continue
                cb, hb = m.body, h.body
                ccalls = [(bb, t) for bb, t in sorted(cb.calls(), key=lambda x: x[0]) if t["call"]["def"].startswith(PRIVC)]
                ex = instance.extraction_calls(h)
                by_log = {}
                for kind, bb, t in ex:
                    if not kind.startswith("auth"):
                        by_log[instance.const_str_arg(hb, t["args"][-1])] = (kind, bb, t)
                # path parameters in template order
                path_vars = re.findall(r"\{([^}:]+)(?::[^}]*)?\}", e["httpPath"])
                c_path = [t for bb, t in ccalls if t["call"]["name"] == "push_path_parameter"]
                for a in e["args"]:
                    nargs += 1
                    pt = a["paramType"]["type"]
                    name = a["argName"]
                    dt_ = ir.dealias(a["type"])
                    srv = by_log.get(name)
                    if srv is None:
                        ctx.violation("R4.1", hb.loc(), f"{key}|{name}|server-missing", f"{key}: no server extraction for argument {name}")
                        continue
                    skind, sbb, st = srv
                    sval, sdec = st["call"]["substs"][0], st["call"]["substs"][1]
                    if pt == "body":
                        sdec, sval = st["call"]["substs"][0], st["call"]["substs"][1]
                    core_dec, from_target, dec_elem = decoder_core(sdec)
                    if pt == "query":
                        cls = {"optional": "query_optional", "list": "query_list", "set": "query_set"}.get(dt_["type"], "query_single")
                        pid = a["paramType"]["query"]["paramId"]
                        cc = [t for bb, t in ccalls if "query_parameter" in t["call"]["name"] and instance.const_str_arg(cb, t["args"][1]) == pid]
                        skey = instance.const_str_arg(hb, st["args"][2])
                        names_ok = skey == pid
                    elif pt == "header":
                        cls = "header_optional" if dt_["type"] == "optional" else "header_single"
                        pid = a["paramType"]["header"]["paramId"]
                        cc = [t for bb, t in ccalls if t["call"]["name"] in ("encode_header", "encode_optional_header") and (instance.const_str_arg(cb, t["args"][1]) or "").lower() == pid.lower()]
                        skey = instance.const_str_arg(hb, st["args"][2])
                        names_ok = skey is not None and skey.lower() == pid.lower()
                    elif pt == "path":
                        cls = "path"
                        idx = path_vars.index(name) if name in path_vars else -1
                        cc = [c_path[idx]] if 0 <= idx < len(c_path) and len(c_path) == len(path_vars) else []
                        skey = instance.const_str_arg(hb, st["args"][2])
                        names_ok = skey == name
                    else:
                        cls = "body_binary" if ir.is_binary(a["type"]) else "body_optional" if dt_["type"] == "optional" else "body_json"
                        cc = [t for bb, t in ccalls if t["call"]["name"].replace("async_", "") in ("encode_serializable_request", "encode_binary_request")]
                        names_ok = True
                    row = spec["request"][cls]
                    good = len(cc) == 1 and cc[0]["call"]["name"].replace("async_", "") == row["client"] and core_dec == row["server"] and skind == pt and names_ok
                    detail = f"client {[t['call']['name'] for t in cc]} / server {core_dec}; IR class {cls} requires {row['client']} <-> {row['server'].split('::')[-1]}; names ok: {names_ok}"
                    ctx.check(good, "R4.1", cb.loc(), f"{key}|{name}|pair", f"{key}: argument {name}: {detail}", instance=f"{key}: {name} [{cls}] {row['client']} <-> {row['server'].split('::')[-1]}")
                    # element types agree where the client call is generic over the element
                    if good and cls in ("query_optional", "query_list", "query_set", "header_optional") and cc[0]["call"].get("substs"):
                        ce = norm_ty(cc[0]["call"]["substs"][-1])
                        se_t = dec_elem if (cls in ("query_list", "query_set") and dec_elem is not None) else elem_ty(from_target if from_target is not None else sval)
                        se = norm_ty(se_t)
                        ctx.check(ce == se, "R4.1", cb.loc(), f"{key}|{name}|elem-type", f"{key}: argument {name}: client encodes elements of type {ce}, server decodes {se}", instance=f"{key}: {name} element type {ce}")
                    if good and cls == "body_json":
                        n_lim = [x for x in (sdec.get("args") or []) if "const" in x]
                        ctx.check(len(n_lim) == 1, "R4.1", hb.loc(), f"{key}|{name}|limit", f"{key}: body deserializer without a size limit", nontrivial=False)
                # auth
                auth = e.get("auth")
                c_auth = [t for bb, t in ccalls if t["call"]["name"] in ("encode_header_auth", "encode_cookie_auth")]
                s_auth = [(k, t) for k, bb, t in ex if k.startswith("auth")]
                if auth is None:
                    ctx.check(not c_auth and not s_auth, "R4.1", cb.loc(), f"{key}|auth|none", f"{key}: endpoint without auth uses auth helpers", nontrivial=False)
                else:
                    row = spec["auth"][auth["type"]]
                    good = len(c_auth) == 1 and c_auth[0]["call"]["name"] == row["client"] and len(s_auth) == 1 and s_auth[0][1]["call"]["name"] == row["server"]
                    if good and auth["type"] == "cookie":
                        want = auth["cookie"]["cookieName"] + "="
                        cp = instance.const_str_arg(cb, c_auth[0]["args"][1])
                        sp = instance.const_str_arg(hb, s_auth[0][1]["args"][1])
                        good = cp == want and sp == want
                    ctx.check(good, "R4.1", cb.loc(), f"{key}|auth", f"{key}: auth {auth['type']}: client {[t['call']['name'] for t in c_auth]}, server {[t['call']['name'] for _, t in s_auth]} (cookie prefixes must both be cookieName=)",
                              instance=f"{key}: auth {auth['type']} {row['client']} <-> {row['server']}")
                # R4.2 response pairing
                cls = ir.return_class(e.get("returns"))
                row = spec["response"][cls]
                resp = [(bb, t) for bb, t in hb.calls() if t["call"]["name"] in ("response", "async_response") and t["call"]["def"].startswith("conjure_http::private::server::")]
                dec = [t for bb, t in cb.calls() if t["call"]["def"].startswith(PRIVC) and "decode_" in t["call"]["name"]]
                good = len(resp) == 1 and ty_adt(resp[0][1]["call"]["substs"][0]) == row["server"] and len(dec) == 1 and dec[0]["call"]["name"].replace("async_", "") == row["client"]
                ctx.check(good, "R4.2", hb.loc(), f"{key}|response-pair", f"{key}: return class {cls}: server {[tystr(t['call']['substs'][0]) for _, t in resp]}, client {[t['call']['name'] for t in dec]}; required {row['server'].split('::')[-1]} <-> {row['client']}",
                          instance=f"{key}: [{cls}] {row['server'].split('::')[-1]} <-> {row['client']}")
                # R4.4
                tc = instance.handler_trait_call(h)
                if len(tc) == 1 and len(resp) == 1:
                    cfg = CFG(hb)
                    vt = dt.value_tracer(hb)
                    order = []
                    for a_op in tc[0][1]["args"][1:]:
                        src = [(k, bb) for k, bb, t in ex if dt.derives_from_call(hb, a_op, bb, vt)]
                        order.append(src[0] if len(src) == 1 else None)
                    ex_bbs = [bb for k, bb, t in ex]
                    seq = [o[1] for o in order if o is not None]
                    # context arguments are not extractions; all extractions must be used exactly once, in order
                    good = sorted(seq) == sorted(ex_bbs) and seq == sorted(seq) and not cfg.in_loop(tc[0][0])
                    declared = [instance.const_str_arg(hb, t["args"][-1]) for k, bb, t in ex if not k.startswith("auth")]
                    good = good and declared == [a["argName"] for a in e["args"]]
                    ctx.check(good, "R4.4", hb.loc(), f"{key}|args-in-order", f"{key}: the service method must receive every extracted value exactly once in declared order (extraction order {declared}, IR order {[a['argName'] for a in e['args']]})",
                              instance=f"{key}: handler({', '.join(declared) or '-'}) once, in IR order")
                    ok = dt.dominated_by_success(cfg, F, tc[0][0], resp[0][0]) and dt.derives_from_call(hb, resp[0][1]["args"][-1], tc[0][0], vt) if cls != "unit" else dt.dominated_by_success(cfg, F, tc[0][0], resp[0][0])
                    ctx.check(ok, "R4.4", hb.loc(), f"{key}|result-serialized", f"{key}: the response serializer must receive the handler's successful result", instance=f"{key}: response(handler()?)")
                else:
                    ctx.violation("R4.4", hb.loc(), f"{key}|single-call", f"{key}: expected one service-method call and one response call, found {len(tc)} / {len(resp)}")
    ctx.floor("R4.1", "joined arguments", nargs, 4 * 27)
    # ---------------- R4.2 runtime level: content types
    def const_str_of(crate, path):
        b = [x for x in crate.bodies if x.kind == "const" and x.path == path]
        if len(b) != 1:
            return None
        for bb, t in b[0].calls():
            if t["call"]["name"] == "from_static":
                return instance.const_str_arg(b[0], t["args"][0])
        return None
    aj = const_str_of(ch, "conjure_http::private::APPLICATION_JSON")
    ao = const_str_of(ch, "conjure_http::private::APPLICATION_OCTET_STREAM")
    je = [b for b in ch.bodies if b.trait == SRV + "encoding::Encoding" and b.name == "content_type" and (ty_adt(b.self_ty) or "").endswith("JsonEncoding")]
    jct = None
    if je:
        for bb, t in je[0].calls():
            if t["call"]["name"] == "from_static":
                jct = instance.const_str_arg(je[0], t["args"][0])
    ctx.check(aj is not None and aj == jct == "application/json", "R4.2", "conjure_http", "accept|json", f"client Accept constant {aj!r} vs JsonEncoding::content_type {jct!r}: must both be application/json", instance=f"Accept {aj!r} == JsonEncoding content type")
    ctx.check(ao == "application/octet-stream", "R4.2", "conjure_http", "accept|octet", f"octet-stream constant is {ao!r}", instance=f"octet-stream constant {ao!r}")
    for nm, item in (("encode_serializable_response_headers", "conjure_http::private::APPLICATION_JSON"), ("encode_binary_response_headers", "conjure_http::private::APPLICATION_OCTET_STREAM")):
        b = [x for x in ch.bodies if x.kind == "fn" and x.name == nm and x.id.startswith(PRIVC)]
        if len(b) == 1:
            ins = [t for _, t in b[0].calls() if t["call"]["name"] == "insert"]
            ok = len(ins) == 1 and (dt.resolve_const(b[0], ins[0]["args"][1]) or {}).get("item") == "http::header::name::ACCEPT" and (dt.resolve_const(b[0], ins[0]["args"][2]) or {}).get("item") == item
            ctx.check(ok, "R4.2", b[0].loc(), f"{nm}|accept", f"{nm} must set Accept to {item.split('::')[-1]}", instance=f"{nm}: Accept = {item.split('::')[-1]}")
        else:
            ctx.violation("R4.2", "conjure_http", f"{nm}|anchor", f"{nm} not found")
    bs = [x for x in ch.bodies if x.name == "serialize_inner" and (ty_adt(x.self_ty) or "").endswith("BinaryResponseSerializer")]
    for b in bs:
        ins = [t for _, t in b.calls() if t["call"]["name"] == "insert"]
        ok = len(ins) == 1 and (dt.resolve_const(b, ins[0]["args"][2]) or {}).get("item") == "conjure_http::private::APPLICATION_OCTET_STREAM"
        ctx.check(ok, "R4.2", b.loc(), "binary-serializer|content-type", "BinaryResponseSerializer must label the body application/octet-stream (the constant the binary client decoder gates on)", instance="BinaryResponseSerializer: Content-Type = APPLICATION_OCTET_STREAM")
    ss = [x for x in ch.bodies if x.name == "serialize_inner" and (ty_adt(x.self_ty) or "") == SRV + "StdResponseSerializer"]
    for b in ss:
        vt = dt.value_tracer(b)
        enc = [(bb, t) for bb, t in b.calls() if t["call"]["name"] == "response_body_encoding"]
        ctc = [(bb, t) for bb, t in b.calls() if t["call"]["name"] == "content_type" and "Encoding" in t["call"]["def"]]
        ser = [(bb, t) for bb, t in b.calls() if t["call"]["name"] == "serializer" and t["call"]["def"].endswith("Encoding::serializer")]
        ok = len(enc) == 1 and len(ctc) == 1 and len(ser) == 1 and dt.derives_from_call(b, ctc[0][1]["args"][0], enc[0][0], vt) and dt.derives_from_call(b, ser[0][1]["args"][0], enc[0][0], vt)
        ctx.check(ok, "R4.2", b.loc(), "std-serializer|same-encoding", "StdResponseSerializer must take the Content-Type header value and the body serializer from the same negotiated encoding", instance="StdResponseSerializer: header and body from one encoding")
    # 204 producers: every serialize impl of each serializer, separately
    for adt, exp in ((SRV + "EmptyResponseSerializer", True), (CJ + "CollectionResponseSerializer", True), (CJ + "OptionalBinaryResponseSerializer", True), (SRV + "StdResponseSerializer", False), (CJ + "BinaryResponseSerializer", False)):
        impls = [x for x in ch.bodies if x.trait in (SRV + "SerializeResponse", SRV + "AsyncSerializeResponse") and ty_adt(x.self_ty) == adt and x.name == "serialize"]
        ctx.check(len(impls) == 2, "R4.2", "conjure_http", f"{adt.split('::')[-1]}|impls", f"{adt.split('::')[-1]}: expected blocking and async serialize impls, found {len(impls)}", nontrivial=False)
        for x in impls:
            # the impl with the private helpers it shares with its twin spliced in (own inherent methods, generic free functions);
            # the *other* serializers' entry points (`serialize` / `serialize_inner` of another serializer type) stay calls
            from .. import inline as _inl2
            ex = _inl2.expand(ch, x, depth=2, pred=lambda cb: cb.d.get("vis") != "pub" and not (cb.name in ("serialize", "serialize_inner") and (ty_adt(cb.self_ty) or "") not in ("", adt)))
            fam = [ex] + ch.closures_of(x)
            direct = any((dt.resolve_const(y, a) or {}).get("item") == "http::status::StatusCode::NO_CONTENT" for y in fam for bb, j, s in y.stmts() for a in [s["r"].get("use")] if isinstance(a, dict)) \
                or any((dt.resolve_const(y, a) or {}).get("item") == "http::status::StatusCode::NO_CONTENT" for y in fam for bb, t in y.calls() for a in t["args"])
            via = [ty_adt((t["call"].get("substs") or [{}])[0]) for y in fam for bb, t in y.calls() if t["call"]["name"] == "serialize" and t["call"].get("trait") in (SRV + "SerializeResponse", SRV + "AsyncSerializeResponse")]
            via += [ty_adt(t["call"].get("self_ty")) for y in fam for bb, t in y.calls() if t["call"]["name"] == "serialize_inner" and t["call"].get("local") and (ty_adt(t["call"].get("self_ty")) or "") not in ("", adt)]
            produces = direct or (SRV + "EmptyResponseSerializer") in via
            allowed = {SRV + "EmptyResponseSerializer", SRV + "StdResponseSerializer", CJ + "BinaryResponseSerializer"}
            pair_ok = True
            if adt.endswith("CollectionResponseSerializer"):
                pair_ok = sorted(via) == sorted([SRV + "EmptyResponseSerializer", SRV + "StdResponseSerializer"])
            if adt.endswith("OptionalBinaryResponseSerializer"):
                pair_ok = sorted(via) == sorted([SRV + "EmptyResponseSerializer", CJ + "BinaryResponseSerializer"])
            who = f"{adt.split('::')[-1]} as {x.trait.split('::')[-1]}"
            ctx.check(produces == exp and pair_ok, "R4.2", x.loc(), f"{who}|204", f"{who}: produces 204 No Content: {produces} (expected {exp}); delegates to {[v.split('::')[-1] for v in via]}: the absent/empty case must be 204 and the present case the paired serializer",
                      instance=f"{who}: 204 producer = {exp}")
    # macro: the handler receives the extracted arguments in declared order (template provenance)
    tm = F.tmpl()
    if tm is not None:
        found = 0
        for fn in tm["functions"]:
            if not fn["file"].endswith("conjure-macros/src/endpoints.rs"):
                continue
            for q in fn["quotes"]:
                txt = q["text"].replace(" ", "")
                if ".handler.#method(" in txt:
                    found += 1
                    binding = fn["lets"].get("args", "").replace(" ", "")
                    ok = binding.startswith("endpoint.args.iter().map(") and not any(w in binding for w in ("rev(", "sort", "swap", "rotate", "filter"))
                    ctx.check(ok, "R4.4", f"{fn['file']}:{q['line']}", f"{fn['name']}|handler-args-order", f"macro: the handler call passes `#args` bound to `{fn['lets'].get('args')}`; it must be the declared arguments in order (endpoint.args.iter().map(..))",
                              instance=f"{fn['name']}: handler(#(#args),*) with args = endpoint.args in order")
        ctx.floor("R4.4", "handler-call templates in the endpoint macro", found, 1)
    # ---------------- R4.5 encoder/decoder pairing of path and query values (shared with C07 R7.1)
    spec, req, req_key = c07.load_required()
    escapers, sets, problems = c07.encode_sets(F, req, req_key)
    for where, key, msg in problems:
        ctx.violation("R4.5", where, key, msg)
    ctx.floor("R4.5", "percent-encode sets reaching a URI encoder", len(sets), 2)
    for name, (bits, need, where) in sorted(sets.items()):
        missing = sorted(need - bits)
        ctx.check(not missing, "R4.5", where, f"{name.split(' in ')[0]}|sufficient",
                  f"{name}: the encode set lacks {[chr(x) if 32 < x < 127 else hex(x) for x in missing]}, so a value containing it reaches the handler altered — " + c07.missing_text(spec, missing),
                  instance=f"{name}: superset of the {len(need)} bytes the server decoders interpret")
    # ---------------- R4.12 every value of a header argument is sent, and a body that claims to be re-sendable is
    tm_ = F.tmpl()
    nh = 0
    for fn in (tm_["functions"] if tm_ is not None else []):
        if not fn["file"].endswith("conjure-macros/src/client.rs"):
            continue
        for q in fn["quotes"]:
            txt = q["text"].replace(" ", "")
            if "headers_mut()" in txt and "for" in q["text"].split() and ("EncodeHeader" in txt or "__header_value" in txt):
                nh += 1
                ctx.check(".append(" in txt and ".insert(" not in txt, "R4.12", f"{fn['file']}:{q['line']}", f"{fn['name']}|header-values-appended",
                          f"{fn['name']}: the values an EncodeHeader encoder yields are written in a loop with `insert`, which replaces the previous value of the same header: only the last element of a multi-valued header argument reaches the server (use `append`)",
                          instance=f"{fn['name']}: each encoded header value is appended")
    ctx.floor("R4.12", "header-writing loops in the client macro", nh, 1)
    chx = F.crate("conjure_http")
    for wb_ in [x for x in chx.bodies if x.name == "write_body" and (x.trait or "").endswith("::WriteBody")]:
        sib = [y for y in chx.bodies if y.impl and wb_.impl and y.d.get("impl", {}).get("id") == wb_.d.get("impl", {}).get("id") and y.name == "reset"]
        resettable = any((dt.resolve_const(y, s_["r"]["use"]) or {}).get("bool") is True for y in sib for _, _, s_ in y.stmts() if place_local(s_["d"]) == 0 and "use" in s_["r"])
        if not resettable:
            continue
        consumed = [t["call"]["name"] for _, t in wb_.calls() for a_ in (t.get("atys") or []) if tystr(a_).startswith("&mut &") or tystr(a_).startswith("&mut &mut")]
        ctx.check(not consumed, "R4.12", wb_.loc(), f"{tystr(wb_.self_ty or {})}|write_body-repeatable",
                  f"WriteBody for {tystr(wb_.self_ty or {})}: reset() answers true (the body can be sent again) but write_body hands the body to {consumed} by mutable reference, which consumes it (io::Read for &[u8] advances the slice): a retried request would carry an empty body",
                  instance=f"WriteBody for {tystr(wb_.self_ty or {})}: write_body leaves the body intact (reset() == true)")
    # ---------------- R4.11 the cookie name of cookie auth is used verbatim by all four generators (macro client / macro server /
    # codegen client / codegen server): the client writes `<name>=<token>` and the server looks for exactly that prefix, cookie
    # names are case-sensitive — any normalisation on one side only makes the pair disagree
    from .. import inline as _inl
    PASS = {"deref", "as_str", "as_ref", "borrow", "clone", "to_owned", "to_string", "into", "from", "as_deref"}
    SINK = {"new_display", "new_debug", "to_tokens", "append_all", "new"}
    sites_ = []
    for cn_ in ("conjure_macros", "conjure_codegen"):
        cc_ = F.crate(cn_)
        has_ = {(x.d.get("root") or x.id) if x.kind == "closure" else x.id for x in cc_.bodies if any(t["call"]["name"] in ("value", "cookie_name") for _, t in x.calls())}
        for b0 in cc_.bodies:
            if b0.kind not in ("fn", "assoc_fn") or b0.id.startswith(("conjure_codegen::types::", "conjure_codegen::example_types::")):
                continue
            fam0 = [b0] + cc_.closures_of(b0)
            if b0.id not in has_ and not any(t["call"].get("local") and t["call"].get("id") in has_ for x in fam0 for _, t in x.calls()):
                continue
            eb = _inl.expand(cc_, b0, depth=2, pred=lambda cb: cb.d.get("vis") != "pub")
            for x in [eb] + [y for y in cc_.closures_of(b0)]:
                for bb, t in x.calls():
                    nm = t["call"]["name"]
                    is_name = nm == "cookie_name" and "types" in t["call"].get("def", "")
                    if nm == "value" and "LitStr" in t["call"].get("def", ""):
                        is_name = any("cookie_name" in str(s_) for s_ in Tracer(x, through_calls=True).sources(t["args"][0]))
                    if not is_name:
                        continue
                    transforms, work, seen = [], [place_local(t["dest"])], set()
                    while work:
                        l_ = work.pop()
                        if l_ in seen:
                            continue
                        seen.add(l_)
                        for ubb, uj, it in dt.uses_of_local(x, l_):
                            if uj == "T":
                                if "call" not in it:
                                    continue
                                n2 = it["call"]["name"]
                                if n2 in PASS:
                                    work.append(place_local(it["dest"]))
                                elif n2 not in SINK:
                                    transforms.append(n2)
                            elif "d" in it and ("ref" in it["r"] or "use" in it["r"] or "agg" in it["r"]):
                                work.append(place_local(it["d"]))
                    sites_.append((x, t, transforms))
    for x, t, transforms in sites_:
        ctx.check(not transforms, "R4.11", x.loc(t["ln"]), f"{x.path.split('::{closure')[0]}|cookie-name-verbatim",
                  f"{x.path}: the cookie name passes through {transforms} before being written into the generated code; the other generators use it verbatim, so a client and a server generated from the same definition disagree on the cookie's name",
                  instance=f"{x.path.split('::{closure')[0]}: cookie name used verbatim")
    ctx.floor("R4.11", "uses of the auth cookie name in the generators", len(sites_), 2)
    # ---------------- R4.6 / R4.7 body reassembly and PLAIN parameter text (shared with C18 / C12)
    from . import c18, c12, c03, c19
    ctx.include(c03, {"R3.6"}, "R4.9", "client and server generators must classify the return / argument type alike (204 shortcuts, decoders)")
    ctx.include(c07, {"R7.7", "R7.5", "R7.8", "R7.9"}, "R4.8", "each path argument must be written into the template segment of its own name and decoded by the inverse steps")
    ctx.include(c18, {"R18.5"}, "R4.6", "request and response bodies must reach the decoder complete (every chunk, until the stream ends)")
    ctx.include(c19, {"R19.7", "R19.9"}, "R4.10", "an argument the client sent (an empty string included) must reach the handler as that value, never as an absent optional")
    ctx.include(c12, {"R12.1", "R12.2", "R12.3", "R12.4", "R12.5"}, "R4.7", "path / query / header arguments travel as PLAIN text and must parse back to the same value")



_run_c04 = run


def run(ctx):
    _run_c04(ctx)
    # R4.13 per-call state parked in a thread-local is put back on every exit (a failed response must not leak into the next)
    from .. import tls as _tls
    _tls.check(ctx, ctx.F.crate("conjure_http"), "R4.13", "each call must reach its handler and return its own response whatever happened before on the same thread")
