"""Checker self-test, other direction: behaviour-preserving variants of /repo (benign/<name>/patch.diff) on which every
claimed check must stay silent.  usage: python3 -m vf.benign [name-substring ...] [-j N] [--props C01,C05]"""
import json, os, shutil, subprocess, sys, tempfile
from concurrent.futures import ThreadPoolExecutor

VERIF = os.path.dirname(os.path.dirname(os.path.abspath(__file__)))
REPO = "/repo"


def claimed():
    m = json.load(open(os.path.join(VERIF, "MANIFEST.json")))
    return sorted(c["property_id"] for c in m["checks"])


def load(filters):
    out = []
    d = os.path.join(VERIF, "benign")
    for n in sorted(os.listdir(d)):
        p = os.path.join(d, n, "patch.diff")
        if os.path.exists(p) and (not filters or any(f in n for f in filters)):
            meta = {}
            if os.path.exists(os.path.join(d, n, "meta.json")):
                meta = json.load(open(os.path.join(d, n, "meta.json")))
            out.append({"name": n, "patch": p, "meta": meta})
    return out


def run_one(v, props=None):
    tmp = tempfile.mkdtemp(prefix="vf-ben-")
    root = os.path.join(tmp, "repo")
    try:
        subprocess.run(["rsync", "-a", "--exclude", "target", "--exclude", ".git", REPO + "/", root + "/"], check=True)
        r = subprocess.run(["patch", "-p1", "-s", "--no-backup-if-mismatch", "-d", root, "-i", v["patch"]], stdout=subprocess.PIPE, stderr=subprocess.STDOUT, text=True)
        if r.returncode != 0:
            return {"name": v["name"], "status": "skipped", "detail": r.stdout[:300]}
        env = dict(os.environ, VERIF_REPO=root, VERIF_EVIDENCE_DIR=os.path.join(tmp, "ev"))
        alarms = {}
        for pid in (props or claimed()):
            p = subprocess.run([os.path.join(VERIF, "check"), pid], env=env, stdout=subprocess.PIPE, stderr=subprocess.STDOUT, text=True)
            if p.returncode != 0 or "VIOLATION property=" in p.stdout:
                alarms[pid] = "\n".join(l for l in p.stdout.splitlines() if l.startswith("  ") or "VIOLATION" in l or "error" in l.lower())[:1500]
        return {"name": v["name"], "status": "ALARM" if alarms else "silent", "alarms": alarms}
    finally:
        shutil.rmtree(tmp, ignore_errors=True)


def main():
    args = sys.argv[1:]
    jobs = 2
    if "-j" in args:
        jobs = int(args[args.index("-j") + 1])
        del args[args.index("-j"):args.index("-j") + 2]
    props = None
    if "--props" in args:
        props = args[args.index("--props") + 1].split(",")
        del args[args.index("--props"):args.index("--props") + 2]
    vs = load(args)
    with ThreadPoolExecutor(jobs) as ex:
        results = list(ex.map(lambda v: run_one(v, props), vs))
    bad = 0
    for r in results:
        print(f"{r['status']:8} {r['name']}" + (f"  ({r.get('detail')})" if r["status"] == "skipped" else ""))
        if r["status"] == "ALARM":
            bad += 1
            for pid, x in r["alarms"].items():
                print(f"      {pid}:\n" + "\n".join("        " + l for l in x.splitlines()[:10]))
    print(f"{len(results)} benign variants: {sum(r['status'] == 'silent' for r in results)} silent, {bad} alarmed, {sum(r['status'] == 'skipped' for r in results)} skipped")
    return 2 if bad else 0


if __name__ == "__main__":
    sys.exit(main())
