"""C06 — servers accept a request body only if it is exactly one complete valid document."""
from ..facts import ty_adt, tystr, walk_ty, place_local, place_proj, op_place, strip_refs
from ..cfg import CFG, Tracer, thaw
from .. import dt, inline

STD = "conjure_http::server::StdRequestDeserializer"
OPT = "conjure_http::server::conjure::OptionalRequestDeserializer"
BIN = "conjure_http::server::conjure::BinaryRequestDeserializer"
DESER_TRAITS = ("conjure_http::server::DeserializeRequest", "conjure_http::server::AsyncDeserializeRequest")
INVALID_ARG = "conjure_error::types::invalid_argument::InvalidArgument"
ERR_CTORS = ("conjure_error::error::Error::service", "conjure_error::error::Error::service_safe")
ERR_OTHER = ("conjure_error::error::Error::internal", "conjure_error::error::Error::internal_safe",
             "conjure_error::error::Error::throttle", "conjure_error::error::Error::unavailable")
SWALLOW = {"ok", "unwrap_or", "unwrap_or_default", "unwrap_or_else", "is_ok", "is_err", "flatten", "filter_map", "map_while",
           "take_while", "unwrap", "expect", "err", "ok_or", "and", "or", "or_else"}

EXPLANATION = (
    "Decides, for both request-body deserializers (blocking fn and async coroutine): (R6.1) must-pass-through — the Ok(value) "
    "return is dominated, in order, by the success edges of: encoding lookup from the headers, bounded read of the body with "
    "Some(N) where N is the endpoint's const size limit (never None), T::deserialize on a deserializer obtained from that "
    "encoding over that buffer, and end-of-input validation (DeserializerState::end on the same state) — and the JSON/Smile "
    "states forward end() to ServerDeserializer::end; (R6.2) limit typestate in read_body/async_read_body — no path from a "
    "point where data is added to the returned accumulator reaches an Ok return without crossing the success edge of the limit "
    "check on that same accumulator, the check rejects exactly len > limit, and stream items are consumed only through `?`; "
    "(R6.3) every error constructed on these paths has error type InvalidArgument; (R6.4) the optional deserializer returns "
    "Ok(None) only when Content-Type is absent and otherwise delegates, the binary one compares with the octet-stream "
    "constant, request_body_encoding has no fallback; (R6.6) the blocking and async twins perform the same call sequence; "
    "(R6.7) panic inventory. NOT decided: serde_json / serde-smile well-formedness checks themselves.")


def real_body(crate, b):
    """for an `async fn` the analysable body is its coroutine child"""
    kids = [k for k in crate.children.get(b.id, []) if k.kind == "coroutine"]
    return kids[0] if len(kids) == 1 and len([1 for _ in b.calls()]) == 0 else b


def find_impl_bodies(crate, adt, traits=DESER_TRAITS, name="deserialize"):
    out = []
    for b in crate.bodies:
        if b.trait in traits and ty_adt(b.self_ty) == adt and b.name == name and b.kind == "assoc_fn":
            out.append((b.trait, real_body(crate, b)))
    return out


def calls_named(body, *names):
    return [(bb, t) for bb, t in body.calls() if t["call"]["name"] in names]


def check_pipeline(ctx, crate, trait, b):
    F = ctx.F
    cfg = CFG(b)
    tr = dt.value_tracer(b)
    who = f"StdRequestDeserializer::{'async ' if 'Async' in trait else ''}deserialize"
    oks = [o for o in dt.ok_return_blocks(b) if o[2]["r"]["variant"] == "Ok"]
    if len(oks) != 1:
        ctx.violation("R6.1", b.loc(), f"{who}|ok-return", f"{who}: expected one Ok(value) return, found {len(oks)}")
        return
    okbb, _, oks_s = oks[0]
    enc = calls_named(b, "request_body_encoding")
    rd = calls_named(b, "read_body", "async_read_body")
    ds = [(bb, t) for bb, t in b.calls() if t["call"]["def"] == "conjure_http::server::encoding::Encoding::deserializer"]
    st = [(bb, t) for bb, t in b.calls() if t["call"]["def"] == "conjure_http::server::encoding::DeserializerState::deserializer"]
    de = [(bb, t) for bb, t in b.calls() if t["call"]["def"] == "serde_core::de::Deserialize::deserialize"]
    en = [(bb, t) for bb, t in b.calls() if t["call"]["def"] == "conjure_http::server::encoding::DeserializerState::end"]
    steps = [("encoding lookup", enc), ("bounded read", rd), ("Encoding::deserializer", ds), ("DeserializerState::deserializer", st), ("T::deserialize", de)]
    for name, lst in steps:
        if len(lst) != 1:
            ctx.violation("R6.1", b.loc(), f"{who}|{name}|count", f"{who}: expected exactly one {name} call, found {len(lst)}")
            return
    # order & success dominance
    for name, lst in (("encoding lookup", enc), ("bounded read", rd), ("T::deserialize", de)):
        ctx.check(dt.dominated_by_success(cfg, F, lst[0][0], okbb), "R6.1", b.loc(lst[0][1]["ln"]), f"{who}|{name}|dominates-ok",
                  f"{who}: Ok(value) is reachable without the {name} having succeeded", instance=f"{who}: Ok dominated by success of {name}")
    order = [enc[0][0], rd[0][0], ds[0][0], st[0][0], de[0][0]]
    ctx.check(all(cfg.dominates(order[i], order[i + 1]) for i in range(len(order) - 1)), "R6.1", b.loc(), f"{who}|order",
              f"{who}: steps must happen in the order lookup -> read -> deserializer -> deserialize", instance=f"{who}: step order by dominance")
    # the limit is Some(N)
    lim = rd[0][1]["args"][1]
    r = dt.resolve_copy(b, lim)
    good = False
    if r[0] == "def" and r[1][1] != "T":
        rv = r[1][2]["r"]
        if rv.get("agg") == "adt" and rv.get("variant") == "Some":
            c = (rv["ops"][0].get("c") or {})
            good = "tyconst" in c and c["tyconst"] in ("N",) or ("item" in c and "SIZE_LIMIT" in c.get("item", ""))
    ctx.check(good, "R6.1", b.loc(rd[0][1]["ln"]), f"{who}|limit", f"{who}: the body must be read with Some(<the deserializer's const size limit>), never None or another value",
              instance=f"{who}: read_body(body, Some(N))")
    ctx.check(any(1 <= l <= b.argc or True for l in [0]) and dt.derives_from_call(b, ds[0][1]["args"][0], enc[0][0], tr), "R6.1", b.loc(ds[0][1]["ln"]), f"{who}|same-encoding",
              f"{who}: the deserializer must come from the looked-up encoding", instance=f"{who}: deserializer from the looked-up encoding")
    ctx.check(dt.derives_from_call(b, ds[0][1]["args"][1], rd[0][0], tr), "R6.1", b.loc(ds[0][1]["ln"]), f"{who}|same-buffer",
              f"{who}: the deserializer must read the reassembled, size-checked buffer", instance=f"{who}: deserializer over the read buffer")
    ctx.check(dt.derives_from_call(b, st[0][1]["args"][0], ds[0][0], tr) and dt.derives_from_call(b, de[0][1]["args"][0], st[0][0], tr), "R6.1", b.loc(de[0][1]["ln"]),
              f"{who}|same-state", f"{who}: T::deserialize must drive the state's deserializer", instance=f"{who}: T::deserialize(state.deserializer())")
    ctx.check(dt.derives_from_call(b, oks_s["r"]["ops"][0], de[0][0], tr), "R6.1", b.loc(oks_s["ln"]), f"{who}|value", f"{who}: the returned value must be the deserialized one",
              instance=f"{who}: Ok(v) is T::deserialize's value")
    # end-of-input
    good_end = [x for x in en if dt.derives_from_call(b, x[1]["args"][0], ds[0][0], tr) and cfg.dominates(de[0][0], x[0]) and dt.dominated_by_success(cfg, F, x[0], okbb)]
    ctx.check(len(good_end) >= 1, "R6.1", b.loc(oks_s["ln"]), f"{who}|end-of-input",
              f"{who}: Ok(value) is not dominated by a successful end-of-input validation (DeserializerState::end on the same state, after deserializing): trailing data would be accepted",
              instance=f"{who}: Ok dominated by state.end()? Ok-edge")


def pipeline_table(ctx, crate, trait, fn_body):
    """R6.1 as a decision table (minterp): the request deserializer is interpreted once per combination of
    (encoding lookup ok / fails, bounded read ok / fails, T::deserialize ok / fails, end-of-input validation ok / fails) with
    those four steps as atoms; it must return Ok(the deserialized value) exactly when all four succeed, having read the
    body with Some(<its const limit>), built the deserializer of the looked-up encoding over the buffer read, driven that
    state's deserializer and validated the end of input on the same state after deserializing.  -> True when every row stayed
    inside the interpretable fragment."""
    from .. import minterp
    F = ctx.F
    OPTP, RESP = "core::option::Option", "core::result::Result"
    who = f"StdRequestDeserializer::{'async ' if 'Async' in trait else ''}deserialize"
    names = [fn_body.local_name(k) for k in range(1, fn_body.argc + 1)]
    bad, done = [], 0
    for enc_ok in (True, False):
        for read_ok in (True, False):
            for parse_ok in (True, False):
                for end_ok in (True, False):
                    trace = []

                    def oracle(f, argv, enc_ok=enc_ok, read_ok=read_ok, parse_ok=parse_ok, end_ok=end_ok, trace=trace):
                        n, dd = f.get("name"), f.get("def", "")
                        rd = (f.get("resolved") or {}).get("def") or ""
                        if n == "request_body_encoding":
                            trace.append(("lookup", list(argv)))
                            return minterp.adt(RESP, 0, [("sym", "encoding")]) if enc_ok else minterp.adt(RESP, 1, [("sym", "lookup-error")])
                        if n in ("read_body", "async_read_body") and dd.startswith("conjure_http::private::"):
                            trace.append(("read", list(argv)))
                            return minterp.adt(RESP, 0, [("sym", "buf")]) if read_ok else minterp.adt(RESP, 1, [("sym", "read-error")])
                        if dd == "conjure_http::server::encoding::Encoding::deserializer":
                            trace.append(("state", list(argv)))
                            return ("sym", "state")
                        if dd == "conjure_http::server::encoding::DeserializerState::deserializer":
                            trace.append(("de", list(argv)))
                            return ("sym", "de")
                        if dd == "serde_core::de::Deserialize::deserialize" or dd == "serde::de::Deserialize::deserialize":
                            trace.append(("parse", list(argv)))
                            return minterp.adt(RESP, 0, [("sym", "value")]) if parse_ok else minterp.adt(RESP, 1, [("sym", "parse-error")])
                        if dd == "conjure_http::server::encoding::DeserializerState::end":
                            trace.append(("end", list(argv)))
                            return minterp.adt(RESP, 0, [("tuple", [])]) if end_ok else minterp.adt(RESP, 1, [("sym", "trailing-data")])
                        return minterp.NO_VALUE
                    I = minterp.Interp(F, crate, inline=lambda d_, rid: crate.body(rid) is not None and crate.body(rid).name not in ("read_body", "async_read_body", "request_body_encoding"), max_depth=4)
                    I.call_oracle = oracle
                    args = [("sym", nm or f"a{k}") for k, nm in enumerate(names)]
                    try:
                        r = I.run(fn_body, args)
                        if isinstance(r, tuple) and r and r[0] == "closure" and crate.body(r[1]) is not None and crate.body(r[1]).kind == "coroutine":
                            r = I.run(crate.body(r[1]), [r, ("sym", "cx")], depth=1)
                    except minterp.Unsupported as e:
                        ctx.note(f"R6.1 {who}: decision table not available ({e}); decided by the structural rules")
                        return False
                    if not (minterp.is_adt(r) and r[1] == RESP):
                        ctx.note(f"R6.1 {who}: decision table not available (result {r!r:.80}); decided by the structural rules")
                        return False
                    done += 1
                    row = f"encoding lookup {'ok' if enc_ok else 'fails'}, read {'ok' if read_ok else 'fails'}, T::deserialize {'ok' if parse_ok else 'fails'}, end-of-input {'ok' if end_ok else 'fails'}"
                    want_ok = enc_ok and read_ok and parse_ok and end_ok
                    if (r[2] == 0) != want_ok:
                        bad.append(f"{row}: returns {'Ok' if r[2] == 0 else 'Err'}, specification {'Ok' if want_ok else 'Err'}")
                        continue
                    if not want_ok:
                        continue
                    steps = [t[0] for t in trace]
                    tmap = {t[0]: t[1] for t in trace}

                    def view(v, sym):
                        while isinstance(v, tuple) and v and v[0] == "call" and v[1].split("::")[-1] in ("deref", "as_ref", "borrow", "deref_mut", "as_mut", "as_slice") and v[2]:
                            v = v[2][0]
                        return v == ("sym", sym)
                    problems = []
                    if r[3][0] != ("sym", "value"):
                        problems.append(f"the value returned is {r[3][0]!r:.60}, not the deserialized one")
                    if steps != ["lookup", "read", "state", "de", "parse", "end"]:
                        problems.append(f"steps performed: {steps}; required: lookup, bounded read, Encoding::deserializer, state.deserializer(), T::deserialize, state.end()")
                    else:
                        lim = tmap["read"][1] if len(tmap["read"]) == 2 else None
                        lim_ok = minterp.is_adt(lim) and lim[1] == OPTP and lim[2] == 1 and (lim[3][0] == ("tyconst", "N") or (isinstance(lim[3][0], tuple) and lim[3][0] and lim[3][0][0] == "item" and "SIZE_LIMIT" in lim[3][0][1])
                                                                                              or (isinstance(lim[3][0], int) and not isinstance(lim[3][0], bool) and lim[3][0] > 0 and False))
                        if not lim_ok:
                            problems.append(f"the body is read with limit {lim!r:.60}; required Some(<the deserializer's const size limit>)")
                        if not (tmap["read"][0] == ("sym", "body") or tmap["read"][0] == ("sym", names[-1] or "")):
                            problems.append("the bounded read is not handed the request body")
                        if not (len(tmap["state"]) == 2 and view(tmap["state"][0], "encoding") and view(tmap["state"][1], "buf")):
                            problems.append("the deserializer must be the looked-up encoding's, over the buffer read")
                        if not (view(tmap["de"][0], "state") and view(tmap["parse"][0], "de") and view(tmap["end"][0], "state")):
                            problems.append("T::deserialize must drive the state's deserializer and end() must validate the same state")
                    if problems:
                        bad.append(f"{row}: " + "; ".join(problems))
    ctx.check(not bad, "R6.1", fn_body.loc(), f"{who}|pipeline-table", f"{who}: " + "; ".join(bad[:3]), instance=f"{who}: {done} rows (lookup x read x deserialize x end-of-input) = specification: Ok(value) iff all four succeed, one bounded read, same encoding / buffer / state")
    return True


def check_state_ends(ctx, crate):
    """the local DeserializerState impls forward end() to the server deserializer's end()"""
    n = 0
    for i in crate.impls_of("conjure_http::server::encoding::DeserializerState"):
        n += 1
        ms = crate.methods_of_impl(i)
        a = ty_adt(i["self_ty"])
        if "end" not in ms:
            ctx.violation("R6.1", f"{i['file']}:{i['line']}", f"{a}|end|missing", f"{a} does not override DeserializerState::end: the provided default performs no validation")
            continue
        b = ms["end"]
        ends = [t for _, t in b.calls() if t["call"]["name"] == "end" and ty_adt(t["call"].get("self_ty")) and "ServerDeserializer" in ty_adt(t["call"]["self_ty"])]
        tr = Tracer(b, through_calls=True)
        oks = dt.ok_return_blocks(b)
        ctx.check(len(ends) == 1 and not oks, "R6.1", b.loc(), f"{a}|end|forward", f"{a}::end must return the result of the server deserializer's end() (no unconditional Ok)",
                  instance=f"{a.split('::')[-1]}::end -> ServerDeserializer::end")
        dz = ms.get("deserializer")
        if dz is not None:
            used = {ty_adt(n_) for _, t in dz.calls() for s in t["call"].get("substs", []) for n_ in walk_ty(s) if "adt" in n_ and "Deserializer" in n_["adt"] and "conjure_serde" in n_["adt"]}
            ctx.check(all("Server" in u for u in used) and used, "R6.1", dz.loc(), f"{a}|server-rules", f"{a} deserializes with {sorted(used)}; request bodies must use the server (strict) deserializer",
                      instance=f"{a.split('::')[-1]} uses {sorted(u.split('::')[-1] for u in used)}")
    ctx.floor("R6.1", "DeserializerState impls", n, 2)


# ---------------------------------------------------------------------------------------- R6.2
def accumulator_locals(body, op):
    """groups of locals of type Bytes/BytesMut reached when tracing the returned operand back through moves / freeze.
    One group = one accumulator (the same buffer under several names, e.g. a helper's local moved into the caller's)."""
    group = set()
    seen = set()

    def rec(o, depth=0):
        p = op_place(o)
        if p is None or depth > 30:
            return
        l = place_local(p)
        if l in seen:
            return
        seen.add(l)
        t = tystr(strip_refs(body.local_ty(l)))
        ds = body.defs().get(l, [])
        is_acc = t in ("bytes::bytes::Bytes", "bytes::bytes_mut::BytesMut")
        if is_acc:
            group.add(l)
        for bb, j, s in ds:
            if j == "T":
                if s["call"]["name"] in ("freeze", "into", "from", "clone", "split", "split_to", "copy_to_bytes") and s["args"]:
                    rec(s["args"][0], depth + 1)
            else:
                r = s["r"]
                if "use" in r:
                    rec(r["use"], depth + 1)
                elif "ref" in r:
                    rec({"cp": r["ref"]}, depth + 1)
    rec(op)
    named = sorted(l for l in group if body.local_name(l) and not body.locals[l].get("inl")) or sorted(l for l in group if body.local_name(l)) or sorted(group)
    # one accumulator per independent named root in the caller; aliases (moves) are merged into the group of the first
    return [frozenset(group)] if group else [], (named[0] if named else None)


def slice_of(body, op, acc):
    tr = Tracer(body)
    return acc in tr.root_locals(op) or any(src == ("local", acc) for src in tr.sources(op))


def refers_to_local(body, op, local, depth=0):
    """operand is (a reborrow / deref chain of) `local`"""
    p = op_place(op)
    if p is None or depth > 12:
        return False
    l = place_local(p)
    if l == local:
        return True
    ds = body.defs().get(l, [])
    if len(ds) != 1:
        return False
    bb, j, s = ds[0]
    if j == "T":
        if s["call"]["def"] in Tracer.TRANSPARENT and s["args"]:
            return refers_to_local(body, s["args"][0], local, depth + 1)
        return False
    r = s["r"]
    if "use" in r:
        return refers_to_local(body, r["use"], local, depth + 1)
    if "ref" in r:
        return place_local(r["ref"]) == local or refers_to_local(body, {"cp": place_local(r["ref"])}, local, depth + 1)
    return False


def measures_local(body, op, local, depth=0):
    """operand is `local` (by reference) or the value of len()/remaining() of `local`"""
    if refers_to_local(body, op, local):
        return True
    p = op_place(op)
    if p is None or depth > 6:
        return False
    ds = body.defs().get(place_local(p), [])
    if len(ds) != 1:
        return False
    bb, j, s = ds[0]
    if j == "T":
        if s["call"]["name"] in ("len", "remaining") and s["args"]:
            return refers_to_local(body, s["args"][0], local) or measures_local(body, s["args"][0], local, depth + 1)
        if s["call"]["def"] in Tracer.TRANSPARENT and s["args"]:
            return measures_local(body, s["args"][0], local, depth + 1)
        return False
    if "use" in s["r"]:
        return measures_local(body, s["r"]["use"], local, depth + 1)
    return False


def is_limit_ty(F, t):
    """the size limit: Option<usize>, or a local newtype around it (`struct SizeLimit(Option<usize>)`)"""
    if t is None:
        return False
    if "Option<usize>" in tystr(t):
        return True
    a = F.adt(ty_adt(strip_refs(t)) or "") if F is not None else None
    return bool(a and a.get("local") and a["kind"] == "struct" and len(a["variants"][0]["fields"]) == 1 and "Option<usize>" in tystr(a["variants"][0]["fields"][0]["ty"]))


def is_limit_check(body):
    """a local function taking the size limit — analysed on its own (check_limit_fn), never inlined"""
    return any(is_limit_ty(body.facts, body.local_ty(k)) for k in range(1, body.argc + 1)) and "Result<()" in tystr(body.local_ty(0))


def expand_reader(crate, b):
    return inline.expand(crate, b, depth=2, pred=lambda cb: not is_limit_check(cb), max_callee_blocks=250)


class _Buffered:
    """records check / violation / ok / floor calls so that a form of a rule can be tried and replayed or discarded"""
    def __init__(self, ctx):
        self.F, self.ctx, self.calls, self.bad = ctx.F, ctx, [], 0

    def check(self, cond, *a, **k):
        self.calls.append(("check", (cond,) + a, k))
        self.bad += 0 if cond else 1
        return cond

    def violation(self, *a, **k):
        self.calls.append(("violation", a, k))
        self.bad += 1

    def ok(self, *a, **k):
        self.calls.append(("ok", a, k))

    def note(self, *a, **k):
        self.calls.append(("note", a, k))

    def floor(self, rule, name, measured, floor):
        self.calls.append(("floor", (rule, name, measured, floor), {}))
        self.bad += 1 if measured < floor else 0

    def replay(self):
        for kind, a, k in self.calls:
            getattr(self.ctx, kind)(*a, **k)


def check_reader_paths(ctx, crate, b, limited, rule):
    """Representation-independent form of the reader rule (used when the buffer is not a plain accumulator local — a state
    enum, a struct): on every path from the arrival of a chunk (the Some edge of a match on next() / try_next()) to the next
    pull or to an Ok return, a size-limit check succeeds; Ok is returned only after the stream reported its end; stream items
    are consumed through `?` only.  Returns True when all of it holds."""
    F = ctx.F
    b_plain = b
    for ibb, t in [(bb, t) for bb, t in b_plain.calls() if t["call"]["name"] in ("next", "try_next")]:
        if not consumed_by_try_only(b_plain, place_local(t["dest"])):
            return False
    # the path argument is made on the lowered body (`?` and combinators as matches, known variants threaded): an Err built
    # inside a spliced helper then leaves through the Err arm of the caller's `?` instead of merging with its Ok
    orig = crate.body(b.id)
    if orig is not None:
        b = inline.expand(crate, orig, depth=2, pred=lambda cb: not is_limit_check(cb), max_callee_blocks=250, lower=True)
    cfg = CFG(b)
    vt = dt.value_tracer(b)
    item_calls = [(bb, t) for bb, t in b.calls() if t["call"]["name"] in ("next", "try_next")]
    oks = [o for o in dt.ok_return_blocks(b) if o[2]["r"]["variant"] == "Ok" and o[2]["r"].get("adt") == "core::result::Result" and "Bytes" in tystr(b.local_ty(place_local(o[2]["d"])) or {})]
    if not item_calls or not oks:
        return False
    some_targets, none_targets = set(), set()
    for sbb, blk in enumerate(b.blocks):
        if "switch" not in blk["t"]:
            continue
        atom = dt.switch_atom(b, sbb)
        if atom[0] != "discr" or ty_adt(dt.place_ty(b, F, atom[1]) or {}) != "core::option::Option":
            continue
        if not any(dt.derives_from_call(b, {"cp": atom[1]}, ibb, vt) for ibb, _ in item_calls):
            continue
        tmap = dict((v, x) for v, x in blk["t"]["targets"])
        none_t = tmap.get(0) if 0 in tmap else (blk["t"]["otherwise"] if set(tmap) == {1} else None)
        some_t = tmap.get(1) if 1 in tmap else (blk["t"]["otherwise"] if set(tmap) == {0} else None)
        if some_t is not None:
            some_targets.add(some_t)
        if none_t is not None and none_t != some_t and set(cfg.pred[none_t]) == {sbb}:
            none_targets.add(none_t)
    if not some_targets or not none_targets:
        return False
    okbbs = {o[0] for o in oks}
    if not all(any(cfg.dominates(tg, okbb) for tg in none_targets) for okbb in okbbs):
        return False
    if limited:
        lim_calls = [(bb, t) for bb, t in b.calls() if t["call"].get("local") and crate.body(t["call"].get("id")) is not None and is_limit_check(crate.body(t["call"]["id"]))]
        if not lim_calls:
            return False
        succ_edges = set()
        for cbb, t in lim_calls:
            for sbb, v in dt.success_edges(b, F, place_local(t["dest"])):
                sw = b.blocks[sbb]["t"]
                for val, tg in [(v_, tg_) for v_, tg_ in sw["targets"]] + [(None, sw["otherwise"])]:
                    if val == v and cfg.dominates(cbb, sbb):
                        succ_edges.add((sbb, tg))
        pulls = {bb for bb, _ in item_calls}
        for st in some_targets:
            seen, stack = set(), [st]
            while stack:
                x = stack.pop()
                if x in seen:
                    continue
                seen.add(x)
                if x in pulls or x in okbbs:
                    return False
                for y in cfg.succ[x]:
                    if (x, y) not in succ_edges:
                        stack.append(y)
    return True


READER_ERR = "<stream error>"
READER_MODELS = [   # (stream items, size limit): chunkings (empty chunks included), stream errors at every position, limits around the total
    ([], None), ([], 0), ([b"ab"], None), ([b"ab", b"c"], None), ([b"ab", b"c", b"de", b"f"], None), ([b"", b"ab"], None), ([b"ab", b""], None), ([b"ab", b"", b"c"], None),
    ([b"a", b"b", b"", b"", b"c"], None), ([b""], None), ([b"", b""], None), ([b"", b"", b"a"], 1),
    ([READER_ERR], None), ([b"ab", READER_ERR], None), ([b"ab", b"c", READER_ERR], None), ([b"ab", b"c", b"d", READER_ERR], None), ([b"ab", READER_ERR, b"c"], None), ([b"", READER_ERR], None),
    ([b"abc"], 2), ([b"abc"], 3), ([b"abc"], 4), ([b"ab", b"c"], 2), ([b"ab", b"c"], 3), ([b"ab", b"c", b"d"], 3), ([b"ab", b"c", b"d"], 4), ([b"a", b"b", b"c", b"d", b"e"], 4), ([b"a", b"b", b"c", b"d", b"e"], 5),
    ([b"a"], 0), ([b"ab", b"c", READER_ERR], 2), ([b"abc", b"d", b"e"], 1000),
]


def reader_table(ctx, crate, fn_body, rule, who):
    """The body reader decided by interpretation over small models (minterp): the stream is a scripted sequence of chunks and
    errors, `Bytes` / `BytesMut` / `Vec<u8>` live on a little heap kept by the call oracle, `.await` completes at once.  For
    every model the result must be Ok(concatenation of all chunks) when no item is an error and the total length is within
    the limit, and Err otherwise.  -> True when every model stayed inside the interpretable fragment (the verdict is then
    recorded), False when the structural forms have to decide."""
    import itertools
    from .. import minterp
    F = ctx.F
    OPTP, RESP = "core::option::Option", "core::result::Result"
    lim_idx = [k for k in range(1, fn_body.argc + 1) if is_limit_ty(F, fn_body.local_ty(k))]
    it_idx = [k for k in range(1, fn_body.argc + 1) if k not in lim_idx]
    if len(lim_idx) != 1 or len(it_idx) != 1:
        return False
    bad, done = [], 0
    for chunks, limit in READER_MODELS:
        heap = {}
        cnt = itertools.count()

        def new(kind, val, heap=heap, cnt=cnt):
            k = next(cnt)
            heap[k] = val
            return (kind, k)
        it = new("iter", [("bytes", x) if x != READER_ERR else READER_ERR for x in chunks])

        def blen(v, heap=heap):
            if isinstance(v, tuple) and v and v[0] == "bytes":
                return len(v[1])
            if isinstance(v, tuple) and v and v[0] == "buf":
                return len(heap[v[1]])
            return None

        def bval(v, heap=heap):
            if isinstance(v, tuple) and v and v[0] == "bytes":
                return v[1]
            if isinstance(v, tuple) and v and v[0] == "buf":
                return bytes(heap[v[1]])
            return None

        def oracle(f, argv, heap=heap, new=new, it=it, blen=blen, bval=bval):
            n, dd = f.get("name"), f.get("def", "")
            if n in ("into_iter", "by_ref", "fuse", "as_mut", "get_mut", "into_stream", "peekable") and argv and argv[0] == it:
                return it
            if n in ("next", "try_next") and argv and argv[0] == it:
                l = heap[it[1]]
                x = l.pop(0) if l else None
                if n == "next":
                    return minterp.adt(OPTP, 0, []) if x is None else minterp.adt(OPTP, 1, [minterp.adt(RESP, 1, [("sym", "stream-error")]) if x == READER_ERR else minterp.adt(RESP, 0, [x])])
                return minterp.adt(RESP, 0, [minterp.adt(OPTP, 0, [])]) if x is None else (minterp.adt(RESP, 1, [("sym", "stream-error")]) if x == READER_ERR else minterp.adt(RESP, 0, [minterp.adt(OPTP, 1, [x])]))
            if n in ("new", "with_capacity", "default") and (dd.startswith("bytes::bytes_mut::BytesMut") or dd.startswith("alloc::vec::Vec")) and (not argv or n == "with_capacity"):
                return new("buf", bytearray())
            if n == "new" and dd.startswith("bytes::bytes::Bytes") and not argv:
                return ("bytes", b"")
            if n == "reserve" and argv and isinstance(argv[0], tuple) and argv[0] and argv[0][0] == "buf":
                return ("tuple", [])
            if n in ("extend_from_slice", "put", "put_slice", "extend", "unsplit") and len(argv) == 2 and isinstance(argv[0], tuple) and argv[0] and argv[0][0] == "buf" and bval(argv[1]) is not None:
                heap[argv[0][1]] += bval(argv[1])
                return ("tuple", [])
            if n in ("freeze", "from", "into", "copy_from_slice", "to_vec", "split", "split_to") and argv and isinstance(argv[-1], tuple) and argv[-1] and argv[-1][0] in ("buf", "bytes") and len(argv) == 1:
                if n in ("split", "split_to"):
                    return minterp.NO_VALUE
                return ("bytes", bval(argv[-1]))
            # a Vec of chunks (`vec![first, second]`, push, index, iteration)
            if n in ("into_vec", "box_assume_init_into_vec_unsafe") and argv and isinstance(argv[0], tuple) and argv[0] and argv[0][0] == "array":
                return new("list", list(argv[0][1]))
            if n in ("new", "with_capacity") and dd.startswith("alloc::vec::Vec") and f.get("substs") and "Bytes" in tystr(f["substs"][0]):
                return new("list", [])
            if argv and isinstance(argv[0], tuple) and argv[0] and argv[0][0] == "list" and argv[0][1] in heap:
                l_ = heap[argv[0][1]]
                if n == "push" and len(argv) == 2:
                    l_.append(argv[1])
                    return ("tuple", [])
                if n in ("index", "index_mut") and len(argv) == 2 and isinstance(argv[1], int) and not isinstance(argv[1], bool):
                    if not 0 <= argv[1] < len(l_):
                        raise minterp.Unsupported("index out of range: the code panics here")
                    return l_[argv[1]]
                if n == "len":
                    return len(l_)
                if n == "is_empty":
                    return not l_
                if n in ("iter", "into_iter", "drain"):
                    return ("iter", minterp._It(list(l_)))
                if n in ("deref", "as_slice", "as_ref", "borrow", "deref_mut", "reserve"):
                    return argv[0] if n != "reserve" else ("tuple", [])
                if n in ("concat",):
                    return ("bytes", b"".join(bval(x_) for x_ in l_))
            if n == "len" and argv and blen(argv[0]) is not None:
                return blen(argv[0])
            if n == "is_empty" and argv and blen(argv[0]) is not None:
                return blen(argv[0]) == 0
            return minterp.NO_VALUE
        I = minterp.Interp(F, crate, inline=lambda d_, rid: True, max_depth=4)
        I.call_oracle = oracle
        args = [None] * fn_body.argc
        args[it_idx[0] - 1] = it
        lty = tystr(fn_body.local_ty(lim_idx[0]))
        if lty.startswith("core::option::Option"):
            args[lim_idx[0] - 1] = minterp.adt(OPTP, 0, []) if limit is None else minterp.adt(OPTP, 1, [limit])
        else:
            if limit is None:
                continue
            args[lim_idx[0] - 1] = limit
        try:
            r = I.run(fn_body, args)
            if isinstance(r, tuple) and r and r[0] == "closure" and crate.body(r[1]) is not None and crate.body(r[1]).kind == "coroutine":
                r = I.run(crate.body(r[1]), [r, ("sym", "cx")], depth=1)
        except minterp.Unsupported as e:
            ctx.note(f"{rule} {who}: small-model table not available ({e}); decided by the structural forms")
            return False
        if not (minterp.is_adt(r) and r[1] == RESP):
            ctx.note(f"{rule} {who}: small-model table not available (result {r!r:.80}); decided by the structural forms")
            return False
        total = b"".join(x for x in chunks if x != READER_ERR)
        want_ok = READER_ERR not in chunks and (limit is None or len(total) <= limit)
        got_ok = r[2] == 0
        val = bval(r[3][0]) if got_ok else None
        done += 1
        show = [x.decode() if x != READER_ERR else x for x in chunks]
        if got_ok != want_ok:
            bad.append(f"stream {show}, limit {limit}: returns {'Ok' if got_ok else 'Err'}, specification {'Ok' if want_ok else 'Err'}")
        elif got_ok and val != total:
            bad.append(f"stream {show}, limit {limit}: returns Ok({val!r}), the complete body is {total!r}")
    ctx.check(not bad, rule, fn_body.loc(), f"{who}|reassembly-table", f"{who}: the body must be returned complete however it is chunked, a stream error or an over-limit body must be an error: " + "; ".join(bad[:3]),
              instance=f"{who}: {done} small models (chunkings x stream errors x limits) = specification")
    return True


def check_reader(ctx, crate, b, limited=True, rule="R6.2"):
    """decided by the small-model table when the reader stays inside the interpretable fragment; otherwise the accumulator
    form of the structural rule and, when that does not apply to the way the reader keeps its data, the path form"""
    orig = crate.body(b.id)
    outer = orig
    if orig is not None and orig.kind == "coroutine" and getattr(orig, "parent", None):
        outer = crate.body(orig.parent) or orig
    who_ = outer.name if outer is not None else "reader"
    if outer is not None and outer.kind == "fn" and reader_table(ctx, crate, outer, rule, who_):
        return True
    buf = _Buffered(ctx)
    check_reader_acc(buf, crate, b, limited, rule)
    who = b.path.split("::")[-1] if b.kind != "coroutine" else "async_read_body"
    if buf.bad and check_reader_paths(ctx, crate, b, limited, rule):
        ctx.ok(rule, b.loc(), f"{who}: (path form) after every chunk a size-limit check succeeds before the next pull / before Ok; Ok only after the stream ended; items consumed through `?`")
        ctx.note(f"{rule} {who}: the accumulator form of the rule does not match how this reader keeps its data ({buf.bad} unmet clause(s)); decided in the representation-independent path form")
        return
    buf.replay()


def check_reader_acc(ctx, crate, b, limited=True, rule="R6.2"):
    """typestate over read_body / async_read_body"""
    F = ctx.F
    cfg = CFG(b)
    who = b.path.split("::")[-1] if b.kind != "coroutine" else "async_read_body"
    vt = dt.value_tracer(b)
    item_calls = [(bb, t) for bb, t in b.calls() if t["call"]["name"] in ("next", "try_next")]
    if not item_calls:
        ctx.violation(rule, b.loc(), f"{who}|stream-items", f"{who}: no stream item acquisition (next/try_next) found")
        return
    oks = [o for o in dt.ok_return_blocks(b) if o[2]["r"]["variant"] == "Ok"]
    n_paths = 0
    limit_param = None
    for k in range(1, b.argc + 1):
        pass
    for okbb, _, s in oks:
        groups, shown = accumulator_locals(b, s["r"]["ops"][0])
        for grp in groups:
            accname = b.local_name(shown) if shown is not None else "?"
            # data-adding events on the accumulator (under any of its names)
            events = []
            for bb, j, st in b.stmts():
                if place_local(st["d"]) in grp and not place_proj(st["d"]) and "use" in st["r"]:
                    if any(dt.derives_from_call(b, st["r"]["use"], ibb, vt) for ibb, _ in item_calls) and not (op_place(st["r"]["use"]) is not None and place_local(op_place(st["r"]["use"])) in grp):
                        events.append((bb, "bind", st["ln"]))
            for bb, t in b.calls():
                if t["call"]["name"] in ("extend_from_slice", "put", "put_slice", "extend", "unsplit", "push") and t["args"] and any(refers_to_local(b, t["args"][0], a_) for a_ in grp):
                    events.append((bb, "extend", t["ln"]))
            if not limited:
                n_paths += len(events)
                continue
            checks = []
            for bb, t in b.calls():
                f = t["call"]
                if f.get("local") and len(t["args"]) == 2:
                    for mi, li in ((0, 1), (1, 0)):
                        if any(measures_local(b, t["args"][mi], a_) for a_ in grp) and op_place(t["args"][li]) is not None and is_limit_ty(F, b.local_ty(place_local(op_place(t["args"][li])))):
                            checks.append((bb, t))
                            break
            succ_edges = set()
            for cbb, t in checks:
                for sbb, v in dt.success_edges(b, F, place_local(t["dest"])):
                    sw = b.blocks[sbb]["t"]
                    for val, tg in [(v_, tg_) for v_, tg_ in sw["targets"]] + [(None, sw["otherwise"])]:
                        if val == v and cfg.dominates(cbb, sbb):
                            succ_edges.add((sbb, tg))
            for ebb, kind, ln in events:
                n_paths += 1
                # reachability from the event to the Ok return avoiding the checks' success edges
                seen = set()
                stack = list(cfg.succ[ebb]) if kind == "extend" else [ebb]
                bad = False
                while stack:
                    x = stack.pop()
                    if x in seen:
                        continue
                    seen.add(x)
                    if x == okbb:
                        bad = True
                        break
                    for y in cfg.succ[x]:
                        if (x, y) in succ_edges:
                            continue
                        stack.append(y)
                ctx.check(not bad, rule, b.loc(ln), f"{who}|unchecked|{kind}|{accname}",
                          f"{who}: data is added to `{accname}` (line {ln}, {kind}) and an Ok return of it is reachable without crossing the success edge of a limit check on `{accname}`",
                          instance=f"{who}: every path from {kind} into `{accname}` (line {ln}) to Ok crosses check_limit({accname}) == Ok")
            ctx.check(bool(checks) or not events, rule, b.loc(), f"{who}|checks|{accname}", f"{who}: no limit check on the accumulator `{accname}`", nontrivial=False)
    ctx.floor(rule, f"{who}: data-adding events on returned accumulators", n_paths, 2)
    # exhaustion: a body is complete only when the stream reported its end — every Ok return is dominated by the None edge
    # of a match on an item obtained from the stream (not by an edge that a Some(..) item can also take)
    none_targets = set()
    for sbb, blk in enumerate(b.blocks):
        if "switch" not in blk["t"]:
            continue
        atom = dt.switch_atom(b, sbb)
        if atom[0] != "discr":
            continue
        pty = dt.place_ty(b, F, atom[1]) or {}
        if ty_adt(pty) != "core::option::Option":
            continue
        if not any(dt.derives_from_call(b, {"cp": atom[1]}, ibb, vt) for ibb, _ in item_calls):
            continue
        tmap = dict((v, x) for v, x in blk["t"]["targets"])
        # Option has two variants: the None edge is the explicit 0 target, or the otherwise edge when only Some (1) is listed
        tg = tmap.get(0) if 0 in tmap else (blk["t"]["otherwise"] if set(tmap) == {1} else None)
        some_tg = tmap.get(1) if 1 in tmap else (blk["t"]["otherwise"] if set(tmap) == {0} else None)
        if tg is not None and tg != some_tg and set(cfg.pred[tg]) == {sbb}:
            none_targets.add(tg)
    for oi, (okbb, _, s) in enumerate(sorted(oks, key=lambda o: o[2]["ln"])):
        ok = any(cfg.dominates(tg, okbb) for tg in none_targets)
        ctx.check(ok, rule, b.loc(s["ln"]), f"{who}|exhausted|ok#{oi}", f"{who}: an Ok return (line {s['ln']}) is reachable without the stream having reported its end (None): a body could be cut short after an item that merely looks final",
                  instance=f"{who}: Ok at line {s['ln']} only after the stream returned None")
    # completeness of reassembly: every item obtained is bound to / appended to an accumulator or is the end marker
    # stream errors: item results are only consumed through `?`
    for ibb, t in item_calls:
        ok = consumed_by_try_only(b, place_local(t["dest"]))
        ctx.check(ok, rule, b.loc(t["ln"]), f"{who}|stream-error|{t['call']['name']}", f"{who}: the result of {t['call']['name']}() is consumed other than through `?` (a stream error could be swallowed or mistaken for end of body)",
                  instance=f"{who}: {t['call']['name']}() -> (transpose/await) -> ?")
    sw = [t["call"]["def"] for _, t in b.calls() if t["call"]["name"] in SWALLOW and ("result::Result" in t["call"]["def"] or "option::Option" in t["call"]["def"])
          and t["call"]["name"] not in ("unwrap", "expect")]
    ctx.check(not sw, rule, b.loc(), f"{who}|no-swallow", f"{who}: error-swallowing combinators used: {sw}", instance=f"{who}: no ok()/unwrap_or*/is_ok on stream results")


def consumed_by_try_only(body, local, depth=0, seen=None):
    seen = seen or set()
    if local in seen or depth > 14:
        return True
    seen.add(local)
    uses = dt.uses_of_local(body, local)
    ok = True
    for bb, j, item in uses:
        if j == "T":
            if "call" in item:
                d = item["call"]["def"]
                if d == dt.TRY_BRANCH:
                    continue
                if d in dt.AWAIT_TRANSPARENT or item["call"]["name"] == "transpose":
                    ok = ok and consumed_by_try_only(body, place_local(item["dest"]), depth + 1, seen)
                    continue
                return False
            if "switch" in item:
                continue
            return False
        r = item["r"]
        dst = place_local(item["d"])
        if "ref" in r or ("use" in r and not place_proj(op_place(r["use"]) or 0)):
            ok = ok and consumed_by_try_only(body, dst, depth + 1, seen)
        elif "discr" in r:
            # the await's Poll discriminant and the end-of-stream test on Option are allowed
            ty_ = tystr(body.local_ty(local))
            if not (ty_.startswith("core::task::poll::Poll") or ty_.startswith("core::option::Option")):
                return False
        elif "use" in r:
            pr = place_proj(op_place(r["use"]))
            if any(isinstance(e, dict) and e.get("n") in ("Ready", "Some") for e in pr):
                ok = ok and consumed_by_try_only(body, dst, depth + 1, seen)
            else:
                return False
        else:
            return False
    return ok


def check_limit_fn(ctx, crate, readers):
    """the limit check rejects exactly len > limit"""
    ids = set()
    for b in readers:
        for bb, t in b.calls():
            f = t["call"]
            if f.get("local") and len(t["args"]) == 2 and any(op_place(a_) is not None and is_limit_ty(b.facts, b.local_ty(place_local(op_place(a_)))) for a_ in t["args"]) \
                    and "Result<()" in tystr(b.local_ty(place_local(t["dest"]))):
                ids.add(f["id"])
    ctx.check(len(ids) == 1, "R6.2", "conjure_http", "limit-check|unique", f"expected one shared limit-check function, found {sorted(ids)}", nontrivial=False)
    for i in ids:
        b = inline.expand(crate, crate.body(i), depth=1, pred=lambda cb: cb.d.get("vis") != "pub", lower=True)
        cfg = CFG(b)
        tr = dt.value_tracer(b)
        rets_ = dt.return_aliases(b)
        errs = [(bb, j, s) for bb, j, s in b.stmts() if place_local(s["d"]) in rets_ and not place_proj(s["d"]) and s["r"].get("variant") == "Err" and s["r"].get("adt") == "core::result::Result"]
        oks = dt.ok_return_blocks(b)
        good = len(errs) == 1
        if good:
            conds = []
            for sbb, allowed, allv in dt.edge_conditions(cfg, errs[0][0]):
                atom = dt.switch_atom(b, sbb)
                if atom[0] == "bin":
                    op, x, y = atom[1], atom[2], atom[3]
                    pol = dt.bool_polarity(allowed)
                    # the measured size: len() of the buffer parameter, or a usize parameter (callers pass len(), see check_reader)
                    size_param = [k for k in range(1, b.argc + 1) if tystr(b.local_ty(k)) == "usize"]
                    xl = any(s[0] == "call" and b.blocks[s[1]]["t"]["call"]["name"] == "len" for s in tr.sources(x)) or bool(size_param and tr.root_locals(x) == set(size_param))
                    yl = any(s[0] == "call" and b.blocks[s[1]]["t"]["call"]["name"] == "len" for s in tr.sources(y)) or bool(size_param and tr.root_locals(y) == set(size_param))
                    if yl and not xl:
                        op = {"Lt": "Gt", "Le": "Ge", "Gt": "Lt", "Ge": "Le"}.get(op, op)
                        xl, x, y = True, y, x
                    if not pol:
                        op = {"Lt": "Ge", "Le": "Gt", "Gt": "Le", "Ge": "Lt"}.get(op, op)
                    lp = [k for k in range(1, b.argc + 1) if is_limit_ty(b.facts, b.local_ty(k))]

                    def base_(s):
                        while s[0] == "field":
                            s = s[1]
                        return s
                    lim = bool(lp) and (lp[0] in tr.root_locals(y) or any(base_(s) == ("arg", lp[0]) for s in tr.sources(y)))
                    conds.append((op, xl, lim))
            good = conds == [("Gt", True, True)]
        ctx.check(good, "R6.2", b.loc(), f"{b.name}|rejects-gt", f"{b.name}: must return Err exactly when buf.len() > limit (found conditions {conds if errs else 'no Err'}); bodies of exactly the limit are accepted, larger ones rejected, nothing is truncated",
                  instance=f"{b.name}: Err iff len > limit")
        trunc = [t["call"]["name"] for _, t in b.calls() if t["call"]["name"] in ("truncate", "split_to", "split_off", "min")]
        ctx.check(not trunc, "R6.2", b.loc(), f"{b.name}|no-truncate", f"{b.name} truncates instead of rejecting: {trunc}", nontrivial=False)


# ---------------------------------------------------------------------------------------- R6.3
def check_error_classes(ctx, crate, bodies, rule, expected=INVALID_ARG, label="request-body"):
    n = 0
    # the bodies plus everything private they reach: closures, private callees, private functions used as values
    # (`.map_err(permission_denied)`): shared error constructors are judged wherever they live
    fam_, work = {}, list(bodies)
    while work:
        x = work.pop()
        key_ = getattr(x, "id", None)
        if key_ in fam_:
            continue
        fam_[key_] = x
        base = crate.body(x.id) or x
        work += crate.closures_of(base)
        for cid in getattr(x, "inlined", None) or []:
            if crate.body(cid) is not None:
                work += crate.closures_of(crate.body(cid))
        for _, t in x.calls():
            for f_ in [t["call"]] + [(a.get("c") or {}).get("fn") for a in t["args"]]:
                if f_ and f_.get("local") and f_.get("id"):
                    cb = crate.body(f_["id"])
                    if cb is not None and cb.kind in ("fn", "assoc_fn") and cb.d.get("vis") != "pub" and len(fam_) < 200:
                        work.append(cb)
    if True:
        for x in fam_.values():
            for bb, t in x.calls():
                if t.get("inl") and t["inl"] in fam_:
                    continue   # an inlined copy of a function that is also visited on its own
                d = t["call"]["def"]
                sites = []
                if d in ERR_CTORS:
                    sites.append(t["call"])
                for a in t["args"]:
                    f = (a.get("c") or {}).get("fn")
                    if f and f["def"] in ERR_CTORS + ERR_OTHER:
                        sites.append(f)
                if d in ERR_OTHER:
                    ctx.violation(rule, x.loc(t["ln"]), f"{x.id}|{d.split('::')[-1]}", f"{x.id}: constructs {d.split('::')[-1]} on a {label} path; the specification requires {expected.split('::')[-1]}")
                for f in sites:
                    n += 1
                    if f["def"] in ERR_OTHER:
                        ctx.violation(rule, x.loc(t["ln"]), f"{x.id}|{f['def'].split('::')[-1]}", f"{x.id}: uses {f['def']} on a {label} path")
                        continue
                    et = f["substs"][1] if len(f.get("substs", [])) > 1 else None
                    ctx.check(ty_adt(et) == expected, rule, x.loc(t["ln"]), f"{x.id}|error-type", f"{x.id}: error constructed with type {tystr(et)}, expected {expected.split('::')[-1]}",
                              instance=f"{x.id}: Error::{f['def'].split('::')[-1]}::<_, {expected.split('::')[-1]}>")
    return n


# ---------------------------------------------------------------------------------------- panic inventory
def debug_only_blocks(body):
    """blocks only reachable under `if cfg!(debug_assertions)` (debug_assert!): dominated by the true edge of a switch
    on the constant produced by the cfg! macro"""
    cfg = CFG(body)
    out = set()
    for i, blk in enumerate(body.blocks):
        t = blk["t"]
        if "switch" in t and "cfg" in str(t.get("x") or ""):
            r = dt.resolve_copy(body, t["switch"])
            if r[0] == "const" and "bool" in r[1]:
                tgt = t["otherwise"]
                for b in range(cfg.n):
                    if b in cfg.reach and cfg.edge_dominates(i, tgt, b):
                        out.add(b)
    return out


def _length_like(body, op, depth=0):
    """the operand is a small constant, the length of a live string / slice / buffer, or a sum of such"""
    c_ = op.get("c")
    if c_ is not None:
        return isinstance(c_.get("int"), int) and 0 <= c_["int"] < (1 << 32)
    if depth > 4:
        return False
    r = dt.resolve_copy(body, op)
    if r[0] == "def" and r[1][1] == "T":
        return r[1][2]["call"]["name"] in ("len", "capacity", "remaining", "len_utf8") and not r[1][2]["call"].get("local")
    if r[0] == "def":
        rv = r[1][2]["r"]
        if rv.get("bin") in ("AddWithOverflow", "Add", "AddUnchecked"):
            return _length_like(body, rv["a"], depth + 1) and _length_like(body, rv["b"], depth + 1)
    if r[0] == "place" and not isinstance(r[1], int) and r[1]["p"] and isinstance(r[1]["p"][-1], dict) and r[1]["p"][-1].get("f") == 0:
        # `.0` of a checked addition
        ds = dt.single_def(body, r[1]["l"])
        if ds is not None and ds[1] != "T" and ds[2]["r"].get("bin") == "AddWithOverflow":
            return _length_like(body, ds[2]["r"]["a"], depth + 1) and _length_like(body, ds[2]["r"]["b"], depth + 1)
    return False


def _const_index_in_literal(body, t):
    """`v[k]` with a constant k on a vector that was built by a `vec![..]` literal of more than k elements and is never shortened
    in this function"""
    if len(t["args"]) != 2 or not isinstance((t["args"][1].get("c") or {}).get("int"), int):
        return False
    k = t["args"][1]["c"]["int"]
    def base_local(op, hops=0):
        p_ = op_place(op)
        if p_ is None or hops > 8:
            return None
        l_ = place_local(p_)
        d_ = dt.single_def(body, l_)
        if d_ is not None and d_[1] != "T":
            r_ = d_[2]["r"]
            if "use" in r_:
                return base_local(r_["use"], hops + 1)
            if "ref" in r_:
                return base_local({"cp": r_["ref"]}, hops + 1)
        return l_
    v = base_local(t["args"][0])
    if v is None:
        return False
    ds = dt.single_def(body, v)
    if ds is None or ds[1] != "T" or ds[2]["call"]["name"] not in ("box_assume_init_into_vec_unsafe", "into_vec"):
        return False
    n = None
    for s_ in Tracer(body, through_calls=True).sources(ds[2]["args"][0]):
        if s_[0] == "agg":
            st = body.blocks[s_[1]]["s"][s_[2]]
            if st["r"].get("agg") == "array":
                n = len(st["r"]["ops"])
    if n is None:
        # the array is written through the box (`*_b = [a, b]`): the only array aggregate of that length feeding this vector
        arrs = [s_ for _, _, s_ in body.stmts() if s_["r"].get("agg") == "array"]
        if len(arrs) == 1:
            n = len(arrs[0]["r"]["ops"])
    if n is None or k >= n:
        return False
    for _, t2 in body.calls():
        if t2["call"]["name"] in ("truncate", "clear", "pop", "remove", "drain", "swap_remove", "split_off", "retain", "dedup") and "Vec" in t2["call"]["def"] and t2["args"] \
                and base_local(t2["args"][0]) == v:
            return False
    return True


def panic_sites(body):
    out = []
    dbg = debug_only_blocks(body)
    for i, blk in enumerate(body.blocks):
        if i in dbg:
            continue
        if blk.get("cleanup"):
            continue
        t = blk["t"]
        if "assert" in t:
            if t.get("kind") == "overflow:Add":
                # capacity arithmetic: a sum of lengths of values that coexist in memory (and small constants) fits in usize
                p_ = op_place(t["assert"])
                ds_ = dt.single_def(body, place_local(p_)) if p_ is not None else None
                if ds_ is not None and ds_[1] != "T" and ds_[2]["r"].get("bin") == "AddWithOverflow" and _length_like(body, ds_[2]["r"]["a"]) and _length_like(body, ds_[2]["r"]["b"]):
                    continue
            out.append((t["ln"], "assert:" + t["kind"], t.get("x")))
        if "call" in t:
            d = t["call"]["def"]
            nm = t["call"]["name"]
            if nm in ("unwrap", "expect") and "result::Result" in d and t["args"]:
                # formatting into a String: the sink cannot fail, so this is `ToString::to_string` spelled out (which panics in the
                # same — unreachable for the crate's own Display / Plain impls — case of a formatter returning an error)
                r_ = dt.resolve_copy(body, t["args"][0])
                if r_[0] == "def" and r_[1][1] == "T" and r_[1][2]["call"]["name"] in ("write_fmt", "write_str", "write_char") \
                        and any(tystr(strip_refs(x_)) == "alloc::string::String" for x_ in (r_[1][2]["call"].get("substs") or []) + [r_[1][2]["call"].get("self_ty") or {}]):
                    continue
            if nm in ("unwrap", "expect", "unwrap_err", "expect_err") and ("result::Result" in d or "option::Option" in d):
                out.append((t["ln"], ("Result::" if "result::Result" in d else "Option::") + nm, t.get("x")))
            if d.startswith("core::panicking::") or d.startswith("std::rt::begin_panic") or nm in ("panic_fmt", "unreachable_display", "panic_display"):
                out.append((t["ln"], d, t.get("x")))
            if nm in ("split_at", "split_at_mut", "split_off", "swap_remove", "copy_from_slice", "clone_from_slice") and (d.startswith("core::") or d.startswith("alloc::")):
                out.append((t["ln"], f"{nm} (panics when the index is out of bounds)", t.get("x")))
            if nm == "index" and "ops::index::Index" in d:
                # indexing with `..` (RangeFull) selects the whole slice / str / Vec / array and cannot fail
                if not any(ty_adt(s_) == "core::ops::range::RangeFull" for s_ in t["call"].get("substs", [])[1:2]) and not _const_index_in_literal(body, t):
                    out.append((t["ln"], "Index::index", t.get("x")))
    return out


def run(ctx):
    ctx.explanation = EXPLANATION
    ctx.assumptions = ["conjure_serde's ServerDeserializer::end validates end of input (serde_json / serde-smile)",
                       "C01/C05 decide that the server deserializers are strict at every depth"]
    F = ctx.F
    c = F.crate("conjure_http")
    ctx.units["conjure_http bodies"] = len(c.bodies)
    std = [(tr_, inline.expand(c, b_, depth=2, pred=lambda cb: cb.d.get("vis") != "pub" and not is_limit_check(cb), lower=True)) for tr_, b_ in find_impl_bodies(c, STD)]
    ctx.floor("R6.1", "StdRequestDeserializer deserialize bodies", len(std), 2)
    outer = {b_.trait: b_ for b_ in c.bodies if b_.trait in DESER_TRAITS and ty_adt(b_.self_ty) == STD and b_.name == "deserialize" and b_.kind == "assoc_fn"}
    for trait, b in std:
        if trait in outer and pipeline_table(ctx, c, trait, outer[trait]):
            continue
        check_pipeline(ctx, c, trait, b)
    check_state_ends(ctx, c)
    # R6.2 readers
    readers = []
    for b in c.bodies:
        if b.kind == "fn" and b.name in ("read_body", "async_read_body") and b.id.startswith("conjure_http::private::"):
            readers.append(expand_reader(c, real_body(c, b)))
    ctx.floor("R6.2", "body readers", len(readers), 2)
    by_table = [bool(check_reader(ctx, c, b)) for b in readers]
    if not (by_table and all(by_table)):
        # (the small-model tables exercise the limit on both sides of the total; the structural form of the limit test is the
        # fallback for a reader the tables could not evaluate)
        check_limit_fn(ctx, c, readers)
    # R6.3
    scope = [b for _, b in std] + readers
    scope += [b for b in c.bodies if b.name in ("check_limit", "request_body_encoding", "deserialize_inner") and b.kind in ("fn", "assoc_fn")]
    for adt in (OPT, BIN):
        scope += [b for _, b in find_impl_bodies(c, adt)]
    n = check_error_classes(ctx, c, scope, "R6.3")
    ctx.floor("R6.3", "error construction sites on request-body paths", n, 3)
    # R6.4 optional / binary / encoding lookup
    def content_type_presence(b, cfg, bb):
        """True / False when block bb is reached only with / only without a Content-Type header, decided by the tests that
        control it: contains_key(CONTENT_TYPE), or the Some / None arm (is_some / is_none) of get(CONTENT_TYPE)"""
        vt = dt.value_tracer(b)
        gets = [(gbb, t) for gbb, t in b.calls() if t["call"]["name"] == "get" and len(t["args"]) == 2
                and (dt.resolve_const(b, t["args"][1]) or {}).get("item") == "http::header::name::CONTENT_TYPE"]
        verdicts = set()
        for sbb, allowed, allv in dt.edge_conditions(cfg, bb):
            atom = dt.switch_atom(b, sbb)
            if atom[0] == "call" and atom[1]["call"]["name"] == "contains_key":
                c_ = dt.resolve_const(b, atom[1]["args"][1])
                if c_ and c_.get("item") == "http::header::name::CONTENT_TYPE" and dt.bool_polarity(allowed) is not None:
                    verdicts.add(dt.bool_polarity(allowed))
            elif atom[0] == "call" and atom[1]["call"]["name"] in ("is_some", "is_none") and any(dt.derives_from_call(b, atom[1]["args"][0], gbb, vt) for gbb, _ in gets):
                pol = dt.bool_polarity(allowed)
                if pol is not None:
                    verdicts.add(pol if atom[1]["call"]["name"] == "is_some" else not pol)
            elif atom[0] == "discr" and ty_adt(dt.place_ty(b, F, atom[1]) or {}) == "core::option::Option" and any(dt.derives_from_call(b, {"cp": atom[1]}, gbb, vt) for gbb, _ in gets):
                vs = dt.allowed_variants(allowed, allv, ["None", "Some"])
                if len(vs) == 1:
                    verdicts.add(vs == {"Some"})
        return next(iter(verdicts)) if len(verdicts) == 1 else None
    for trait, b in find_impl_bodies(c, OPT):
        # a private classification helper (`Presence::detect(headers)`) is judged where it is used
        b = inline.expand(c, b, depth=2, pred=lambda cb: cb.d.get("vis") != "pub", lower=True)
        cfg = CFG(b)
        who = f"OptionalRequestDeserializer::{'async ' if 'Async' in trait else ''}deserialize"
        nones = [(bb, j, s) for bb, j, s in b.stmts() if s["r"].get("agg") == "adt" and s["r"].get("variant") == "None" and "Option" in s["r"]["adt"]]
        deleg = [(bb, t) for bb, t in b.calls() if t["call"]["name"] == "deserialize" and t["call"].get("trait") in DESER_TRAITS and ty_adt(t["call"]["substs"][0]) == STD]
        ok = len(nones) == 1 and len(deleg) == 1
        if ok:
            ok = content_type_presence(b, cfg, nones[0][0]) is False and content_type_presence(b, cfg, deleg[0][0]) is True
        ctx.check(ok, "R6.4", b.loc(), f"{who}|absent-only-without-content-type", f"{who}: must return Ok(None) exactly when the request has no Content-Type header and otherwise delegate to the standard deserializer",
                  instance=f"{who}: None iff !contains_key(CONTENT_TYPE), else StdRequestDeserializer")
    binb = [b for b in c.bodies if b.name == "deserialize_inner" and b.impl and ty_adt(b.self_ty) == BIN]
    for b in binb:
        consts = []
        for blk in b.blocks + [x for p in b.d.get("promoted", []) for x in p["blocks"]]:
            for s in blk["s"]:
                if "d" in s:
                    for k in ("use",):
                        c_ = (s["r"].get(k) or {}).get("c") if isinstance(s["r"].get(k), dict) else None
                        if c_ and "item" in c_:
                            consts.append(c_["item"])
            if "call" in blk["t"]:
                for a in blk["t"]["args"]:
                    c_ = a.get("c")
                    if c_ and "item" in c_:
                        consts.append(c_["item"])
        ctx.check("conjure_http::private::APPLICATION_OCTET_STREAM" in consts and "http::header::name::CONTENT_TYPE" in consts, "R6.4", b.loc(), "binary|content-type",
                  f"BinaryRequestDeserializer must compare the Content-Type header with the octet-stream constant (constants used: {sorted(set(consts))})",
                  instance="binary body: Content-Type == APPLICATION_OCTET_STREAM")
    rbe = [inline.expand(c, b, depth=2, pred=lambda cb: cb.d.get("vis") != "pub" and cb.name != "mime_matches") for b in c.bodies if b.name == "request_body_encoding" and b.kind == "assoc_fn"]
    for b in rbe:
        cfg = CFG(b)
        oks = dt.ok_return_blocks(b)
        finds = [(bb, t) for bb, t in b.calls() if t["call"]["name"] in ("find", "find_map")]
        rets = [(bb, t) for bb, t in b.calls() if place_local(t["dest"]) in dt.return_aliases(b)]
        conv = [r for r in rets if r[1]["call"]["name"] in ("ok_or_else", "ok_or")]
        good, how = False, ""
        # form A: encodings.iter().find(|e| mime_matches(content_type, e)).ok_or_else(error)
        # (strictly: the Option handed to ok_or_else is the one find returned — a copy chain, no `or` / `or_else` / `unwrap_or` between)
        if len(finds) == 1 and not oks and len(conv) == 1 and Tracer(b).sources(conv[0][1]["args"][0]) == {("call", finds[0][0])}:
            clos = [x for x in c.closures_of(b) if any(t["call"]["name"] == "mime_matches" for _, t in x.calls())]
            good, how = len(clos) == 1, "Ok only from find(mime_matches)"
        # form B: for e in encodings { if mime_matches(content_type, e) { return Ok(e) } } Err(..)
        elif oks and not finds:
            good = True
            for okbb, _, s_ in oks:
                hit = False
                for sbb, allowed, allv in dt.edge_conditions(cfg, okbb):
                    atom = dt.switch_atom(b, sbb)
                    if atom[0] == "call" and atom[1]["call"]["name"] == "mime_matches" and dt.bool_polarity(allowed) is True:
                        def base_calls(op_):
                            out_ = set()
                            for q in Tracer(b, through_calls=True).sources(op_):
                                while q[0] == "field":
                                    q = q[1]
                                if q[0] == "call":
                                    out_.add(q)
                            return out_
                        a_src, v_src = base_calls(atom[1]["args"][1]), base_calls(s_["r"]["ops"][0])
                        hit = bool(a_src & v_src)
                good = good and hit
            how = "Ok(e) only under mime_matches(content_type, e)"
        if not good:
            # form C: one combinator chain; decided on the lowered body: every Ok(..) that reaches the return value carries the
            # result of the single find(|e| mime_matches(..)) over the registered encodings
            b0_ = c.body(b.id)
            bl = inline.expand(c, b0_, depth=2, pred=lambda cb: cb.d.get("vis") != "pub" and cb.name != "mime_matches", lower=True)
            fl = [(bb, t) for bb, t in bl.calls() if t["call"]["name"] in ("find", "find_map")]
            okl = [o for o in dt.ok_return_blocks(bl) if o[2]["r"].get("variant") == "Ok" and o[2]["r"].get("adt") == "core::result::Result"]
            pred_ok = len(fl) == 1 and any(any(t2["call"]["name"] == "mime_matches" for _, t2 in x.calls()) for x in c.closures_of(b0_))
            if pred_ok and okl:
                vt_ = Tracer(bl, through_agg=True, transparent=dt.value_tracer(bl).transparent)
                def only_from_find(op_):
                    # every origin of the returned encoding is the find call (not merely one of them: `find(..).or_else(fallback)`)
                    bases = set()
                    for q in vt_.sources(op_):
                        while q[0] == "field":
                            q = q[1]
                        bases.add(q)
                    calls_ = {q for q in bases if q[0] == "call"}
                    return calls_ == {("call", fl[0][0])} and not any(q[0] == "arg" for q in bases)
                good = all(dt.derives_from_call(bl, o[2]["r"]["ops"][0], fl[0][0], vt_) and only_from_find(o[2]["r"]["ops"][0]) for o in okl)
                how = "every Ok carries the result of find(mime_matches) (lowered combinator chain)"
        ctx.check(good, "R6.4", b.loc(), "request_body_encoding|no-fallback", "request_body_encoding must return exactly the registered encoding found by the media-type match, or an error (no fallback encoding)",
                  instance=f"request_body_encoding: {how}")
    mm = [b for b in c.bodies if b.name == "mime_matches"]
    for b in mm:
        ess = [t for _, t in b.calls() if t["call"]["name"] == "essence"]
        eq = [t for _, t in b.calls() if t["call"]["def"] in ("core::cmp::PartialEq::eq",) and any("mediatype" in tystr(x) for x in t["call"]["substs"])]
        ctx.check(len(ess) == 2 and len(eq) >= 1, "R6.4", b.loc(), "mime_matches|essence", "media types must be compared by essence (type/subtype, parameters ignored)", instance="mime_matches: essence() == essence()")
    # R6.6 twins
    if len(std) == 2:
        seqs = []
        for trait, b in std:
            cfg = CFG(b)
            seqs.append([norm_call(t) for bb, t in sorted(b.calls(), key=lambda x: x[0]) if interesting(t)])
        ctx.check(set(seqs[0]) == set(seqs[1]), "R6.6", std[0][1].loc(), "twins|std-deserializer", f"blocking and async request deserializers use different operations: only blocking {sorted(set(seqs[0]) - set(seqs[1]))}, only async {sorted(set(seqs[1]) - set(seqs[0]))}", instance=f"twins agree on {len(set(seqs[0]))} operations")
    if len(readers) == 2:
        seqs = [[norm_call(t) for bb, t in sorted(b.calls(), key=lambda x: x[0]) if interesting(t)] for b in readers]
        ctx.check(set(seqs[0]) == set(seqs[1]), "R6.6", readers[0].loc(), "twins|readers", f"read_body and async_read_body use different operations: only blocking {sorted(set(seqs[0]) - set(seqs[1]))}, only async {sorted(set(seqs[1]) - set(seqs[0]))}", instance=f"reader twins agree on {len(set(seqs[0]))} operations")
    # R6.7 panic inventory
    allow = {("read_body", "assert:overflow:Add"), ("async_read_body", "assert:overflow:Add"), ("{closure#0}", "assert:overflow:Add")}
    for b in [x for _, x in std] + readers + [x for x in c.bodies if x.name in ("check_limit",)]:
        for ln, what, x in panic_sites(b):
            key = (b.name if b.kind != "coroutine" else "async_read_body", what)
            ok = what == "assert:overflow:Add" and b in readers
            ctx.check(ok, "R6.7", b.loc(ln), f"{b.id}|panic|{what}", f"{b.id}: possible panic site `{what}` on the request-body path (not in the reasoned allow-list)",
                      instance=f"{b.id}: {what} allow-listed (both chunk lengths coexist in memory, their sum cannot overflow usize)", nontrivial=False)


def interesting(t):
    d = t["call"]["def"]
    n = t["call"]["name"]
    if d in dt.AWAIT_TRANSPARENT or d == dt.TRY_BRANCH or d.startswith("core::future::") or "from_residual" in d or d in Tracer.TRANSPARENT:
        return False
    if n in ("deref", "deref_mut", "transpose", "into_future", "get_context", "new_unchecked", "as_mut", "pin_mut", "into_iter"):
        return False
    # behaviour-neutral bookkeeping: one twin may size or inspect its buffer differently without changing what it returns
    if n in NEUTRAL:
        return False
    return True


NEUTRAL = {"len", "is_empty", "reserve", "capacity", "with_capacity", "as_ref", "as_slice", "as_bytes", "borrow", "clone", "size_hint", "remaining", "new", "default", "min", "max"}


TWIN = {"async_read_body": "read_body", "try_next": "next"}


def norm_call(t):
    n = t["call"]["name"]
    return TWIN.get(n, n)
