#!/bin/sh
# usage: tools/seedtest.sh <patch.diff> <PID>...   — applies a seeded change to /repo, runs the checks, reverts.
P="$1"; shift
cd /verif
git -C /repo status --porcelain | grep -q . && { echo "/repo not clean"; exit 3; }
git -C /repo apply "$P" || { echo "patch does not apply"; exit 3; }
for pid in "$@"; do
  VERIF_EVIDENCE_DIR=/tmp/seed-ev ./check "$pid" 2>&1 | grep -E "^\[C|VIOLATION|^  R|^  O|^      |does not build|error" | cut -c1-330 | head -${LINES_MAX:-14}
done
git -C /repo checkout -- . ; git -C /repo status --porcelain | head -3
