"""Fact base loader and MIR helpers (E2 core)."""
import glob, json, os
from collections import defaultdict


# ------------------------------------------------------------------ types
def tystr(t):
    if t is None:
        return "?"
    if "prim" in t:
        return t["prim"]
    if "adt" in t:
        a = t.get("args") or []
        return t["adt"] + ("<" + ", ".join(tystr(x) for x in a) + ">" if a else "")
    if "param" in t:
        return t["param"]
    if "ref" in t:
        return ("&mut " if t.get("mut") else "&") + tystr(t["ref"])
    if "ptr" in t:
        return ("*mut " if t.get("mut") else "*const ") + tystr(t["ptr"])
    if "tuple" in t:
        return "(" + ", ".join(tystr(x) for x in t["tuple"]) + ")"
    if "slice" in t:
        return "[" + tystr(t["slice"]) + "]"
    if "array" in t:
        return "[" + tystr(t["array"]) + "; " + str(t.get("len")) + "]"
    if "fndef" in t:
        a = t.get("args") or []
        return "fn " + t["fndef"] + ("<" + ", ".join(tystr(x) for x in a) + ">" if a else "")
    if "closure" in t:
        return "{closure " + t["closure"] + "}"
    if "coroutine" in t:
        return "{coroutine " + t["coroutine"] + "}"
    if "proj" in t:
        a = t.get("args") or []
        self_ = tystr(a[0]) if a else "?"
        rest = a[1:]
        return "<" + self_ + " as " + t.get("trait", "") + \
            ("<" + ", ".join(tystr(x) for x in rest) + ">" if rest else "") + ">::" + t["proj"]
    if "never" in t:
        return "!"
    if "const" in t:
        return "const " + str(t["const"])
    for k in ("opaque", "dyn", "fnptr", "foreign", "other"):
        if k in t:
            return k + ":" + str(t.get("str", t[k]))
    return json.dumps(t)


def strip_refs(t):
    while t and "ref" in t:
        t = t["ref"]
    return t


def ty_adt(t):
    """adt path of a (possibly referenced) type or None"""
    t = strip_refs(t)
    return t.get("adt") if t else None


def walk_ty(t):
    """yield every type node inside t (pre-order)"""
    if not isinstance(t, dict):
        return
    yield t
    for k in ("args", "tuple"):
        for x in t.get(k) or []:
            yield from walk_ty(x)
    for k in ("ref", "ptr", "slice", "array"):
        if k in t and isinstance(t[k], dict):
            yield from walk_ty(t[k])


# ------------------------------------------------------------------ operands / places
def place_local(p):
    return p if isinstance(p, int) else p["l"]


def place_proj(p):
    return [] if isinstance(p, int) else p["p"]


def placestr(p):
    if isinstance(p, int):
        return f"_{p}"
    s = f"_{p['l']}"
    for e in p["p"]:
        if e == "*":
            s = f"(*{s})"
        elif isinstance(e, dict) and "f" in e:
            s = f"{s}.{e['f']}" + (f"[{e['n']}]" if e.get("n") else "")
        elif isinstance(e, dict) and "dc" in e:
            s = f"({s} as {e.get('n') or e['dc']})"
        elif isinstance(e, dict) and "idx" in e:
            s = f"{s}[_{e['idx']}]"
        elif isinstance(e, dict) and "cidx" in e:
            s = f"{s}[{'-' if e.get('from_end') else ''}{e['cidx']}]"
        else:
            s = f"{s}.{json.dumps(e)}"
    return s


def op_place(op):
    """place of a copy/move operand, else None"""
    if "cp" in op:
        return op["cp"]
    if "mv" in op:
        return op["mv"]
    return None


def op_const(op):
    return op.get("c")


def const_value(c):
    """python value of a constant operand's payload (or None)"""
    if c is None:
        return None
    for k in ("str", "int", "bool", "char", "float"):
        if k in c:
            return c[k]
    return None


def opstr(op):
    if op is None:
        return "?"
    p = op_place(op)
    if p is not None:
        return ("move " if "mv" in op else "") + placestr(p)
    c = op.get("c")
    if c is not None:
        if "fn" in c:
            return "fn:" + fnstr(c["fn"])
        v = const_value(c)
        if v is not None:
            return "const " + json.dumps(v)
        if "item" in c:
            extra = ""
            if "mem" in c:
                extra = " =mem[" + c["mem"][:32] + "]"
            return "const item " + c["item"] + extra
        if "promoted" in c:
            return f"promoted[{c['promoted']}]"
        if "tyconst" in c:
            return "const " + c["tyconst"]
        if c.get("zst"):
            return "const zst:" + tystr(c.get("ty"))
        return "const ?" + tystr(c.get("ty"))
    return json.dumps(op)


def fnstr(f):
    if "indirect" in f:
        return "indirect(" + opstr(f["indirect"]) + ")"
    s = f["def"]
    a = f.get("substs") or []
    if a:
        s += "::<" + ", ".join(tystr(x) for x in a) + ">"
    r = f.get("resolved")
    if r:
        s += " => " + r["def"]
    return s


def rvstr(r):
    if "use" in r:
        return opstr(r["use"])
    if "ref" in r:
        return ("&mut " if r.get("mut") else "&") + placestr(r["ref"])
    if "rawptr" in r:
        return "&raw " + placestr(r["rawptr"])
    if "cast" in r:
        return f"{opstr(r['cast'])} as {tystr(r['to'])} ({r['kind']})"
    if "bin" in r:
        return f"{r['bin']}({opstr(r['a'])}, {opstr(r['b'])})"
    if "un" in r:
        return f"{r['un']}({opstr(r['a'])})"
    if "discr" in r:
        return f"discriminant({placestr(r['discr'])})"
    if "agg" in r:
        ops = ", ".join(opstr(o) for o in r["ops"])
        if r["agg"] == "adt":
            a = r.get("args") or []
            return f"{r['adt']}::{r['variant']}" + ("<" + ", ".join(tystr(x) for x in a) + ">" if a else "") + f"({ops})"
        if r["agg"] in ("closure", "coroutine"):
            return f"{r['agg']} {r['id']}[{ops}]"
        return f"{r['agg']}({ops})"
    if "repeat" in r:
        return f"[{opstr(r['repeat'])}; {r['n']}]"
    return json.dumps(r)


# ------------------------------------------------------------------ bodies
def _release_view(d):
    """The rules read the release build: `if cfg!(debug_assertions) { .. }` (debug_assert!, debug_assert_eq!) is compiled out there,
    cannot change a result where it exists, and its conditions (raw comparisons restating an invariant, extra calls of the
    validator) are not part of what the code decides.  The switch on the macro's constant becomes a jump to its false edge and
    the blocks only reachable through the true edge are emptied.  Returns the number of regions removed."""
    blocks = d.get("blocks") or []
    n = 0
    for i, blk in enumerate(blocks):
        t = blk.get("t") or {}
        if "switch" not in t or "cfg" not in str(t.get("x") or ""):
            continue
        op = t["switch"]
        cst = op.get("c")
        if cst is None:
            l = (op.get("cp") if "cp" in op else op.get("mv"))
            l = l if isinstance(l, int) else None
            if l is not None:
                defs = [s for b2 in blocks for s in b2["s"] if "d" in s and s["d"] == l]
                if len(defs) == 1 and "use" in defs[0]["r"]:
                    cst = defs[0]["r"]["use"].get("c")
        if not (isinstance(cst, dict) and "bool" in cst):
            continue
        false_t = next((tg for v, tg in t["targets"] if v == 0), None)
        if false_t is None:
            continue
        true_t = t["otherwise"]

        def succ(k, skip_edge=None):
            tt = blocks[k]["t"]
            out = []
            if "goto" in tt:
                out.append(tt["goto"])
            if "switch" in tt:
                out += [tg for _, tg in tt["targets"]] + [tt["otherwise"]]
            for key in ("target", "unwind", "cleanup"):
                if isinstance(tt.get(key), int):
                    out.append(tt[key])
            if "drop" in tt and isinstance(tt.get("target"), int):
                out.append(tt["target"])
            return [x for x in out if not (skip_edge and (k, x) == skip_edge)]

        def reach(skip_edge=None):
            seen, st = {0}, [0]
            while st:
                k = st.pop()
                for x in succ(k, skip_edge):
                    if x not in seen and 0 <= x < len(blocks):
                        seen.add(x)
                        st.append(x)
            return seen
        region = reach() - reach((i, true_t)) if true_t != false_t else set()
        blk["t"] = {"goto": false_t, "ln": t.get("ln", 0), "x": t.get("x")}
        blk["debug_assert_removed"] = True
        for k in region:
            if k != i:
                blocks[k]["s"] = []
                blocks[k]["t"] = {"unreachable": None, "ln": blocks[k]["t"].get("ln", 0)}
        n += 1
    return n


class Body:
    def __init__(self, d, crate, facts):
        if not d.get("_release_view") and not os.environ.get("VERIF_KEEP_DEBUG_ASSERTIONS"):
            d["_release_view"] = True
            d["debug_regions"] = _release_view(d)
        self.d = d
        self.crate = crate
        self.facts = facts
        self.id = d["id"]
        self.name = d.get("name", "")
        self.path = d.get("path", "")
        self.kind = d["kind"]
        self.blocks = d["blocks"]
        self.locals = d["locals"]
        self.argc = d["argc"]
        self.file = d.get("file", "")
        self.line = d.get("line", 0)
        self.impl = d.get("impl")
        self.root = d.get("root")
        self.parent = d.get("parent")
        self._cfg = None
        self._defs = None

    def __repr__(self):
        return f"<Body {self.id}>"

    @property
    def trait(self):
        return (self.impl or {}).get("trait")

    @property
    def self_ty(self):
        return (self.impl or {}).get("self_ty")

    def loc(self, ln=None):
        return f"{self.relfile()}:{ln if ln else self.line}"

    def relfile(self):
        f = self.file
        i = f.find("/out/conjure")
        if f.startswith("/") and i >= 0:
            return "<generated>" + f[i + 4:]
        return f

    def local_ty(self, n):
        return self.locals[n]["ty"]

    def local_name(self, n):
        return self.locals[n].get("n")

    def terms(self):
        for i, b in enumerate(self.blocks):
            yield i, b["t"]

    def calls(self):
        """yield (bb, term) for every call terminator"""
        for i, b in enumerate(self.blocks):
            if b.get("cleanup"):
                continue
            if "call" in b["t"]:
                yield i, b["t"]

    def stmts(self):
        for i, b in enumerate(self.blocks):
            if b.get("cleanup"):
                continue
            for j, s in enumerate(b["s"]):
                if "d" in s:
                    yield i, j, s

    def succ(self, i):
        t = self.blocks[i]["t"]
        if "goto" in t:
            return [t["goto"]]
        if "switch" in t:
            out = [b for _, b in t["targets"]]
            out.append(t["otherwise"])
            return out
        if "call" in t or "drop" in t or "assert" in t or "yield" in t:
            tg = t.get("target")
            return [tg] if tg is not None else []
        return []

    # definitions of locals: local -> list of (bb, idx or 'T', kind, payload)
    def defs(self):
        if self._defs is None:
            d = defaultdict(list)
            for i, b in enumerate(self.blocks):
                if b.get("cleanup"):
                    continue
                for j, s in enumerate(b["s"]):
                    if "d" in s:
                        d[place_local(s["d"])].append((i, j, s))
                t = b["t"]
                if "call" in t:
                    d[place_local(t["dest"])].append((i, "T", t))
            self._defs = d
        return self._defs

    def pretty(self):
        out = []
        hdr = f"fn {self.id}  [{self.kind}] {self.relfile()}:{self.line}"
        if self.impl:
            hdr += f"\n   impl {self.impl.get('trait', '')} for {tystr(self.impl.get('self_ty'))}"
        out.append(hdr)
        for n, l in enumerate(self.locals):
            nm = l.get("n")
            out.append(f"   let _{n}: {tystr(l['ty'])}" + (f"  // {nm}" + (" (arg)" if 1 <= n <= self.argc else "") if nm or 1 <= n <= self.argc else ""))
        for i, b in enumerate(self.blocks):
            out.append(f" bb{i}:" + (" (cleanup)" if b.get("cleanup") else ""))
            for s in b["s"]:
                if "d" in s:
                    out.append(f"    {placestr(s['d'])} = {rvstr(s['r'])}    // ln {s.get('ln')}" + (f" x:{s['x']}" if s.get("x") else ""))
                else:
                    out.append("    " + json.dumps(s))
            t = b["t"]
            x = (f" x:{t['x']}" if t.get("x") else "")
            if "call" in t:
                out.append(f"    {placestr(t['dest'])} = CALL {fnstr(t['call'])}({', '.join(opstr(a) for a in t['args'])}) -> bb{t['target']}   // ln {t['ln']}{x}")
            elif "switch" in t:
                out.append(f"    SWITCH {opstr(t['switch'])} [{', '.join(f'{v}->bb{b_}' for v, b_ in t['targets'])}, else->bb{t['otherwise']}]   // ln {t['ln']}{x}")
            elif "goto" in t:
                out.append(f"    goto bb{t['goto']}")
            elif "assert" in t:
                out.append(f"    ASSERT {opstr(t['assert'])}=={t['expected']} kind={t['kind']} -> bb{t['target']}  // ln {t['ln']}{x}")
            elif "drop" in t:
                out.append(f"    drop {placestr(t['drop'])} -> bb{t['target']}")
            elif "yield" in t:
                out.append(f"    YIELD {opstr(t['yield'])} -> bb{t['target']}")
            else:
                out.append("    " + ", ".join(k for k in t if k not in ("ln", "x")))
        for k, p in enumerate(self.d.get("promoted", [])):
            out.append(f" promoted[{k}]:")
            for b in p["blocks"]:
                for s in b["s"]:
                    if "d" in s:
                        out.append(f"    {placestr(s['d'])} = {rvstr(s['r'])}")
                if "call" in b["t"]:
                    t = b["t"]
                    out.append(f"    {placestr(t['dest'])} = CALL {fnstr(t['call'])}({', '.join(opstr(a) for a in t['args'])})")
        return "\n".join(out)


class Crate:
    def __init__(self, doc, facts, fname):
        self.doc = doc
        self.name = doc["crate"]
        self.fname = fname
        self.bodies = [Body(b, self, facts) for b in doc["bodies"]]
        self.by_id = {b.id: b for b in self.bodies}
        # normalise calls through a function value: when the callee's type is a fn item (`let f = T::new; f()`), the
        # target is known; otherwise the call is marked <indirect> so that rules can treat it uniformly
        by_path = {}
        for b in self.bodies:
            by_path.setdefault(b.path, b)
        for b in self.bodies:
            blocks = list(b.blocks)
            for p in b.d.get("promoted", []):
                blocks += p["blocks"]
            for blk in blocks:
                f = blk["t"].get("call") if isinstance(blk.get("t"), dict) else None
                if isinstance(f, dict) and "def" not in f:
                    fd = (f.get("fty") or {}).get("fndef") if isinstance(f.get("fty"), dict) else None
                    if fd:
                        f["def"] = fd
                        f["name"] = fd.split("::")[-1]
                        f["substs"] = (f.get("fty") or {}).get("args") or []
                        tgt = by_path.get(fd)
                        if tgt is not None:
                            f["local"] = True
                            f["id"] = tgt.id
                        f["via_value"] = True
                    else:
                        f["def"] = "<indirect>"
                        f["name"] = "<indirect>"
        self.impls = [i for i in doc["impls"] if "trait_decl" not in i]
        self.trait_decls = {i["trait_decl"]: i for i in doc["impls"] if "trait_decl" in i}
        self.adts = doc["adts"]
        self.consts = {c["path"]: c for c in doc["consts"]}
        self.sigs = doc["sigs"]
        self.children = defaultdict(list)
        for b in self.bodies:
            if b.parent:
                self.children[b.parent].append(b)

    def find(self, pred):
        return [b for b in self.bodies if pred(b)]

    def body(self, id_):
        return self.by_id.get(id_)

    def impls_of(self, trait=None, self_adt=None):
        out = []
        for i in self.impls:
            if trait is not None and i.get("trait") != trait:
                continue
            if self_adt is not None and ty_adt(i.get("self_ty")) != self_adt:
                continue
            out.append(i)
        return out

    def resolve_trait_call(self, f):
        """late resolution of a call to a method of a *local trait* whose Self type became concrete (after the type
        parameters of a generic helper were instantiated): the impl of that trait for that type, if it is local and unique.
        Returns a `resolved`-style dict or None."""
        tr = f.get("trait")
        st = f.get("self_ty")
        if not tr or st is None or (f.get("resolved") or {}).get("local"):
            return None
        if any("param" in n for n in walk_ty(st)):
            return None
        hits = [i for i in self.impls if i.get("trait") == tr and tystr(i.get("self_ty")) == tystr(st) and f.get("name") in i.get("items", {})]
        if len(hits) != 1:
            return None
        bid = hits[0]["items"][f["name"]]
        b = self.by_id.get(bid)
        if b is None:
            return None
        return {"def": b.path, "id": bid, "local": True, "self_ty": st, "substs": list(f.get("substs") or [])[1:]}

    def methods_of_impl(self, impl):
        """name -> Body for the fn items of an impl"""
        out = {}
        for name, bid in impl["items"].items():
            b = self.by_id.get(bid)
            if b is not None:
                out[name] = b
        return out

    def closures_of(self, body, recursive=True):
        out = []
        for c in self.children.get(body.id, []):
            out.append(c)
            if recursive:
                out.extend(self.closures_of(c))
        return out


class Facts:
    def __init__(self, d):
        self.dir = d
        self._crates = {}
        self.files = defaultdict(list)
        for f in sorted(glob.glob(os.path.join(d, "*.json"))):
            base = os.path.basename(f)
            if base in ("tmpl.json",):
                continue
            name = base.split("-")[0]
            self.files[name + ("-test" if base.endswith("-test.json") else "")].append(f)

    def crate(self, name):
        if name not in self._crates:
            fs = self.files.get(name)
            if not fs:
                raise KeyError(f"fact file for crate {name} missing in {self.dir}")
            # duplicates (build-dependency + normal dependency) are the same source; take the
            # one with the most cfg features (superset), then the first
            best = None
            for f in fs:
                doc = json.load(open(f))
                key = (len(doc.get("cfgs", [])), )
                if best is None or key > best[0]:
                    best = (key, doc, f)
            self._crates[name] = Crate(best[1], self, best[2])
        return self._crates[name]

    def has(self, name):
        return bool(self.files.get(name))

    def tmpl(self):
        p = os.path.join(self.dir, "tmpl.json")
        return json.load(open(p)) if os.path.exists(p) else None

    def adt(self, path):
        """look an ADT definition up in any loaded crate doc (local def preferred)"""
        best = None
        for name in list(self.files):
            if name.endswith("-test"):
                continue
            c = self.crate(name)
            a = c.adts.get(path)
            if a is not None:
                if a.get("local"):
                    return a
                best = best or a
        return best
