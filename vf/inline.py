"""Virtual inlining of local helper functions into a body's MIR facts.

Rules are written over one function's control flow.  A behaviour-preserving refactoring that moves part of that function
into a private helper (or merges two functions behind a shared one) must not change a rule's verdict, and a defect hidden
in such a helper must still be seen.  `expand` returns a new Body in which calls to local, non-recursive functions of the
same crate are replaced by the callee's blocks (locals and blocks renumbered, arguments bound by assignments, `return`
turned into an assignment of the call's destination plus a goto to the call's continuation)."""
import copy
from .facts import Body


def _place(p, lo):
    if isinstance(p, int):
        return p + lo
    q = {"l": p["l"] + lo, "p": []}
    for e in p["p"]:
        if isinstance(e, dict) and "idx" in e:
            e = dict(e, idx=e["idx"] + lo)
        q["p"].append(e)
    return q


def _op(o, lo, po):
    if o is None:
        return o
    if "cp" in o:
        return {"cp": _place(o["cp"], lo)}
    if "mv" in o:
        return {"mv": _place(o["mv"], lo)}
    c = o.get("c")
    if c is not None and "promoted" in c:
        c = dict(c, promoted=c["promoted"] + po)
        return dict(o, c=c)
    return o


def _rv(r, lo, po):
    r = dict(r)
    for k in ("use", "cast", "a", "b"):
        if k in r and isinstance(r[k], dict):
            r[k] = _op(r[k], lo, po)
    for k in ("ref", "rawptr", "discr"):
        if k in r:
            r[k] = _place(r[k], lo)
    if "ops" in r:
        r["ops"] = [_op(o, lo, po) for o in r["ops"]]
    return r


def _term(t, lo, bo, po):
    t = dict(t)
    if "call" in t:
        t["args"] = [_op(a, lo, po) for a in t["args"]]
        t["dest"] = _place(t["dest"], lo)
        if t.get("target") is not None:
            t["target"] += bo
    elif "goto" in t:
        t["goto"] += bo
    elif "switch" in t:
        t["switch"] = _op(t["switch"], lo, po)
        t["targets"] = [[v, b + bo] for v, b in t["targets"]]
        t["otherwise"] += bo
    elif "drop" in t:
        t["drop"] = _place(t["drop"], lo)
        if t.get("target") is not None:
            t["target"] += bo
    elif "assert" in t:
        t["assert"] = _op(t["assert"], lo, po)
        if t.get("target") is not None:
            t["target"] += bo
    elif "yield" in t:
        t["yield"] = _op(t["yield"], lo, po)
        if t.get("target") is not None:
            t["target"] += bo
    return t


def _subst_types(o, m):
    """replace type parameters {"param": name} by the caller's type arguments throughout a fact"""
    if isinstance(o, dict):
        if set(o) == {"param"} and o["param"] in m:
            return m[o["param"]]
        return {k: _subst_types(v, m) for k, v in o.items()}
    if isinstance(o, list):
        return [_subst_types(v, m) for v in o]
    return o


def callee_of(crate, t):
    f = t["call"]
    if f.get("trait") and not (f.get("resolved") or {}).get("local") and hasattr(crate, "resolve_trait_call"):
        late = crate.resolve_trait_call(f)
        if late is not None:
            f["resolved"] = late
    res = f.get("resolved") or {}
    cid = res.get("id") if res.get("local") else (f.get("id") if f.get("local") else None)
    if cid is None:
        return None
    cb = crate.body(cid)
    if cb is None or cb.kind not in ("fn", "assoc_fn") + (("closure",) if f.get("closure_call") else ()):
        return None
    return cb


def _subst_place(p, old, new):
    if isinstance(p, int):
        return new if p == old else p
    q = dict(p)
    if q["l"] == old:
        q["l"] = new
    q["p"] = [dict(e, idx=new) if isinstance(e, dict) and e.get("idx") == old else e for e in q["p"]]
    return q


def _subst_op(o, old, new):
    if not isinstance(o, dict):
        return o
    if "cp" in o:
        return {"cp": _subst_place(o["cp"], old, new)}
    if "mv" in o:
        return {"mv": _subst_place(o["mv"], old, new)}
    return o


def _unit_variant(rv):
    """variant index when the rvalue builds a fieldless enum variant (`Kind::Present`); a classification helper returning such
    a value is threaded like a boolean predicate"""
    if rv.get("agg") == "adt" and not rv.get("ops") and isinstance(rv.get("vi"), int):
        return rv["vi"]
    return None


def _thread_returns(d, first_new_block, dest, target, ret_local):
    """Jump threading for an inlined predicate: when the continuation block only inspects the returned value and branches on
    it (`if helper(..)`, `if !helper(..)`, `match helper(..)`), give every site that produces the callee's return value its
    own copy of that block reading its own copy of the value.  A site that returns a constant then branches on a constant,
    one that returns a call result branches on that call — instead of all sites merging into one multiply-defined local."""
    if not isinstance(dest, int):
        return
    cont = d["blocks"][target]
    if cont.get("cleanup") or "switch" not in cont["t"] or len(cont["s"]) > 6:
        return
    for st in cont["s"]:
        if "d" not in st or not isinstance(st["d"], int):
            return
        r = st["r"]
        if not (set(r) <= {"use"} or ("un" in r and "a" in r) or "discr" in r or "cast" in r):
            return
    nblocks = len(d["blocks"])
    ret_blocks = {i for i in range(first_new_block, nblocks) if d["blocks"][i]["t"].get("goto") == target
                  and d["blocks"][i]["s"] and d["blocks"][i]["s"][-1].get("x") == "inline:ret"}
    if not ret_blocks:
        return

    def reaches_ret(i, seen=()):
        """block i leads to a return block through empty goto / drop blocks only"""
        if i in ret_blocks:
            return len(d["blocks"][i]["s"]) == 1
        if i in seen or i < first_new_block or i >= nblocks:
            return False
        blk = d["blocks"][i]
        if blk["s"]:
            return False
        t = blk["t"]
        nxt = t.get("goto") if "goto" in t else (t.get("target") if "drop" in t else None)
        return nxt is not None and reaches_ret(nxt, seen + (i,))
    sites = []   # (kind, block index, statement index)
    for i in range(first_new_block, nblocks):
        blk = d["blocks"][i]
        if blk.get("cleanup"):
            continue
        t = blk["t"]
        defs = [j for j, st in enumerate(blk["s"]) if st.get("d") == ret_local]
        if defs and defs[-1] == len(blk["s"]) - 1 and (set(blk["s"][-1]["r"]) <= {"use"} or blk["s"][-1]["r"].get("agg") == "adt"):
            nxt = t.get("goto") if "goto" in t else (t.get("target") if "drop" in t else None)
            if nxt is not None and reaches_ret(nxt):
                sites.append(("stmt", i, defs[-1]))
        if "call" in t and t.get("dest") == ret_local and t.get("target") is not None and reaches_ret(t["target"]):
            sites.append(("call", i, None))
    all_defs = sum(1 for i in range(first_new_block, nblocks) for st in d["blocks"][i]["s"] if st.get("d") == ret_local) + \
        sum(1 for i in range(first_new_block, nblocks) if "call" in d["blocks"][i]["t"] and d["blocks"][i]["t"].get("dest") == ret_local)
    if len(sites) < 2 or len(sites) != all_defs:
        return

    def const_of(rv):
        if rv.get("agg") == "adt" and isinstance(rv.get("vi"), int):
            return ("variant", rv["vi"])      # payload unknown, discriminant known
        c_ = (rv.get("use") or {}).get("c") if set(rv) <= {"use"} else None
        if isinstance(c_, dict):
            if "bool" in c_:
                return int(bool(c_["bool"]))
            if "int" in c_:
                return c_["int"]
        return None

    def clone_continuation(di, known=None):
        """private copy of the continuation reading the value from local `di`; with a known constant value the branch is
        folded to the edge actually taken"""
        remap = {dest: di}
        vals = {dest: known} if known is not None else {}
        clone = {"s": [{"d": dest, "r": {"use": {"cp": di}}, "x": "inline:ret"}], "t": None}
        for st in cont["s"]:
            tgt_local = st["d"]
            fresh = len(d["locals"])
            d["locals"].append(dict(d["locals"][tgt_local], thread=True))
            r = dict(st["r"])
            for k in ("use", "a", "cast"):
                if k in r and isinstance(r[k], dict):
                    for o_, n_ in remap.items():
                        r[k] = _subst_op(r[k], o_, n_)
            if "discr" in r:
                for o_, n_ in remap.items():
                    r["discr"] = _subst_place(r["discr"], o_, n_)
            clone["s"].append(dict(st, d=fresh, r=r))
            clone["s"].append({"d": tgt_local, "r": {"use": {"cp": fresh}}, "ln": st.get("ln"), "x": "inline:thread-copy"})
            remap[tgt_local] = fresh
            # constant folding of the pure statements (copies and boolean negation)
            src = st["r"]
            sv = None
            if set(src) <= {"use"}:
                o_ = src["use"]
                pl = o_.get("cp", o_.get("mv")) if isinstance(o_, dict) else None
                sv = vals.get(pl) if isinstance(pl, int) else const_of(src)
            elif src.get("un") == "Not":
                o_ = src["a"]
                pl = o_.get("cp", o_.get("mv")) if isinstance(o_, dict) else None
                base = vals.get(pl) if isinstance(pl, int) else None
                sv = None if not isinstance(base, int) else int(not base)
            elif "discr" in src and isinstance(src["discr"], int):
                # discriminant of an enum value whose variant is known at this site
                base = vals.get(src["discr"])
                sv = base[1] if isinstance(base, tuple) else None
            if sv is not None:
                vals[tgt_local] = sv
        t = dict(cont["t"])
        sw = t["switch"]
        swl = sw.get("cp", sw.get("mv")) if isinstance(sw, dict) else None
        folded = vals.get(swl) if isinstance(swl, int) else None
        if not isinstance(folded, int):
            folded = None
        for o_, n_ in remap.items():
            sw = _subst_op(sw, o_, n_)
        t["switch"] = sw
        t["targets"] = [list(x) for x in t["targets"]]
        if folded is not None:
            tg = dict((v, b_) for v, b_ in t["targets"]).get(folded, t["otherwise"])
            t = {"goto": tg, "ln": t.get("ln"), "folded_switch": True}
        clone["t"] = t
        d["blocks"].append(clone)
        return len(d["blocks"]) - 1
    for kind, i, j in sites:
        blk = d["blocks"][i]
        di = len(d["locals"])
        d["locals"].append(dict(d["locals"][dest], thread=True))
        if kind == "stmt":
            st = blk["s"][j]
            blk["s"].append({"d": di, "r": copy.deepcopy(st["r"]), "ln": st.get("ln"), "x": "inline:ret-site"})
            k = clone_continuation(di, const_of(st["r"]))
            blk["t"] = {"goto": k, "ln": blk["t"].get("ln")}
        else:
            t = blk["t"]
            ci = len(d["locals"])
            d["locals"].append(dict(d["locals"][ret_local], thread=True))
            t["dest"] = ci
            k = clone_continuation(di)
            d["blocks"].append({"s": [{"d": ret_local, "r": {"use": {"cp": ci}}, "ln": t.get("ln"), "x": "inline:ret-site"},
                                      {"d": di, "r": {"use": {"cp": ci}}, "ln": t.get("ln"), "x": "inline:ret-site"}],
                                "t": {"goto": k, "ln": t.get("ln")}})
            t["target"] = len(d["blocks"]) - 1


def _known_of(rv):
    if rv.get("agg") == "adt" and isinstance(rv.get("vi"), int):
        return ("variant", rv["vi"])
    c_ = (rv.get("use") or {}).get("c") if set(rv) <= {"use"} else None
    if isinstance(c_, dict):
        if "bool" in c_:
            return int(bool(c_["bool"]))
        if "int" in c_ and isinstance(c_["int"], int):
            return c_["int"]
    return None


def _mentions(o, l):
    if isinstance(o, dict):
        for k, v in o.items():
            if k in ("cp", "mv", "ref", "discr", "d", "l", "drop", "idx") and v == l:
                return True
            if _mentions(v, l):
                return True
    elif isinstance(o, list):
        return any(_mentions(v, l) for v in o)
    return False


def thread_known(d, max_clones=80):
    """General jump threading (tail duplication with constant folding): a block that only copies / takes the discriminant of /
    negates a local and switches on the result is duplicated for every predecessor whose last action is to give that local a
    value of known discriminant (`x = Ok(..)`, `x = Kind::A`, `x = const true`); the duplicate jumps straight to the target the
    switch would take.  After desugaring `r.map_err(f)?` this removes the artificial join between building `Err(f(e))` and
    testing for it again, so that control dependence says what the source says."""
    clones = 0
    changed = True
    while changed and clones < max_clones:
        changed = False
        for S in range(len(d["blocks"])):
            blkS = d["blocks"][S]
            if blkS.get("cleanup") or "switch" not in blkS["t"] or len(blkS["s"]) > 8 or blkS.get("threaded_clone"):
                continue
            if any("d" not in st or not isinstance(st["d"], int) for st in blkS["s"]):
                continue        # (a store through a projection is not duplicated)
            sw_ = blkS["t"]["switch"]
            swl = sw_.get("mv", sw_.get("cp")) if isinstance(sw_, dict) else None
            if not isinstance(swl, int):
                continue
            for P in range(len(d["blocks"])):
                blkP = d["blocks"][P]
                if P == S or blkP.get("cleanup") or blkP["t"].get("goto") != S or not blkP["s"]:
                    continue
                last = blkP["s"][-1]
                x = last.get("d")
                if not isinstance(x, int):
                    continue
                known = _known_of(last["r"])
                if known is None:
                    continue
                # propagate the known value through the copies / discriminant reads / negations of S; every other statement
                # of S is an ordinary assignment that the duplicate repeats unchanged
                vals = {x: known}
                for st in blkS["s"]:
                    r = st["r"]
                    sv = None
                    if set(r) <= {"use"}:
                        p_ = r["use"].get("mv", r["use"].get("cp")) if isinstance(r["use"], dict) else None
                        sv = vals.get(p_) if isinstance(p_, int) else _known_of(r)
                    elif r.get("un") == "Not":
                        p_ = r["a"].get("mv", r["a"].get("cp")) if isinstance(r["a"], dict) else None
                        b_ = vals.get(p_) if isinstance(p_, int) else None
                        sv = int(not b_) if isinstance(b_, int) else None
                    elif "discr" in r and isinstance(r["discr"], int):
                        b_ = vals.get(r["discr"])
                        sv = b_[1] if isinstance(b_, tuple) else None
                    if sv is not None:
                        vals[st["d"]] = sv
                    else:
                        vals.pop(st["d"], None)
                folded = vals.get(swl)
                if not isinstance(folded, int):
                    continue
                tg = dict((v, b2) for v, b2 in blkS["t"]["targets"]).get(folded, blkS["t"]["otherwise"])
                d["blocks"].append({"s": [dict(st, x="thread:" + str(S)) for st in copy.deepcopy(blkS["s"])],
                                    "t": {"goto": tg, "ln": blkS["t"].get("ln"), "folded_switch": True}, "threaded_clone": True})
                blkP["t"] = {"goto": len(d["blocks"]) - 1, "ln": blkP["t"].get("ln")}
                clones += 1
                changed = True
                if clones >= max_clones:
                    break
            if clones >= max_clones:
                break
    return clones


def expand(crate, body, depth=2, pred=None, max_callee_blocks=80, max_total_blocks=1500, lower=False):
    """Body with local callees inlined (`pred(callee_body)` may veto).  The result keeps the caller's identity (id, name,
    file, line) and records the inlined functions in d["inlined"].  With `lower`, the std Option/Result/bool combinators are
    first desugared into explicit matches (vf.lower) and the closures they call are spliced in as well (a closure is part of
    its function: no depth is consumed and `pred` is not consulted)."""
    from . import lower as _lower
    d = copy.deepcopy(body.d)
    d.setdefault("promoted", [])
    inlined = []
    lowered = []

    def lower_range(first):
        """desugar every combinator call in blocks[first:] (new blocks included) — before any threading looks at them"""
        if not lower:
            return
        i = first
        while i < len(d["blocks"]) and len(d["blocks"]) < max_total_blocks:
            t_ = d["blocks"][i]["t"]
            if "call" in t_ and _lower.lower_block(d, i, crate):
                lowered.append(t_["call"].get("name"))
            i += 1
    lower_range(0)
    # (block index, remaining depth, call stack)
    work = [(i, depth, (body.id,)) for i in range(len(d["blocks"]))]
    while work:
        bi, dep, stack = work.pop()
        blk = d["blocks"][bi]
        t = blk["t"]
        if blk.get("cleanup") or "call" not in t or t.get("target") is None:
            continue
        is_closure = bool(t["call"].get("closure_call"))
        if dep <= 0 and not is_closure:
            continue
        cb = callee_of(crate, t)
        if cb is None or cb.id in stack or len(cb.blocks) > max_callee_blocks or len(d["blocks"]) + len(cb.blocks) > max_total_blocks:
            continue
        if len(t["args"]) != cb.argc:
            continue
        if pred is not None and not is_closure and not pred(cb):
            continue
        lo, bo, po = len(d["locals"]), len(d["blocks"]), len(d["promoted"])
        # instantiate the callee's type parameters with the call's type arguments (`parse_key::<i64>` parses an i64)
        res_ = t["call"].get("resolved") or {}
        targs = res_.get("substs") if res_.get("local") and res_.get("id") == cb.id else t["call"].get("substs")
        gens = cb.d.get("generics") or []
        tmap = dict(zip(gens, targs)) if targs is not None and len(gens) == len(targs) and gens else {}
        tmap = {k: v for k, v in tmap.items() if v != {"param": k}}
        cbd = _subst_types(cb.d, tmap) if tmap else cb.d
        for l in cbd["locals"]:
            d["locals"].append(dict(l, inl=cb.id))
        for p in cbd.get("promoted", []):
            d["promoted"].append(copy.deepcopy(p))
        dest, target = t["dest"], t["target"]
        # bind the arguments, then jump into the callee
        for k, a in enumerate(t["args"]):
            blk["s"].append({"d": lo + k + 1, "r": {"use": a}, "ln": t.get("ln"), "x": "inline:arg"})
        blk["t"] = {"goto": bo, "ln": t.get("ln"), "inlined_call": t["call"]}
        for cblk in cbd["blocks"]:
            nb = {"s": [], "t": None}
            if cblk.get("cleanup"):
                nb["cleanup"] = True
            for s in cblk["s"]:
                if "d" in s:
                    nb["s"].append(dict(s, d=_place(s["d"], lo), r=_rv(s["r"], lo, po), inl=cb.id))
                else:
                    nb["s"].append(s)
            ct = cblk["t"]
            if "return" in ct:
                nb["s"].append({"d": dest, "r": {"use": {"mv": lo}}, "ln": t.get("ln"), "x": "inline:ret"})
                nb["t"] = {"goto": target, "ln": ct.get("ln")}
            else:
                nb["t"] = _term(ct, lo, bo, po)
                nb["t"]["inl"] = cb.id
            d["blocks"].append(nb)
        inlined.append(cb.id)
        lower_range(bo)
        _thread_returns(d, bo, dest, target, lo)
        for i in range(bo, len(d["blocks"])):
            work.append((i, dep if is_closure else dep - 1, stack + (cb.id,)))
    if lower:
        thread_known(d)
    d["inlined"] = inlined
    d["lowered"] = lowered
    nb = Body(d, body.crate, body.facts)
    nb.inlined = inlined
    return nb


def expanded_family(crate, body, depth=2, pred=None, lower=False):
    """the expanded body plus the closures of the body and of every inlined function"""
    eb = expand(crate, body, depth, pred, lower=lower)
    fam = [eb] + crate.closures_of(body)
    for cid in eb.inlined:
        cb = crate.body(cid)
        if cb is not None:
            fam += crate.closures_of(cb)
    return eb, fam


def private_helpers(atoms=()):
    """default policy: inline private (non-`pub`) functions, except the ones a rule treats as semantic atoms"""
    atoms = set(atoms)

    def pred(cb):
        return cb.d.get("vis") != "pub" and cb.name not in atoms
    return pred


def specialise(crate, body, consts):
    """The body of a function of an `impl<.., const K: T>` read at one instantiation of its const parameters (`K = true`): operands
    naming the parameter — directly or through a trivial accessor (`const fn k() -> T { K }`) — become the constant, switches on
    such constants become jumps and the blocks no longer reachable are emptied.  `consts`: {parameter name: bool | int}."""
    import copy
    from .facts import Body
    d = copy.deepcopy(body.d)
    d.pop("_release_view", None)
    blocks = d["blocks"]

    def cst(v):
        return {"c": {"ty": {"prim": "bool" if isinstance(v, bool) else "usize"}, ("bool" if isinstance(v, bool) else "int"): v}}
    for blk in blocks:
        for s in blk["s"]:
            if "d" in s:
                r = s["r"]
                for k in ("use", "a", "b", "cast"):
                    if isinstance(r.get(k), dict) and isinstance(r[k].get("c"), dict) and r[k]["c"].get("tyconst") in consts:
                        r[k] = cst(consts[r[k]["c"]["tyconst"]])
        t = blk["t"]
        if "call" in t and t["call"].get("local") and t.get("target") is not None:
            cb = crate.body(t["call"].get("id"))
            if cb is not None and len(cb.blocks) == 1 and cb.argc == 0:
                st = [s for s in cb.blocks[0]["s"] if "d" in s]
                if len(st) == 1 and st[0]["d"] == 0 and "use" in st[0]["r"] and (st[0]["r"]["use"].get("c") or {}).get("tyconst") in consts:
                    blk["s"].append({"d": t["dest"], "r": {"use": cst(consts[st[0]["r"]["use"]["c"]["tyconst"]])}, "ln": t.get("ln", 0)})
                    blk["t"] = {"goto": t["target"], "ln": t.get("ln", 0)}
    # constant switches -> jumps
    def const_of_local(l):
        defs = [s for b2 in blocks for s in b2["s"] if "d" in s and s["d"] == l]
        if len(defs) == 1 and "use" in defs[0]["r"] and isinstance(defs[0]["r"]["use"].get("c"), dict):
            c_ = defs[0]["r"]["use"]["c"]
            if "bool" in c_:
                return int(c_["bool"])
            if "int" in c_:
                return c_["int"]
        return None
    for blk in blocks:
        t = blk["t"]
        if "switch" in t:
            op = t["switch"]
            v = None
            if isinstance(op.get("c"), dict):
                v = int(op["c"]["bool"]) if "bool" in op["c"] else op["c"].get("int")
            else:
                l = op.get("cp") if "cp" in op else op.get("mv")
                if isinstance(l, int):
                    v = const_of_local(l)
            if v is not None:
                tgt = next((tg for val, tg in t["targets"] if val == v), t["otherwise"])
                blk["t"] = {"goto": tgt, "ln": t.get("ln", 0)}
    # unreachable blocks are emptied
    seen, st_ = {0}, [0]
    while st_:
        k = st_.pop()
        tt = blocks[k]["t"]
        succ = []
        if "goto" in tt:
            succ.append(tt["goto"])
        if "switch" in tt:
            succ += [tg for _, tg in tt["targets"]] + [tt["otherwise"]]
        for key in ("target", "unwind", "cleanup"):
            if isinstance(tt.get(key), int):
                succ.append(tt[key])
        for x in succ:
            if x not in seen and 0 <= x < len(blocks):
                seen.add(x)
                st_.append(x)
    for k, blk in enumerate(blocks):
        if k not in seen:
            blk["s"] = []
            blk["t"] = {"unreachable": None, "ln": blk["t"].get("ln", 0)}
    nb = Body(d, body.crate, body.facts)
    return nb
