#!/bin/bash
# usage: tools/confirm_seed.sh <ID> [<sub>]  — independently confirms a sub-agent's seeded change in a fresh scratch worktree:
#   1. patch only: workspace builds and the 112-test suite passes; 2. + demo: demo fails; 3. patch reverted: demo passes.
ID="$1"; SUB="$2"; SRC=/tmp/wt/$ID/${SEEDDIR:-SEED}${SUB:+/$SUB}; W=/tmp/cw/$ID$SUB; LOG=/tmp/cw/$ID$SUB.log
mkdir -p /tmp/cw; rm -rf "$W"; git -C /repo worktree prune
git -C /repo worktree add -q --detach "$W" HEAD || exit 3
export CARGO_TARGET_DIR=/tmp/wt/$ID/target CARGO_NET_OFFLINE=true
[ -f "$SRC/meta.json" ] || { echo "RESULT no-such-seed $SRC"; git -C /repo worktree remove --force "$W"; exit 1; }
cd "$W"
DEMO=$(python3 -c "import json;print(json.load(open('$SRC/meta.json'))['demo_cmd'])" | sed "s#/tmp/wt/$ID#$W#g")
{
echo "== apply patch"; git apply "$SRC/patch.diff" || { echo "RESULT patch-does-not-apply"; exit 1; }
echo "== suite with patch"; cargo test --workspace --no-fail-fast --offline --lib --bins --tests 2>&1 | grep -E "^test result|FAILED|^error" ; S=${PIPESTATUS[0]}
echo "suite_rc=$S"
echo "== apply demo"; git apply "$SRC/demo.diff" || { echo "RESULT demo-does-not-apply"; exit 1; }
echo "== demo with patch: $DEMO"; bash -c "$DEMO" 2>&1 | grep -E "^test result|panicked|FAILED|^error" | head -8; D1=${PIPESTATUS[0]}
echo "demo_with_patch_rc=$D1"
echo "== revert patch"; git apply -R "$SRC/patch.diff"
echo "== demo without patch"; bash -c "$DEMO" 2>&1 | grep -E "^test result|panicked|FAILED|^error" | head -8; D2=${PIPESTATUS[0]}
echo "demo_without_patch_rc=$D2"
if [ "$S" = 0 ] && [ "$D1" != 0 ] && [ "$D2" = 0 ]; then echo "RESULT confirmed"; else echo "RESULT NOT-confirmed"; fi
} > "$LOG" 2>&1
cd /; git -C /repo worktree remove --force "$W"
tail -1 "$LOG"
