"""Three-valued reading of the syntactic conditions the template extractor (E3) records for a quote!:
True  — the template is emitted exactly on the positive outcome of the named predicate call (and under nothing else),
False — the conditions mention the predicate but not as a sole positive guard (negated, or mixed with other conditions),
None  — the conditions do not mention it at all (the decision is taken elsewhere: helper, value, early return)."""
import re


def _norm(c):
    return re.sub(r"\s+", "", c)


def polarity(cond, name):
    """+1 / -1 / 0 (not mentioned) / None (mentioned in an unrecognised way) for one condition string"""
    c = _norm(cond)
    if name + "(" not in c:
        return 0
    call = r"&?(?:\w+(?:\.\w+\(\))*\.|\w+::)*" + re.escape(name) + r"\([^()]*(?:\([^()]*\)[^()]*)*\)"
    if re.fullmatch(r"if" + call, c) or re.fullmatch(r"match" + call + r"=>true", c) or re.fullmatch(r"elseofif!" + call, c) or re.fullmatch(r"if" + call + r"==true", c):
        return 1
    # Option-valued form of a predicate (`fn safe_key() -> Option<Key>`: Some(key) iff the predicate holds)
    if re.fullmatch(r"match" + call + r"=>Some\(.*\)", c) or re.fullmatch(r"ifletSome\(.*\)=" + call, c) or re.fullmatch(r"if" + call + r"\.is_some\(\)", c):
        return 1
    if re.fullmatch(r"match" + call + r"=>None", c) or re.fullmatch(r"elseofifletSome\(.*\)=" + call, c) or re.fullmatch(r"if" + call + r"\.is_none\(\)", c):
        return -1
    if re.fullmatch(r"if!" + call, c) or re.fullmatch(r"match" + call + r"=>false", c) or re.fullmatch(r"elseofif" + call, c):
        return -1
    return None


def positive_guard(conds, name, allow_others=False):
    pols = [polarity(c, name) for c in conds]
    mentioned = [p for p in pols if p != 0]
    if not mentioned:
        return None
    if any(p is None or p < 0 for p in mentioned):
        return False
    if not allow_others and len(mentioned) != len(conds):
        return False
    return True
