"""F1 wrap discipline + F2 surface completeness + entry-point binding for conjure_serde
(shared by C01 and C05)."""
import json, os
from .facts import ty_adt, tystr, strip_refs
from . import core

SER = "serde_core::ser::"
DE = "serde_core::de::"
SER_TRAITS = [SER + x for x in ("Serializer", "Serialize", "SerializeSeq", "SerializeTuple", "SerializeTupleStruct",
                                "SerializeTupleVariant", "SerializeMap", "SerializeStruct", "SerializeStructVariant")]
DE_TRAITS = [DE + x for x in ("Deserializer", "Visitor", "SeqAccess", "MapAccess", "EnumAccess", "VariantAccess",
                              "DeserializeSeed")]
SER_CARRIERS = {SER + "Serialize", SER + "Serializer"}
DE_CARRIERS = {DE + x for x in ("Deserializer", "Visitor", "SeqAccess", "MapAccess", "EnumAccess", "VariantAccess",
                                "DeserializeSeed", "Deserialize")}
KEY_METHODS = {"serialize_key", "next_key_seed"}
# (callee name, generic parameter) slots that carry a map KEY and therefore must be wrapped with the key behaviour
KEY_SLOTS = {("serialize_key", "T"), ("next_key_seed", "K"), ("next_key", "K"), ("serialize_entry", "K"), ("next_entry_seed", "K"), ("next_entry", "K")}


def surface_allow():
    return json.load(open(os.path.join(core.VERIF, "spec", "serde_surface_allow.json")))


def entry_impls(crate, trait):
    """impls of `trait` whose self type is `&mut <local pub ADT>` — the public entry types"""
    out = []
    for i in crate.impls_of(trait):
        st = i["self_ty"]
        if "ref" in st and st.get("mut") and "adt" in st["ref"] and st["ref"]["adt"].startswith(crate.name + "::"):
            out.append(i)
    return out


def serde_handoffs(crate, body, behavior_trait):
    """calls (in body and its closures) to serde ser/de trait methods or Behavior methods"""
    out = []
    for b in [body] + crate.closures_of(body):
        for bb, t in b.calls():
            tr = t["call"].get("trait") or ""
            if tr.startswith(SER) or tr.startswith(DE) or tr == behavior_trait:
                out.append((b, bb, t))
    return out


def find_wrapper(ctx, crate, trait, behavior_trait, rule):
    """the wrapper ADT = the Self type every entry-type method delegates to"""
    ws = set()
    for i in entry_impls(crate, trait):
        for name, body in crate.methods_of_impl(i).items():
            for b, bb, t in serde_handoffs(crate, body, behavior_trait):
                f = t["call"]
                if f.get("trait") == trait and f.get("substs"):
                    a = ty_adt(f["substs"][0])
                    if a:
                        ws.add(a)
    if len(ws) != 1:
        ctx.violation(rule, crate.name, f"wrapper-anchor|{trait}", f"cannot identify the unique wrapper type the entry impls of {trait} delegate to: {sorted(ws)}")
        return None
    return ws.pop()


def key_behavior_of(bparam_ty, behavior_trait):
    return {"proj": "KeyBehavior", "trait": behavior_trait, "args": [bparam_ty]}


def ty_eq(a, b):
    return json.dumps(a, sort_keys=True) == json.dumps(b, sort_keys=True)


def check_wrapper_impls(ctx, crate, W, traits, behavior_trait, carriers, rule):
    """R1.1 / R1.2. returns number of carrier slots decided"""
    slots = 0
    behavior_methods = set((crate.trait_decls.get(behavior_trait) or {}).get("methods", {}).keys())
    if not behavior_methods:
        ctx.violation(rule, crate.name, f"anchor|{behavior_trait}", f"behaviour trait {behavior_trait} not found")
        return 0
    seen_traits = set()
    for i in crate.impls:
        tr = i.get("trait")
        if tr not in traits or ty_adt(i["self_ty"]) != W or "adt" not in i["self_ty"]:
            continue
        seen_traits.add(tr)
        args = i["self_ty"]["args"]
        if len(args) != 2 or "param" not in args[0] or "param" not in args[1]:
            ctx.violation(rule, f"{i['file']}:{i['line']}", f"{tr}|impl-shape", f"impl {tr} for {tystr(i['self_ty'])}: expected fully generic wrapper <inner, behaviour>")
            continue
        inner_p, b_p = args[0], args[1]
        # associated types that hand out compound carriers must be wrapped with B
        for an, at in i["assoc_tys"].items():
            if an in ("Ok", "Error", "Value"):
                continue
            good = ty_adt(at) == W and "adt" in at and len(at["args"]) == 2 and ty_eq(at["args"][1], b_p) \
                and at["args"][0].get("proj") == an and ty_eq(at["args"][0]["args"][0], inner_p)
            ctx.check(good, rule, f"{i['file']}:{i['line']}", f"{tr}|type {an}",
                      f"associated type {an} of impl {tr} for {tystr(i['self_ty'])} is {tystr(at)}, expected {W}<<{tystr(inner_p)} as ..>::{an}, {tystr(b_p)}>",
                      instance=f"{tr}::{an} = {tystr(at)}")
            slots += 1
        for name, body in sorted(crate.methods_of_impl(i).items()):
            where = body.loc()
            hs = serde_handoffs(crate, body, behavior_trait)
            via_behavior = (tr in (SER + "Serializer", DE + "Deserializer")) and name in behavior_methods
            named = []
            for b, bb, t in hs:
                f = t["call"]
                ftr = f.get("trait")
                if via_behavior:
                    if ftr == behavior_trait and f["name"] == name:
                        named.append((b, bb, t))
                else:
                    if ftr == tr and f["name"] == name and f["substs"] and ty_eq(f["substs"][0], inner_p):
                        named.append((b, bb, t))
            if not named:
                exp = f"<{tystr(b_p)} as {behavior_trait}>::{name}" if via_behavior else f"<{tystr(inner_p)} as {tr}>::{name}"
                got = [t["call"]["def"] + "::<" + ", ".join(tystr(x) for x in t["call"]["substs"]) + ">" for _, _, t in hs]
                ctx.violation(rule, where, f"{tr}::{name}|delegate",
                              f"{tystr(i['self_ty'])}::{name} does not hand off to {exp}; serde calls found: {got}")
                continue
            for b, bb, t in hs:
                f = t["call"]
                sig = crate.sigs.get(f["def"])
                if sig is None:
                    ctx.violation(rule, where, f"{tr}::{name}|sig|{f['def']}", f"no signature facts for callee {f['def']}")
                    continue
                gens = sig["generics"]
                substs = f["substs"]
                if len(gens) != len(substs):
                    ctx.violation(rule, where, f"{tr}::{name}|arity|{f['def']}", f"generic arity mismatch for {f['def']}: {gens} vs {[tystr(x) for x in substs]}")
                    continue
                if f.get("trait") == behavior_trait:
                    # Self must be the wrapper's behaviour parameter
                    ctx.check(ty_eq(substs[0], b_p), rule, b.loc(t["ln"]), f"{tr}::{name}|behaviour-self",
                              f"{name}: dispatches to {tystr(substs[0])}::{f['name']}, expected the wrapper's own behaviour {tystr(b_p)}",
                              instance=f"{tr}::{name} -> <{tystr(substs[0])} as Behavior>::{f['name']}")
                for idx in range(1, len(gens)):
                    g = gens[idx]
                    bounds = set(sig["bounds"].get(g, []))
                    if not (bounds & carriers):
                        continue
                    ta = substs[idx]
                    slots += 1
                    inst = f"{tr}::{name} -> {f['def']} slot {g}: {tystr(ta)}"
                    if f.get("trait") == behavior_trait and tr in bounds:
                        # the raw inner (de)serializer is driven by the behaviour: must NOT be wrapped
                        ctx.check(ty_eq(ta, inner_p), rule, b.loc(t["ln"]), f"{tr}::{name}|{f['name']}|{g}",
                                  f"{name}: behaviour receives {tystr(ta)} as the underlying format driver, expected the raw inner {tystr(inner_p)}", instance=inst)
                        continue
                    exp_b = key_behavior_of(b_p, behavior_trait) if (f["name"], g) in KEY_SLOTS else b_p
                    core_t = strip_refs(ta)
                    good = ty_adt(core_t) == W and len(core_t.get("args", [])) == 2 and ty_eq(core_t["args"][1], exp_b)
                    ctx.check(good, rule, b.loc(t["ln"]), f"{tr}::{name}|{f['name']}|{g}",
                              f"{tystr(i['self_ty'])}::{name}: callee {f['def']}, carrier slot {g}: got {tystr(ta)}, expected {W}<_, {tystr(exp_b)}>",
                              instance=inst)
    missing = [t for t in traits if t not in seen_traits]
    for t in missing:
        ctx.violation(rule, crate.name, f"impl-missing|{t}", f"no impl of {t} for the wrapper {W} found")
    return slots


def check_entry_impl(ctx, crate, i, W, behavior_trait, rule):
    """R1.3 for one entry impl; returns the bound behaviour type (or None)"""
    tr = i["trait"]
    behs = {}
    for name, body in sorted(crate.methods_of_impl(i).items()):
        hs = [(b, bb, t) for b, bb, t in serde_handoffs(crate, body, behavior_trait)]
        if not hs:
            # constant answers such as is_human_readable
            ctx.ok(rule, body.loc(), f"{tystr(i['self_ty'])}::{name} answers locally", nontrivial=False)
            continue
        for b, bb, t in hs:
            f = t["call"]
            s0 = f["substs"][0] if f.get("substs") else None
            good = f.get("trait") == tr and f["name"] == name and s0 is not None and ty_adt(s0) == W and "adt" in s0
            if not good:
                ctx.violation(rule, b.loc(t["ln"]), f"{tystr(i['self_ty'])}::{name}|delegate",
                              f"entry method {name} calls {f['def']}::<{', '.join(tystr(x) for x in f.get('substs', []))}>, expected {tr}::{name} on {W}<_, behaviour>")
                continue
            behs.setdefault(json.dumps(s0["args"][1], sort_keys=True), []).append(name)
            ctx.ok(rule, b.loc(t["ln"]), f"{tystr(i['self_ty'])}::{name} -> {W}<_, {tystr(s0['args'][1])}>::{name}")
    for an, at in i["assoc_tys"].items():
        if ty_adt(at) == W and "adt" in at:
            behs.setdefault(json.dumps(at["args"][1], sort_keys=True), []).append("type " + an)
    if len(behs) != 1:
        ctx.violation(rule, f"{i['file']}:{i['line']}", f"{tystr(i['self_ty'])}|consistent-behaviour",
                      f"methods of {tr} for {tystr(i['self_ty'])} bind different behaviours: " +
                      "; ".join(f"{tystr(json.loads(k))}: {v[:4]}" for k, v in behs.items()))
        return None
    return json.loads(next(iter(behs)))


def check_surface(ctx, crate, impls, rule, allow_extra=None, only=None):
    """only: {token: predicate(impl)} for allow-list lines restricted with 'ONLY <token>:'"""
    allow = surface_allow()
    n = 0
    for i in impls:
        tr = i.get("trait")
        al = dict(allow.get(tr, {}))
        al.update((allow_extra or {}).get(tr, {}))
        for m in i.get("not_overridden", []):
            n += 1
            key = f"{tystr(i['self_ty'])}|{tr}::{m}"
            reason = al.get(m)
            ok = reason is not None
            if ok and reason.startswith("ONLY "):
                tok = reason[5:].split(":")[0].strip()
                pred = (only or {}).get(tok)
                ok = bool(pred and pred(i))
            ctx.check(ok, rule, f"{i['file']}:{i['line']}", key,
                      f"impl {tr} for {tystr(i['self_ty'])} leaves provided method `{m}` to serde's default, which is not in the reasoned allow-list (spec/serde_surface_allow.json)",
                      instance=f"{tystr(i['self_ty'])}: default {tr}::{m} allowed", nontrivial=False)
    return n


