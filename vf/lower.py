"""Desugaring of the std Option / Result / bool combinators into explicit control flow (on a copy of a body's MIR facts).

`x.map_err(f)`, `o.ok_or_else(f)`, `b.then(f)`, `r.and_then(f)` ... are definitionally a `match` on the receiver whose arms
construct a value or call `f`.  A behaviour-preserving refactoring freely moves between the two spellings, so the path rules
(dominance, control dependence, value origin) are decided on the lowered form: a switch on the receiver's discriminant, the
payload moved out of the receiver, a direct call of the closure / function item (which `inline.expand` then splices in like
any other local callee) and an aggregate building the result.

Only the semantics documented for the combinators in core is encoded (table `COMBINATORS`); anything else is left as a call."""

OPT, RES = "core::option::Option", "core::result::Result"

# receiver kind -> name -> {variant index: expr}
#   expr:  ("payload",)              the receiver's payload
#          ("arg", k)                the k-th argument of the combinator (k >= 1), by value
#          ("callf", k, [exprs])     call argument k (closure / fn item) with the given argument expressions
#          ("wrap", adt, vi, expr)   Some(..) / Ok(..) / Err(..)
#          ("unit", adt, vi)         None
#          ("bool", v)
#          ("ifp", k, then, else)    if <argument k>(&payload) { then } else { else }
#          ("same",)                 the receiver itself (e.g. the untouched arm of `or_else`)
SOME = lambda e: ("wrap", OPT, 1, e)
NONE = ("unit", OPT, 0)
OK = lambda e: ("wrap", RES, 0, e)
ERR = lambda e: ("wrap", RES, 1, e)
P = ("payload",)

COMBINATORS = {
    OPT: {   # variant 0 = None, 1 = Some
        "map": {1: SOME(("callf", 1, [P])), 0: NONE},
        "and_then": {1: ("callf", 1, [P]), 0: NONE},
        "ok_or": {1: OK(P), 0: ERR(("arg", 1))},
        "ok_or_else": {1: OK(P), 0: ERR(("callf", 1, []))},
        "unwrap_or": {1: P, 0: ("arg", 1)},
        "unwrap_or_else": {1: P, 0: ("callf", 1, [])},
        "map_or": {1: ("callf", 2, [P]), 0: ("arg", 1)},
        "map_or_else": {1: ("callf", 2, [P]), 0: ("callf", 1, [])},
        "filter": {1: ("ifp", 1, SOME(P), NONE), 0: NONE},
        "is_some_and": {1: ("callf", 1, [P]), 0: ("bool", False)},
        "is_none_or": {1: ("callf", 1, [P]), 0: ("bool", True)},
        "or": {1: SOME(P), 0: ("arg", 1)},
        "or_else": {1: SOME(P), 0: ("callf", 1, [])},
        "zip": {1: ("zip", 1), 0: NONE},
        # discriminant- and payload-preserving views (the payload is the same value behind a reference / a copy of it)
        "as_ref": {1: SOME(P), 0: NONE}, "as_mut": {1: SOME(P), 0: NONE}, "as_deref": {1: SOME(P), 0: NONE}, "as_deref_mut": {1: SOME(P), 0: NONE},
        "cloned": {1: SOME(P), 0: NONE}, "copied": {1: SOME(P), 0: NONE},
    },
    RES: {   # variant 0 = Ok, 1 = Err
        "map": {0: OK(("callf", 1, [P])), 1: ERR(P)},
        "map_err": {0: OK(P), 1: ERR(("callf", 1, [P]))},
        "and_then": {0: ("callf", 1, [P]), 1: ERR(P)},
        "or_else": {0: OK(P), 1: ("callf", 1, [P])},
        "unwrap_or": {0: P, 1: ("arg", 1)},
        "unwrap_or_else": {0: P, 1: ("callf", 1, [P])},
        "map_or": {0: ("callf", 2, [P]), 1: ("arg", 1)},
        "map_or_else": {0: ("callf", 2, [P]), 1: ("callf", 1, [P])},
        "ok": {0: SOME(P), 1: NONE},
        "err": {0: NONE, 1: SOME(P)},
        "as_ref": {0: OK(P), 1: ERR(P)}, "as_mut": {0: OK(P), 1: ERR(P)}, "as_deref": {0: OK(P), 1: ERR(P)}, "cloned": {0: OK(P), 1: ERR(P)}, "copied": {0: OK(P), 1: ERR(P)},
        "is_ok_and": {0: ("callf", 1, [P]), 1: ("bool", False)},
        "is_err_and": {0: ("bool", False), 1: ("callf", 1, [P])},
    },
    "bool": {  # 0 = false, 1 = true
        "then": {1: SOME(("callf", 1, [])), 0: NONE},
        "then_some": {1: SOME(("arg", 1)), 0: NONE},
    },
}
VARIANT_NAMES = {OPT: ["None", "Some"], RES: ["Ok", "Err"]}


def combinator_of(t):
    """(receiver kind, table row) when the call terminator is a modelled combinator"""
    f = t.get("call") or {}
    d, name = f.get("def", ""), f.get("name", "")
    st = f.get("self_ty") or {}
    if f.get("trait"):
        return None
    if st.get("adt") in (OPT, RES) and d.startswith(st["adt"] + "::<") and name in COMBINATORS[st["adt"]]:
        return st["adt"], COMBINATORS[st["adt"]][name]
    if st.get("prim") == "bool" and d.startswith("core::bool::<impl bool>::") and name in COMBINATORS["bool"]:
        return "bool", COMBINATORS["bool"][name]
    return None


class _Emit:
    def __init__(self, d, t, crate):
        self.d, self.t, self.crate = d, t, crate
        self.ln = t.get("ln")
        self.tag = "lower:" + t["call"]["name"]
        self.new_blocks = []

    def local(self, ty=None):
        self.d["locals"].append({"ty": ty if ty is not None else {"infer": None}, "lowered": True})
        return len(self.d["locals"]) - 1

    def block(self, stmts, term):
        self.d["blocks"].append({"s": stmts, "t": term})
        self.new_blocks.append(len(self.d["blocks"]) - 1)
        return len(self.d["blocks"]) - 1

    def stmt(self, dest, r):
        return {"d": dest, "r": r, "ln": self.ln, "x": self.tag}

    def dest_ty(self, dest):
        return self.d["locals"][dest]["ty"] if isinstance(dest, int) and dest < len(self.d["locals"]) else None

    def callee_fact(self, k):
        """call fact for calling argument k of the combinator"""
        a, aty = self.t["args"][k], (self.t.get("atys") or [None] * 9)[k] or {}
        c = a.get("c") if isinstance(a, dict) else None
        if isinstance(c, dict) and "fn" in c:
            return dict(c["fn"]), None
        if "closure" in aty:
            cid = aty["closure"]
            return {"def": cid, "id": cid, "name": cid.split("::")[-1], "local": self.crate.body(cid) is not None, "substs": [], "closure_call": True}, a
        return {"def": "core::ops::function::FnOnce::call_once", "id": "core::ops::function::FnOnce::call_once", "name": "call_once", "local": False,
                "trait": "core::ops::function::FnOnce", "substs": [aty], "via_value": True}, a

    def emit(self, expr, dest, cont, payload, recv, want_ty=None):
        """blocks computing `expr` into `dest`, then going to `cont`; returns the entry block index"""
        kind = expr[0]
        if kind == "payload":
            return self.block([self.stmt(dest, {"use": {"mv": payload}})], {"goto": cont, "ln": self.ln})
        if kind == "same":
            return self.block([self.stmt(dest, {"use": {"mv": recv}})], {"goto": cont, "ln": self.ln})
        if kind == "arg":
            return self.block([self.stmt(dest, {"use": self.t["args"][expr[1]]})], {"goto": cont, "ln": self.ln})
        if kind == "bool":
            return self.block([self.stmt(dest, {"use": {"c": {"ty": {"prim": "bool"}, "bool": expr[1]}}})], {"goto": cont, "ln": self.ln})
        if kind == "unit":
            dt_ = self.dest_ty(dest) or {}
            return self.block([self.stmt(dest, {"agg": "adt", "adt": expr[1], "variant": VARIANT_NAMES[expr[1]][expr[2]], "vi": expr[2], "args": dt_.get("args", []), "ops": []})],
                              {"goto": cont, "ln": self.ln})
        if kind == "wrap":
            dt_ = self.dest_ty(dest) or {}
            targs = dt_.get("args", []) if dt_.get("adt") == expr[1] else []
            inner_ty = None
            if targs:
                inner_ty = targs[0] if expr[1] == OPT else (targs[expr[2]] if expr[2] < len(targs) else None)
            tmp = self.local(inner_ty)
            fin = self.block([self.stmt(dest, {"agg": "adt", "adt": expr[1], "variant": VARIANT_NAMES[expr[1]][expr[2]], "vi": expr[2], "args": targs, "ops": [{"mv": tmp}]})],
                             {"goto": cont, "ln": self.ln})
            return self.emit(expr[3], tmp, fin, payload, recv)
        if kind == "callf":
            fact, envop = self.callee_fact(expr[1])
            stmts, args = [], []
            if envop is not None:
                args.append(envop)
            if fact.get("via_value") and expr[2]:
                # FnOnce::call_once(f, (args,))
                tup = self.local({"tuple": []})
                ops = []
                for e in expr[2]:
                    ops.append({"mv": payload} if e == P else self.t["args"][e[1]])
                stmts.append(self.stmt(tup, {"agg": "tuple", "ops": ops}))
                args.append({"mv": tup})
            elif fact.get("via_value"):
                tup = self.local({"tuple": []})
                stmts.append(self.stmt(tup, {"agg": "tuple", "ops": []}))
                args.append({"mv": tup})
            else:
                for e in expr[2]:
                    args.append({"mv": payload} if e == P else self.t["args"][e[1]])
            # a tuple-struct constructor used as the function (`.map(Wrapper)`): the value is built right here
            a_ = (getattr(self.crate, "adts", None) or {}).get(fact.get("def"))
            if a_ and a_.get("kind") == "struct" and envop is None and len(a_["variants"][0]["fields"]) == len(args):
                stmts.append(self.stmt(dest, {"agg": "adt", "adt": fact["def"], "variant": a_["variants"][0]["name"], "vi": 0, "args": fact.get("substs", []), "ops": args}))
                return self.block(stmts, {"goto": cont, "ln": self.ln})
            term = {"call": fact, "args": args, "atys": [], "dest": dest, "target": cont, "ln": self.ln, "fln": self.ln, "x": self.tag}
            return self.block(stmts, term)
        if kind == "zip":
            # Some(x).zip(other): Some((x, y)) when other is Some(y), None otherwise
            other = self.local((self.t.get("atys") or [None, None])[expr[1]] if len(self.t.get("atys") or []) > expr[1] else None)
            y = self.local()
            tup = self.local({"tuple": []})
            dl = self.local({"prim": "isize"})
            none_b = self.emit(NONE, dest, cont, payload, recv)
            fin = self.block([self.stmt(y, {"use": {"mv": {"l": other, "p": [{"dc": 1, "n": "Some"}, {"f": 0, "n": "0"}]}}}),
                              self.stmt(tup, {"agg": "tuple", "ops": [{"mv": payload}, {"mv": y}]}),
                              self.stmt(dest, {"agg": "adt", "adt": OPT, "variant": "Some", "vi": 1, "args": (self.dest_ty(dest) or {}).get("args", []), "ops": [{"mv": tup}]})],
                             {"goto": cont, "ln": self.ln})
            unreachable = self.block([], {"unreachable": None, "ln": self.ln})
            return self.block([self.stmt(other, {"use": self.t["args"][expr[1]]}), self.stmt(dl, {"discr": other})],
                              {"switch": {"mv": dl}, "sty": {"prim": "isize"}, "targets": [[0, none_b], [1, fin]], "otherwise": unreachable, "ln": self.ln, "x": self.tag})
        if kind == "ifp":
            fact, envop = self.callee_fact(expr[1])
            ref = self.local({"ref": {"infer": None}, "mut": False})
            flag = self.local({"prim": "bool"})
            then_b = self.emit(expr[2], dest, cont, payload, recv)
            else_b = self.emit(expr[3], dest, cont, payload, recv)
            sw = self.block([], {"switch": {"mv": flag}, "sty": {"prim": "bool"}, "targets": [[0, else_b]], "otherwise": then_b, "ln": self.ln, "x": self.tag})
            args = ([envop] if envop is not None else []) + [{"mv": ref}]
            if fact.get("via_value"):
                tup = self.local({"tuple": []})
                pre = [self.stmt(ref, {"ref": payload, "mut": False}), self.stmt(tup, {"agg": "tuple", "ops": [{"mv": ref}]})]
                args = [envop, {"mv": tup}]
            else:
                pre = [self.stmt(ref, {"ref": payload, "mut": False})]
            return self.block(pre, {"call": fact, "args": args, "atys": [], "dest": flag, "target": sw, "ln": self.ln, "fln": self.ln, "x": self.tag})
        raise ValueError(kind)


CF = "core::ops::control_flow::ControlFlow"


def _lower_try_branch(d, bi, crate):
    """`x?` : Try::branch on a Result / Option is a match on it — Ok(v) / Some(v) continue with v, Err(e) / None break out with
    the residual.  When the continuation is the standard desugaring (a switch on the ControlFlow's discriminant) the two
    arms jump straight to its targets."""
    blk = d["blocks"][bi]
    t = blk["t"]
    f = t["call"]
    st = f.get("self_ty") or {}
    kind = st.get("adt")
    if kind not in (OPT, RES) or not isinstance(t["dest"], int):
        return []
    em = _Emit(d, t, crate)
    dest, cont = t["dest"], t["target"]
    targs = st.get("args", [])
    recv = em.local(st)
    blk["s"].append(em.stmt(recv, {"use": t["args"][0]}))
    cont_blk = d["blocks"][cont]
    direct = None
    cs = [x for x in cont_blk["s"] if "d" in x]
    if len(cs) == 1 and cs[0]["r"].get("discr") == dest and "switch" in cont_blk["t"] and isinstance(cs[0]["d"], int) \
            and (cont_blk["t"]["switch"].get("mv", cont_blk["t"]["switch"].get("cp")) == cs[0]["d"]):
        tg = dict((v, b_) for v, b_ in cont_blk["t"]["targets"])
        if 0 in tg and 1 in tg:
            direct = (tg[0], tg[1], cs[0]["d"])
    ok_vi = 0 if kind == RES else 1
    bad_vi = 1 - ok_vi
    okty = targs[0] if targs else None
    # continue arm
    pay = em.local(okty)
    pre = [em.stmt(pay, {"use": {"mv": {"l": recv, "p": [{"dc": ok_vi, "n": VARIANT_NAMES[kind][ok_vi]}, {"f": 0, "n": "0"}]}}}),
           em.stmt(dest, {"agg": "adt", "adt": CF, "variant": "Continue", "vi": 0, "args": [], "ops": [{"mv": pay}]})]
    if direct:
        pre.append(em.stmt(direct[2], {"use": {"c": {"ty": {"prim": "isize"}, "int": 0}}}))
    cont_arm = em.block(pre, {"goto": direct[0] if direct else cont, "ln": t.get("ln")})
    # break arm: the residual is the same Err(e) / None
    res_ = em.local(st)
    if kind == RES:
        e_ = em.local(targs[1] if len(targs) > 1 else None)
        pre = [em.stmt(e_, {"use": {"mv": {"l": recv, "p": [{"dc": 1, "n": "Err"}, {"f": 0, "n": "0"}]}}}),
               em.stmt(res_, {"agg": "adt", "adt": RES, "variant": "Err", "vi": 1, "args": targs, "ops": [{"mv": e_}]})]
    else:
        pre = [em.stmt(res_, {"agg": "adt", "adt": OPT, "variant": "None", "vi": 0, "args": targs, "ops": []})]
    pre.append(em.stmt(dest, {"agg": "adt", "adt": CF, "variant": "Break", "vi": 1, "args": [], "ops": [{"mv": res_}]}))
    if direct:
        pre.append(em.stmt(direct[2], {"use": {"c": {"ty": {"prim": "isize"}, "int": 1}}}))
    break_arm = em.block(pre, {"goto": direct[1] if direct else cont, "ln": t.get("ln")})
    dl = em.local({"prim": "isize"})
    blk["s"].append(em.stmt(dl, {"discr": recv}))
    unreachable = em.block([], {"unreachable": None, "ln": t.get("ln")})
    tgs = [[0, cont_arm], [1, break_arm]] if kind == RES else [[0, break_arm], [1, cont_arm]]
    blk["t"] = {"switch": {"mv": dl}, "sty": {"prim": "isize"}, "targets": tgs, "otherwise": unreachable, "ln": t.get("ln"), "x": em.tag, "lowered_call": t["call"]}
    return em.new_blocks


def lower_block(d, bi, crate):
    """rewrite the combinator call ending block `bi` (if it is one); returns the indices of the new blocks"""
    blk = d["blocks"][bi]
    t = blk["t"]
    if blk.get("cleanup") or "call" not in t or t.get("target") is None:
        return []
    if t["call"].get("def") == "core::ops::try_trait::Try::branch" and len(t["args"]) == 1:
        return _lower_try_branch(d, bi, crate)
    if t["call"].get("def") == "core::ops::try_trait::FromResidual::from_residual" and len(t["args"]) == 1 and isinstance(t["dest"], int):
        # the error side of `?`: from_residual(Err(e)) is Err(From::from(e)), from_residual(None) is None — a value of known variant
        st = t["call"].get("self_ty") or {}
        em = _Emit(d, t, crate)
        if st.get("adt") == RES:
            targs = st.get("args", [])
            res_ = em.local((t.get("atys") or [None])[0])
            e_ = em.local()
            e2 = em.local(targs[1] if len(targs) > 1 else None)
            fin = em.block([em.stmt(t["dest"], {"agg": "adt", "adt": RES, "variant": "Err", "vi": 1, "args": targs, "ops": [{"mv": e2}]})], {"goto": t["target"], "ln": t.get("ln")})
            blk["s"].append(em.stmt(res_, {"use": t["args"][0]}))
            blk["s"].append(em.stmt(e_, {"use": {"mv": {"l": res_, "p": [{"dc": 1, "n": "Err"}, {"f": 0, "n": "0"}]}}}))
            blk["t"] = {"call": {"def": "core::convert::From::from", "id": "core::convert::From::from", "name": "from", "local": False, "trait": "core::convert::From", "substs": [targs[1] if len(targs) > 1 else {}, {}]},
                        "args": [{"mv": e_}], "atys": [], "dest": e2, "target": fin, "ln": t.get("ln"), "fln": t.get("ln"), "x": em.tag, "lowered_call": t["call"]}
            return em.new_blocks
        if st.get("adt") == OPT:
            blk["s"].append(em.stmt(t["dest"], {"agg": "adt", "adt": OPT, "variant": "None", "vi": 0, "args": st.get("args", []), "ops": []}))
            blk["t"] = {"goto": t["target"], "ln": t.get("ln"), "x": em.tag, "lowered_call": t["call"]}
            return [bi]
        return []
    co = combinator_of(t)
    if co is None:
        return []
    kind, row = co
    if len(t["args"]) < 1 + max([0] + [e_[1] for e in row.values() for e_ in _walk(e) if e_[0] in ("arg", "callf", "ifp", "zip")]):
        return []
    em = _Emit(d, t, crate)
    dest, cont = t["dest"], t["target"]
    recv_ty = (t.get("atys") or [None])[0]
    recv = em.local(recv_ty)
    blk["s"].append(em.stmt(recv, {"use": t["args"][0]}))
    if kind == "bool":
        true_b = em.emit(row[1], dest, cont, None, recv)
        false_b = em.emit(row[0], dest, cont, None, recv)
        blk["t"] = {"switch": {"cp": recv}, "sty": {"prim": "bool"}, "targets": [[0, false_b]], "otherwise": true_b, "ln": t.get("ln"), "x": em.tag, "lowered_call": t["call"]}
        return em.new_blocks
    targs = (t["call"].get("self_ty") or {}).get("args", [])
    entries = {}
    for vi, expr in row.items():
        pty = None
        if kind == OPT and vi == 1 and targs:
            pty = targs[0]
        elif kind == RES and vi < len(targs):
            pty = targs[vi]
        payload = None
        pre = []
        if kind == RES or vi == 1:
            payload = em.local(pty)
            pre = [em.stmt(payload, {"use": {"mv": {"l": recv, "p": [{"dc": vi, "n": VARIANT_NAMES[kind][vi]}, {"f": 0, "n": "0"}]}}})]
        inner = em.emit(expr, dest, cont, payload, recv)
        entries[vi] = em.block(pre, {"goto": inner, "ln": t.get("ln")}) if pre else inner
    dl = em.local({"prim": "isize"})
    blk["s"].append(em.stmt(dl, {"discr": recv}))
    unreachable = em.block([], {"unreachable": None, "ln": t.get("ln")})
    blk["t"] = {"switch": {"mv": dl}, "sty": {"prim": "isize"}, "targets": [[0, entries[0]], [1, entries[1]]], "otherwise": unreachable, "ln": t.get("ln"), "x": em.tag,
                "lowered_call": t["call"]}
    return em.new_blocks


def _walk(e):
    if isinstance(e, tuple):
        yield e
        for x in e:
            if isinstance(x, tuple):
                yield from _walk(x)
            elif isinstance(x, list):
                for y in x:
                    yield from _walk(y)
