"""C18 — clients return a value only from a complete, correctly typed response."""
import json, os
from ..facts import ty_adt, tystr, walk_ty, place_local, place_proj, op_place
from ..cfg import CFG, Tracer
from .. import inline, dt, instance, core
from . import c06, c01

JSON_CT = "conjure_http::private::APPLICATION_JSON"
OCTET_CT = "conjure_http::private::APPLICATION_OCTET_STREAM"
CLIENT_FROM_SLICE = "conjure_serde::json::de::client::client_from_slice"
PRIV = "conjure_http::private::client::"
NO_CONTENT = {  # helper -> (has 204 shortcut, what it returns then) — specification table (spec/no_content.json)
    "decode_empty_response": "unit", "decode_default_serializable_response": "default", "decode_optional_binary_response": "none",
    "decode_serializable_response": None, "decode_binary_response": None,
}
DECODE_FOR_CLASS = {"unit": "decode_empty_response", "value": "decode_serializable_response", "optional": "decode_default_serializable_response",
                    "iterable": "decode_default_serializable_response", "binary": "decode_binary_response", "optional_binary": "decode_optional_binary_response"}
ACCEPT_FOR_CLASS = {"unit": "encode_empty_response_headers", "value": "encode_serializable_response_headers", "optional": "encode_serializable_response_headers",
                    "iterable": "encode_serializable_response_headers", "binary": "encode_binary_response_headers", "optional_binary": "encode_binary_response_headers"}

EXPLANATION = (
    "Decides (R18.1) that in every client-side decoder that reads a body or hands out the body stream, taking the body "
    "(Response::into_body) is dominated by the equal edge of the comparison of the response Content-Type with the same constant "
    "the paired request helper puts into Accept, and no Ok return exists off that edge; (R18.2) the Ok value is the result of "
    "conjure_serde::json::client_from_slice (end-validating, C01 R1.6; lenient on unknown fields, C05) applied to the result of "
    "read_body(.., None) on that body; (R18.3) the 204 shortcut exists exactly in the empty / default-serializable / "
    "optional-binary decoders with the specified values, and the empty decoder otherwise validates the body as IgnoredAny "
    "through the same gate; (R18.4) blocking/async twins perform the same call sequence; (R18.5) unlimited reassembly: every "
    "chunk obtained is appended or is the sole chunk returned, stream errors only through `?`; (R18.6) panic inventory; (R18.7) "
    "every generated client method of the instance (28 endpoints x 2 flavours x 2 configs) asks for and decodes the class its "
    "IR return type prescribes, propagates send's error with `?` and returns the helper's result unchanged; (R18.8 = C01 R1.5, client rows) "
    "the client readers deliver a string in a double position as a double only for the three Conjure spellings. NOT decided: "
    "serde_json's parsing.")


def all_item_consts(body):
    out = []
    for blk in body.blocks + [x for p in body.d.get("promoted", []) for x in p["blocks"]]:
        for s in blk["s"]:
            if "d" in s:
                for k in ("use", "cast"):
                    v = s["r"].get(k)
                    if isinstance(v, dict) and v.get("c") and "item" in v["c"]:
                        out.append(v["c"]["item"])
        if "call" in blk["t"]:
            for a in blk["t"]["args"]:
                if a.get("c") and "item" in a["c"]:
                    out.append(a["c"]["item"])
    return out


def gate_of(body, cfg, block):
    """(content-type constants compared, ok) for the Content-Type comparison whose 'equal' edge dominates `block`"""
    for sbb, allowed, allv in dt.edge_conditions(cfg, block):
        atom = dt.switch_atom(body, sbb)
        if atom[0] != "call":
            continue
        t = atom[1]
        if t["call"]["def"] not in ("core::cmp::PartialEq::ne", "core::cmp::PartialEq::eq"):
            continue
        if not any("HeaderValue" in tystr(s) for s in t["call"]["substs"]):
            continue
        pol = dt.bool_polarity(allowed)
        equal = (pol is False) if t["call"]["name"] == "ne" else (pol is True)
        tr = Tracer(body, through_agg=True)
        consts = set()
        from_get = False
        for a in t["args"]:
            for s in tr.sources(a):
                base = s
                while base[0] == "field":
                    base = base[1]
                if base[0] == "const":
                    from ..cfg import thaw
                    c = thaw(base[1])
                    if "item" in c:
                        consts.add(c["item"])
                if base[0] == "call":
                    ct = body.blocks[base[1]]["t"]
                    if ct["call"]["name"] == "get" and "HeaderMap" in ct["call"]["def"]:
                        k = dt.resolve_const(body, ct["args"][1])
                        if k and k.get("item") == "http::header::name::CONTENT_TYPE":
                            from_get = True
        return consts, equal and from_get
    return set(), False


KIND_OF = {"decode_empty_response": "unit", "decode_default_serializable_response": "default", "decode_serializable_response": "value",
           "decode_optional_binary_response": "optional-binary", "decode_binary_response": "binary"}
JSON_TEXT, OCTET_TEXT = "application/json", "application/octet-stream"
ANY_JSON_TYPES = ("serde_core::de::ignored_any::IgnoredAny", "serde::de::ignored_any::IgnoredAny", "serde_json::value::Value")
VIEW_CALLS = ("deref", "as_ref", "borrow", "as_slice", "as_bytes", "deref_mut", "as_mut")


def _view_of(v, sym):
    """v is `sym` seen through reference-like views only (Deref / AsRef / whole-range index)"""
    while isinstance(v, tuple) and v and v[0] == "call" and v[1].split("::")[-1] in VIEW_CALLS + ("index",) and v[2]:
        if v[1].split("::")[-1] == "index" and not (len(v[2]) == 2 and minterp_is_rangefull(v[2][1])):
            return False
        v = v[2][0]
    return v == ("sym", sym)


def minterp_is_rangefull(v):
    from .. import minterp
    return (minterp.is_adt(v) and v[1] == "core::ops::range::RangeFull") or v == ("tuple", [])


STATUS_NUM = {"CONTINUE": 100, "OK": 200, "CREATED": 201, "ACCEPTED": 202, "NON_AUTHORITATIVE_INFORMATION": 203, "NO_CONTENT": 204, "RESET_CONTENT": 205, "PARTIAL_CONTENT": 206,
              "MULTIPLE_CHOICES": 300, "MOVED_PERMANENTLY": 301, "FOUND": 302, "SEE_OTHER": 303, "NOT_MODIFIED": 304, "TEMPORARY_REDIRECT": 307, "PERMANENT_REDIRECT": 308,
              "BAD_REQUEST": 400, "NOT_FOUND": 404, "INTERNAL_SERVER_ERROR": 500}


def decoder_table(F, c, fn_body, resp_index, statuses=("NO_CONTENT", "OK")):
    """Decision table of a client response decoder by constant propagation (minterp): one run per
    (status is 204?, Content-Type absent / json / octet-stream / other, body stream ok / fails, JSON parse ok / fails).
    Private helpers, closures, combinators and `.await` are interpreted; the body reader and the JSON entry point are atoms
    whose results the row fixes.  -> {row: (outcome, payload, trace)} or (None, reason) when some row leaves the fragment."""
    from .. import minterp
    OPT, RES = "core::option::Option", "core::result::Result"
    rows = {}
    for status in statuses:
        is204 = status == "NO_CONTENT"
        for ct in (None, JSON_TEXT, OCTET_TEXT, "text/plain"):
            for read_ok in (True, False):
                for parse_ok in (True, False):
                    trace = []

                    def oracle(f, argv, status=status, ct=ct, read_ok=read_ok, parse_ok=parse_ok, trace=trace):
                        n, dd = f.get("name"), f.get("def", "")
                        if n == "status" and "http::response" in dd:
                            return ("item", "http::status::StatusCode::" + status)
                        if n == "as_u16" and "StatusCode" in dd and argv and isinstance(argv[0], tuple) and argv[0][0] == "item" and argv[0][1].split("::")[-1] in STATUS_NUM:
                            return STATUS_NUM[argv[0][1].split("::")[-1]]
                        if n in ("is_success", "is_redirection", "is_client_error", "is_server_error", "is_informational") and "StatusCode" in dd and argv and isinstance(argv[0], tuple) and argv[0][0] == "item" \
                                and argv[0][1].split("::")[-1] in STATUS_NUM:
                            return STATUS_NUM[argv[0][1].split("::")[-1]] // 100 == {"is_informational": 1, "is_success": 2, "is_redirection": 3, "is_client_error": 4, "is_server_error": 5}[n]
                        if n in ("from_static", "from_str", "from_bytes") and "HeaderValue" in dd and argv and isinstance(argv[0], str):
                            return ("hv", argv[0]) if n == "from_static" else minterp.adt(RES, 0, [("hv", argv[0])])
                        if n == "get" and "HeaderMap" in dd and len(argv) == 2:
                            if argv[1] == ("item", "http::header::name::CONTENT_TYPE"):
                                return minterp.adt(OPT, 0, []) if ct is None else minterp.adt(OPT, 1, [("hv", ct)])
                            return minterp.adt(OPT, 0, [])
                        if n in ("read_body", "async_read_body") and dd.startswith("conjure_http::private::"):
                            trace.append(("read_body", list(argv)))
                            return minterp.adt(RES, 0, [("sym", "bytes")]) if read_ok else minterp.adt(RES, 1, [("sym", "stream-error")])
                        if dd == CLIENT_FROM_SLICE:
                            trace.append(("client_from_slice", list(argv), tystr(f["substs"][-1]) if f.get("substs") else None))
                            return minterp.adt(RES, 0, [("sym", "value")]) if parse_ok else minterp.adt(RES, 1, [("sym", "parse-error")])
                        if n == "into_body" and "http::response" in dd:
                            trace.append(("into_body", list(argv)))
                            return ("sym", "body")
                        if n == "into_parts" and "http::response" in dd:
                            trace.append(("into_body", list(argv)))
                            return ("tuple", [("sym", "parts"), ("sym", "body")])
                        return minterp.NO_VALUE
                    I = minterp.Interp(F, c, inline=lambda d_, rid: c.body(rid) is not None and c.body(rid).name not in ("read_body", "async_read_body"), max_depth=4)
                    I.call_oracle = oracle
                    args = [("sym", f"a{k}") for k in range(fn_body.argc)]
                    args[resp_index] = ("sym", "response")
                    try:
                        r = I.run(fn_body, args)
                        if isinstance(r, tuple) and r and r[0] == "closure" and c.body(r[1]) is not None and c.body(r[1]).kind == "coroutine":
                            r = I.run(c.body(r[1]), [r, ("sym", "cx")], depth=1)
                    except minterp.Unsupported as e:
                        return None, f"status {status}, Content-Type {ct}: {e}"
                    if not (minterp.is_adt(r) and r[1] == RES):
                        return None, f"result {r!r}"[:200]
                    rows[(status, ct, read_ok, parse_ok)] = ("Err", None, trace) if r[2] == 1 else ("Ok", r[3][0], trace)
    return rows, None


def _payload_name(v):
    from .. import minterp
    OPT = "core::option::Option"
    if v == ("tuple", []):
        return "unit"
    if v == ("sym", "value"):
        return "value"
    if v == ("sym", "body"):
        return "body"
    if isinstance(v, tuple) and v and v[0] == "call" and v[1] == "core::default::Default::default":
        return "default"
    if minterp.is_adt(v) and v[1] == OPT:
        return "none" if v[2] == 0 else f"some({_payload_name(v[3][0])})"
    return f"{v!r}"[:80]


def expected_row(kind, is204, ct, read_ok, parse_ok):
    """the specification (spec/no_content.json + the property statement)"""
    piped = ct == JSON_TEXT and read_ok and parse_ok
    if kind == "unit":
        return ("Ok", "unit") if is204 or piped else ("Err", None)
    if kind == "default":
        return ("Ok", "default") if is204 else (("Ok", "value") if piped else ("Err", None))
    if kind == "value":
        return ("Ok", "value") if piped else ("Err", None)
    if kind == "optional-binary":
        return ("Ok", "none") if is204 else (("Ok", "some(body)") if ct == OCTET_TEXT else ("Err", None))
    return ("Ok", "body") if ct == OCTET_TEXT else ("Err", None)


def check_decoder_table(ctx, name, kind, body, rows, ok_ty):
    """compare a decoder's table with the specification; -> its normalised table (for the twin comparison)"""
    bad = {"R18.1": [], "R18.2": [], "R18.3": []}
    norm = {}
    for (status, ct, read_ok, parse_ok), (out, val, trace) in sorted(rows.items(), key=repr):
        is204 = status == "NO_CONTENT"
        exp = expected_row(kind, is204, ct, read_ok, parse_ok)
        got = (out, _payload_name(val) if out == "Ok" else None)
        norm[(status, ct, read_ok, parse_ok)] = got
        row = f"status {STATUS_NUM.get(status, status)}, Content-Type {ct or 'absent'}, body stream {'ok' if read_ok else 'fails'}, JSON {'well-formed' if parse_ok else 'malformed'}"
        rule = "R18.3" if (is204 or (got != exp and got == expected_row(kind, True, ct, read_ok, parse_ok))) and kind in ("unit", "default", "optional-binary") else ("R18.1" if ct != (OCTET_TEXT if "binary" in kind else JSON_TEXT) else "R18.2")
        if got != exp:
            bad[rule].append(f"{row}: returns {got[0]}{'(' + got[1] + ')' if got[1] else ''}, specification {exp[0]}{'(' + exp[1] + ')' if exp[1] else ''}")
            continue
        if out == "Ok" and exp[1] in ("unit", "value") and not is204 and "binary" not in kind:
            # the value is the JSON entry point's verdict on the complete body of this response
            tb = [t for t in trace if t[0] == "into_body"]
            tr_ = [t for t in trace if t[0] == "read_body"]
            tp = [t for t in trace if t[0] == "client_from_slice"]
            pipe = len(tb) == 1 and len(tr_) == 1 and len(tp) == 1 and tb[0][1] and tb[0][1][0] == ("sym", "response") \
                and len(tr_[0][1]) == 2 and tr_[0][1][0] == ("sym", "body") and _payload_name(tr_[0][1][1]) == "none" and tp[0][1] and _view_of(tp[0][1][0], "bytes")
            if not pipe:
                bad["R18.2"].append(f"{row}: the value must be json::client_from_slice(read_body(response.into_body(), None)) — one unlimited read of this response's body, one end-validating decode of all of it; trace: {[(t[0], [_payload_name(a) for a in t[1]]) for t in trace]}")
            elif kind == "unit" and tp[0][2] not in ANY_JSON_TYPES:
                bad["R18.3"].append(f"{row}: a body of an endpoint without return value is validated as `{tp[0][2]}`; any well-formed JSON must be tolerated (IgnoredAny)")
            elif kind != "unit" and ok_ty is not None and tp[0][2] is not None and tp[0][2] != ok_ty:
                bad["R18.2"].append(f"{row}: the body is decoded as `{tp[0][2]}`, the return type is `{ok_ty}`")
        if out == "Ok" and "binary" in kind and not is204:
            tb = [t for t in trace if t[0] == "into_body"]
            if not (len(tb) == 1 and tb[0][1] and tb[0][1][0] == ("sym", "response")):
                bad["R18.2"].append(f"{row}: the returned stream must be this response's body")
    what = {"R18.1": ("table|content-type", "Content-Type gate"), "R18.2": ("table|pipeline", "value = client_from_slice(read_body(into_body, None)); stream / parse failures are errors"), "R18.3": ("table|204", "204 rows")}
    for rule, (key, label) in what.items():
        if rule == "R18.3" and kind in ("value", "binary"):
            rule_rows = [k for k in rows if k[0] != "OK"]
            # a decoder of a required value has no 204 shortcut: its 204 rows equal its 200 rows (decided under R18.1 / R18.2)
            ctx.check(all(norm[k] == norm[("OK",) + k[1:]] for k in rule_rows), "R18.3", body.loc(), f"{name}|no-204", f"{name} must not special-case 204 No Content (a value is required)", instance=f"{name}: no 204 shortcut")
            continue
        ctx.check(not bad[rule], rule, body.loc(), f"{name}|{key}", f"{name} ({kind}): " + "; ".join(bad[rule][:3]), instance=f"{name} ({kind}): {label} = specification ({len(rows)} rows)")
    return norm


def decoder_bodies(c):
    """name -> (outer body, real body, flavor)"""
    out = {}
    for b in c.bodies:
        # the helpers the generated clients call (spec/no_content.json); a further public entry point (`.._with_limit`) that one of
        # them forwards to is read through that helper, with the arguments the helper passes
        if b.kind == "fn" and b.id.startswith(PRIV) and (b.name in KIND_OF or (b.name.startswith("async_") and b.name[len("async_"):] in KIND_OF)):
            # private predicates / helpers (e.g. a shared Content-Type test) are looked through; the body reader and the other
            # decoders are semantic atoms of these rules
            rb = inline.expand(c, c06.real_body(c, b), depth=2, pred=lambda cb: (cb.d.get("vis") != "pub" and "decode_" not in cb.name and cb.name not in ("read_body", "async_read_body"))
                               or (cb.id.startswith(PRIV) and "decode_" in cb.name and cb.name not in KIND_OF and not (cb.name.startswith("async_") and cb.name[len("async_"):] in KIND_OF)), lower=True)
            out[b.name] = (b, rb)
    return out


def run(ctx):
    ctx.explanation = EXPLANATION
    ctx.assumptions = ["conjure_serde::json::client_from_slice validates end of input and tolerates unknown fields (decided by C01/C05)"]
    F = ctx.F
    c = F.crate("conjure_http")
    ctx.units["conjure_http bodies"] = len(c.bodies)
    decs = decoder_bodies(c)
    ctx.floor("R18.1", "client decode helpers", len(decs), 8)
    # macro-client response deserializers
    macro = []
    for b in c.bodies:
        if b.trait in ("conjure_http::client::DeserializeResponse", "conjure_http::client::AsyncDeserializeResponse") and b.name == "deserialize" \
                and ty_adt(b.self_ty) == "conjure_http::client::ConjureResponseDeserializer":
            macro.append((b, c06.real_body(c, b)))
    ctx.floor("R18.1", "ConjureResponseDeserializer impls", len(macro), 2)
    readers = {}
    body_takers = []
    # decision tables (authoritative where every row stays inside the interpretable fragment; the structural rules below are the
    # fallback for a decoder that does not)
    tables = {}
    for name, (ob, rb) in list(decs.items()) + [(f"ConjureResponseDeserializer::{'async_' if x[1].kind == 'coroutine' else ''}deserialize", x) for x in macro]:
        kind = KIND_OF.get(name[len("async_"):] if name.startswith("async_") else name, "value" if name.startswith("ConjureResponseDeserializer") else None)
        if kind is None:
            continue
        ridx = [k for k in range(1, ob.argc + 1) if ty_adt(ob.local_ty(k)) == "http::response::Response"]
        if len(ridx) != 1:
            continue
        # statuses: 204, 200 and every other status constant the decoder (or a helper of it) mentions
        sts = ["NO_CONTENT", "OK"]
        for it in all_item_consts(rb):
            if it.startswith("http::status::StatusCode::") and it.split("::")[-1] not in sts:
                sts.append(it.split("::")[-1])
        rows, why = decoder_table(F, c, ob, ridx[0] - 1, tuple(sts))
        if rows is None:
            ctx.note(f"{name}: decision table not available ({why}); decided by the structural rules")
            continue
        rt = ob.local_ty(0) if ob.kind != "coroutine" else None
        ok_ty = None
        try:
            fn_ret = ob.d.get("ret") or rt
            if fn_ret and ty_adt(fn_ret) == "core::result::Result":
                ok_ty = tystr(fn_ret["args"][0])
        except Exception:
            ok_ty = None
        tables[name] = check_decoder_table(ctx, name, kind, rb, rows, ok_ty)
    for name, (ob, rb) in list(decs.items()) + [(f"ConjureResponseDeserializer::{'async_' if x[1].kind == 'coroutine' else ''}deserialize", x) for x in macro]:
        into = [(bb, t) for bb, t in rb.calls() if t["call"]["name"] == "into_body" and "http::response" in t["call"]["def"]]
        if name in tables:
            if into:
                body_takers.append(name)
            continue
        if not into:
            continue
        body_takers.append(name)
        cfg = CFG(rb)
        binary = "binary" in name
        exp = OCTET_CT if binary else JSON_CT
        for bb, t in into:
            consts, ok = gate_of(rb, cfg, bb)
            ctx.check(ok and consts == {exp}, "R18.1", rb.loc(t["ln"]), f"{name}|gate",
                      f"{name}: the response body is taken without being dominated by Content-Type == {exp.split('::')[-1]} (compared constants: {sorted(consts)}, gate recognised: {ok})",
                      instance=f"{name}: into_body dominated by Content-Type == {exp.split('::')[-1]}")
        for okbb, _, s in dt.ok_return_blocks(rb):
            consts, ok = gate_of(rb, cfg, okbb)
            ctx.check(ok, "R18.1", rb.loc(s["ln"]), f"{name}|ok-behind-gate", f"{name}: an Ok return is reachable on the Content-Type mismatch edge", instance=f"{name}: Ok only behind the gate")
        if binary:
            continue
        # R18.2 provenance
        rd = [(bb, t) for bb, t in rb.calls() if t["call"]["name"] in ("read_body", "async_read_body")]
        cs = [(bb, t) for bb, t in rb.calls() if t["call"]["def"] == CLIENT_FROM_SLICE]
        good = len(rd) == 1 and len(cs) == 1
        if good:
            vt = dt.value_tracer(rb)
            lim = dt.resolve_copy(rb, rd[0][1]["args"][1])
            none_limit = lim[0] == "def" and lim[1][1] != "T" and lim[1][2]["r"].get("variant") == "None"
            good = dt.derives_from_call(rb, rd[0][1]["args"][0], into[0][0], vt) and dt.derives_from_call(rb, cs[0][1]["args"][0], rd[0][0], vt) and none_limit
            # the function's result derives from client_from_slice
            rets = [s["r"]["ops"][0] for _, _, s in dt.ok_return_blocks(rb)]
            direct = [t for bb, t in rb.calls() if place_local(t["dest"]) == 0 and not place_proj(t["dest"]) and "from_residual" not in t["call"]["def"]]
            val_ok = all(dt.derives_from_call(rb, o, cs[0][0], vt) for o in rets) and all(dt.derives_from_call(rb, t["args"][0], cs[0][0], vt) for t in direct) and (rets or direct)
            good = good and bool(val_ok)
        ctx.check(good, "R18.2", rb.loc(), f"{name}|provenance",
                  f"{name}: the returned value must be json::client_from_slice(read_body(response.into_body(), None)) — exactly one body read, one end-validating decode, no other source of the value",
                  instance=f"{name}: Ok(client_from_slice(read_body(body, None)))")
    ctx.floor("R18.1", "decoders that take the response body", len(body_takers), 3)
    # R18.3 204 table
    for base, kind in NO_CONTENT.items():
        for name in (base, "async_" + base):
            if name not in decs:
                if not (base in ("decode_binary_response", "decode_optional_binary_response") and name.startswith("async_")):
                    ctx.violation("R18.3", "conjure_http", f"{name}|missing", f"client helper {name} not found")
                continue
            if name in tables:
                continue
            ob, rb = decs[name]
            cfg = CFG(rb)
            shortcuts = []
            for bb, t in rb.calls():
                if t["call"]["def"] in ("core::cmp::PartialEq::eq", "core::cmp::PartialEq::ne") and any("StatusCode" in tystr(s) for s in t["call"]["substs"]):
                    k = [dt.resolve_const(rb, a) for a in t["args"]]
                    if any(x and x.get("item") == "http::status::StatusCode::NO_CONTENT" for x in k):
                        shortcuts.append((bb, t))
            # delegation: a 204-aware helper may hand the response to another 204-aware helper (void = a defaultable IgnoredAny
            # that is discarded); the 204 behaviour is then the callee's, decided at the callee
            aware = {n_: k_ for b_, k_ in NO_CONTENT.items() if k_ is not None for n_ in (b_, "async_" + b_)}
            deleg = [t for bb, t in rb.calls() if t["call"].get("local") and t["call"]["name"] in aware and t["call"]["name"] != name]
            if kind is not None and not shortcuts and len(deleg) == 1 and name.startswith("async_") == deleg[0]["call"]["name"].startswith("async_"):
                ck = aware[deleg[0]["call"]["name"]]
                targ = tystr(deleg[0]["call"]["substs"][0]) if deleg[0]["call"].get("substs") else ""
                if kind == "unit":
                    good = ck in ("unit", "default") and tystr(rb.local_ty(0) if rb.kind != "coroutine" else ob.local_ty(0)) != "" and (ck == "unit" or targ == "serde_core::de::ignored_any::IgnoredAny")
                else:
                    good = ck == kind
                ctx.check(good, "R18.3", rb.loc(), f"{name}|204", f"{name}: delegates to {deleg[0]['call']['name']}::<{targ}> whose 204 result is {ck}; required: {kind}" + (" with the body of other responses validated as IgnoredAny" if kind == "unit" else ""),
                          instance=f"{name}: 204 handled by {deleg[0]['call']['name']}::<{targ.split('::')[-1]}> ({ck})")
                continue
            if kind is None:
                ctx.check(not shortcuts, "R18.3", rb.loc(), f"{name}|no-204", f"{name} must not special-case 204 No Content (a value is required)", instance=f"{name}: no 204 shortcut")
                continue
            good = len(shortcuts) == 1
            val = None
            if good:
                # the Ok return on the status == NO_CONTENT edge
                for okbb, _, s in dt.ok_return_blocks(rb):
                    for sbb, allowed, allv in dt.edge_conditions(cfg, okbb):
                        atom = dt.switch_atom(rb, sbb)
                        if atom[0] == "call" and atom[2] == shortcuts[0][0] and dt.bool_polarity(allowed) is (atom[1]["call"]["name"] == "eq"):
                            op = s["r"]["ops"][0]
                            r = dt.resolve_copy(rb, op)
                            if r[0] == "def" and r[1][1] == "T" and r[1][2]["call"]["def"] == "core::default::Default::default":
                                val = "default"
                            elif r[0] == "def" and r[1][1] != "T" and r[1][2]["r"].get("variant") == "None":
                                val = "none"
                            elif (r[0] == "def" and r[1][1] != "T" and r[1][2]["r"].get("agg") == "tuple" and not r[1][2]["r"]["ops"]) or (r[0] == "const" and r[1].get("zst")):
                                val = "unit"
                            elif kind == "unit" and tystr(rb.local_ty(0)).startswith("core::result::Result<(), "):
                                val = "unit"      # by typing: the Ok payload of this function is `()` whatever expression builds it
                good = val == kind
            ctx.check(good, "R18.3", rb.loc(), f"{name}|204", f"{name}: a 204 response must yield {kind} (found {len(shortcuts)} status tests, value {val})", instance=f"{name}: 204 -> {kind}")
            if base == "decode_empty_response":
                inner = [t for bb, t in rb.calls() if t["call"]["name"] in ("decode_serializable_response", "async_decode_serializable_response")]
                good = len(inner) == 1 and tystr(inner[0]["call"]["substs"][0]) == "serde_core::de::ignored_any::IgnoredAny"
                ctx.check(good, "R18.3", rb.loc(), f"{name}|ignored-any", f"{name}: any other response must be validated as a JSON body (IgnoredAny) through the serializable decoder", instance=f"{name}: else decode::<IgnoredAny>")
    # R18.4 twins
    pairs = [(n, "async_" + n) for n in NO_CONTENT if "async_" + n in decs] + [("read_body", "async_read_body")]
    for a, b_ in pairs:
        if a == "read_body":
            ba = [x for x in c.bodies if x.kind == "fn" and x.name == "read_body" and x.id.startswith("conjure_http::private::")]
            bb_ = [x for x in c.bodies if x.kind == "fn" and x.name == "async_read_body" and x.id.startswith("conjure_http::private::")]
            if not ba or not bb_:
                continue
            ra, rb2 = c06.expand_reader(c, ba[0]), c06.expand_reader(c, c06.real_body(c, bb_[0]))
            readers = {"read_body": ra, "async_read_body": rb2}
        else:
            ra, rb2 = decs[a][1], decs[b_][1]
            if a in tables and b_ in tables:
                diff = [k for k in tables[a] if tables[a][k] != tables[b_].get(k)]
                ctx.check(not diff, "R18.4", ra.loc(), f"twins|{a}", f"{a} and {b_} decide differently: " + "; ".join(f"status {STATUS_NUM.get(k[0], k[0])}, Content-Type {k[1]}, stream {'ok' if k[2] else 'fails'}, JSON {'ok' if k[3] else 'malformed'}: {tables[a][k]} vs {tables[b_].get(k)}" for k in diff[:3]),
                          instance=f"{a} == {b_} ({len(tables[a])} table rows)")
                continue
        sa = {twin_norm(t) for bb, t in ra.calls() if c06.interesting(t)}
        sb = {twin_norm(t) for bb, t in rb2.calls() if c06.interesting(t)}
        ctx.check(sa == sb, "R18.4", ra.loc(), f"twins|{a}", f"{a} and {b_} use different operations: only blocking {sorted(sa - sb)}, only async {sorted(sb - sa)}", instance=f"{a} == {b_} ({len(sa)} operations)")
    mnames = [f"ConjureResponseDeserializer::{'async_' if x[1].kind == 'coroutine' else ''}deserialize" for x in macro]
    if len(macro) == 2 and all(n in tables for n in mnames):
        diff = [k for k in tables[mnames[0]] if tables[mnames[0]][k] != tables[mnames[1]].get(k)]
        ctx.check(not diff, "R18.4", macro[0][1].loc(), "twins|ConjureResponseDeserializer", f"macro response deserializers decide differently on {len(diff)} rows, e.g. {diff[:2]}", instance="ConjureResponseDeserializer twins agree (table rows)")
    elif len(macro) == 2:
        sa, sb = [{twin_norm(t) for bb, t in x[1].calls() if c06.interesting(t)} for x in macro]
        ctx.check(sa == sb, "R18.4", macro[0][1].loc(), "twins|ConjureResponseDeserializer", f"macro response deserializers use different operations: {sorted(sa ^ sb)}", instance="ConjureResponseDeserializer twins agree")
    # R18.5 reassembly
    for name, rb in readers.items():
        if c06.check_reader(ctx, c, rb, limited=True, rule="R18.5"):
            continue        # decided by the small-model table (values compared: nothing dropped, nothing reordered)
        vt = dt.value_tracer(rb)
        items = [(bb, t) for bb, t in rb.calls() if t["call"]["name"] in ("next", "try_next")]
        for ibb, t in items:
            used = False
            for bb2, t2 in rb.calls():
                if t2["call"]["name"] in ("extend_from_slice", "put", "put_slice") and dt.derives_from_call(rb, t2["args"][1], ibb, vt):
                    used = True
            ctx.check(used, "R18.5", rb.loc(t["ln"]), f"{name}|chunk-appended|{t['ln'] - rb.line}", f"{name}: a chunk obtained from the stream is never appended to the buffer (a response would be silently truncated)",
                      instance=f"{name}: chunk from {t['call']['name']}() is appended")
    # R18.6 panic inventory
    for name, (ob, rb) in decs.items():
        for ln, what, x in c06.panic_sites(rb):
            ctx.violation("R18.6", rb.loc(ln), f"{name}|panic|{what}", f"{name}: possible panic site `{what}` on the response path")
    ctx.ok("R18.6", "conjure_http", f"{len(decs)} decode helpers scanned for panic sites", nontrivial=False)
    # R18.7 generated instance
    ct = F.crate("conjure_test")
    ir = instance.IR()
    cms = instance.client_methods(ct)
    ctx.units["generated client methods"] = len(cms)
    ctx.floor("R18.7", "generated client methods", len(cms), 4 * len(ir.endpoints))
    by_key = {}
    for m in cms:
        by_key.setdefault((m.service, m.name), []).append(m)
    for svc, e in ir.endpoints:
        ms = by_key.get((svc, e["endpointName"]), [])
        ctx.check(len(ms) == 4, "R18.7", "conjure_test", f"{svc}.{e['endpointName']}|joined", f"endpoint {svc}.{e['endpointName']}: expected 4 generated client methods (2 flavours x 2 configs), found {len(ms)}", nontrivial=False)
        cls = ir.return_class(e.get("returns"))
        for m in ms:
            b = m.body
            pre = "async_" if m.flavor == "async" else ""
            want = pre + DECODE_FOR_CLASS[cls] if not (m.flavor == "async" and "binary" in DECODE_FOR_CLASS[cls]) else DECODE_FOR_CLASS[cls]
            dec = [(bb, t) for bb, t in b.calls() if t["call"]["def"].startswith(PRIV) and "decode_" in t["call"]["name"]]
            acc = [(bb, t) for bb, t in b.calls() if t["call"]["def"].startswith(PRIV) and t["call"]["name"].endswith("_response_headers")]
            send = [(bb, t) for bb, t in b.calls() if t["call"]["name"] == "send" and (t["call"].get("trait") or "").startswith("conjure_http::client::")]
            key = f"{m.config}/{m.flavor}/{svc}.{e['endpointName']}"
            good = len(dec) == 1 and dec[0][1]["call"]["name"] == want
            ctx.check(good, "R18.7", b.loc(), f"{key}|decoder", f"{key}: IR return class {cls} requires {want}, generated code calls {[t['call']['name'] for _, t in dec]}", instance=f"{key}: {want}")
            ctx.check(len(acc) == 1 and acc[0][1]["call"]["name"] == ACCEPT_FOR_CLASS[cls], "R18.7", b.loc(), f"{key}|accept", f"{key}: Accept helper {[t['call']['name'] for _, t in acc]}, expected {ACCEPT_FOR_CLASS[cls]}",
                      instance=f"{key}: {ACCEPT_FOR_CLASS[cls]}")
            if good and len(send) == 1:
                cfg = CFG(b)
                vt = dt.value_tracer(b)
                ok = dt.dominated_by_success(cfg, F, send[0][0], dec[0][0]) and dt.derives_from_call(b, dec[0][1]["args"][0], send[0][0], vt)
                # the helper's result is returned unchanged
                dest = dec[0][1]["dest"]
                ret_direct = place_local(dest) == 0 or dt.derives_from_call(b, {"cp": 0}, dec[0][0], vt) or returns_value_of(b, dec[0][0])
                ctx.check(ok and ret_direct, "R18.7", b.loc(), f"{key}|flow", f"{key}: the decoder must receive send()'s successful response and its result must be returned unchanged", instance=f"{key}: send()? -> decode -> return")
            else:
                ctx.check(len(send) == 1, "R18.7", b.loc(), f"{key}|send", f"{key}: expected exactly one send() call", nontrivial=False)

    # R18.8: the client readers' own tables — a string in a double position is a double only for the three Conjure spellings
    ctx.include(c01, {"R1.5"}, "R18.8", "a response body holding a string where a double is declared is not a well-formed document of the return type and must be refused",
                select=lambda k: " client " in k)


def returns_value_of(body, call_bb):
    """_0 is assigned (possibly via the await of the call) from the call's value"""
    vt = dt.value_tracer(body)
    for bb, j, s in body.stmts():
        if place_local(s["d"]) == 0 and not place_proj(s["d"]) and "use" in s["r"]:
            if dt.derives_from_call(body, s["r"]["use"], call_bb, vt):
                return True
    return False


TWIN = {"async_read_body": "read_body", "try_next": "next", "async_decode_serializable_response": "decode_serializable_response",
        "internal_safe": "internal", "internal": "internal"}


def twin_norm(t):
    n = t["call"]["name"]
    if t["call"].get("local") and n.startswith("async_"):
        n = n[len("async_"):]      # the async flavour of a local helper is named async_<helper>
    return TWIN.get(n, n)
