"""C08 — an argument is generated safe-to-log exactly when all it can hold is safe."""
from ..facts import ty_adt, tystr, walk_ty, place_local, place_proj, op_place
from ..cfg import CFG, Tracer, thaw
from .. import dt, instance, safety, minterp, tguard

LS = "conjure_codegen::types::log_safety::LogSafety"
TY = "conjure_codegen::types::type_::Type"
PT = "conjure_codegen::types::primitive_type::PrimitiveType"
TD = "conjure_codegen::types::type_definition::TypeDefinition"
OPT = "core::option::Option"
RANKS = {"DoNotLog": 0, "Unsafe": 1, None: 2, "Safe": 3}
SAFE_PARAMS_INSERT = "conjure_http::safe_params::SafeParams::insert"

EXPLANATION = (
    "Decides (R8.1) the precedence in the argument-safety decision by dominance: the legacy marker/tag check is reachable only on "
    "the None edge of the explicit declaration, the type-derived check only after both, the Some edge returns `== Safe`; the "
    "legacy test compares with exactly the tag \"safe\" and the marker com.palantir.logsafe.Safe; (R8.2) the decision tables "
    "extracted from the MIR by path-sensitive constant propagation over the finite input domains: combine_safety (16 rows) is "
    "the meet of DoNotLog < Unsafe < unknown < Safe, primitives map to unknown except bearertoken = DoNotLog, the per-constructor "
    "table (optional/list/set -> item, map -> combine(key, value), external -> unknown, reference -> the named type's cell), "
    "named types: enum = Safe, alias/field/member declared safety overrides the type, objects fold from Safe, unions from unknown; "
    "(R8.3) the memo cell of named-type safety is never written with a provisional constant before a recursive descent whose "
    "results are memoised (the order-dependence defect, fixed upstream of this check), and every store of a computed value sits in "
    "a loop that repeats until no store changed anything; (R8.4) in the generated instance the set of arguments inserted into "
    "SafeParams equals an independent greatest-fixpoint evaluation of the IR; (R8.5) the generator emits `safe` exactly under "
    "that decision. NOT decided: behaviour of a future re-design of the evaluation beyond these clauses.")


def opt(interp, v):
    """Option<LogSafety> value -> 'Safe' | 'Unsafe' | 'DoNotLog' | None"""
    if not minterp.is_adt(v) or v[1] != OPT:
        return "?" + minterp.show(interp, v)
    if v[2] == 0:
        return None
    return interp.variant_name(LS, v[3][0][2]) if minterp.is_adt(v[3][0]) else "?"


def run(ctx):
    ctx.explanation = EXPLANATION
    ctx.assumptions = ["the IR deserializer presents safety / markers / tags as declared (generated types, C02)"]
    F = ctx.F
    c = F.crate("conjure_codegen")
    ctx.units["conjure_codegen bodies"] = len(c.bodies)
    I = minterp.Interp(F, c)
    # ---------------- anchors by role
    # the decision function: a bool function of Context over an &ArgumentDefinition; its three inputs — the declared safety
    # (ArgumentDefinition::safety), the legacy marker test (a bool function of the argument) and the type-derived safety (an
    # Option<LogSafety> function of a Type) — may be consulted directly, in closures of a combinator chain, or through private
    # helpers / a private trait: they are looked for in everything the function reaches inside conjure_codegen::context
    def reach(b0, depth=3):
        seen_, out_, work_ = set(), [], [(b0, 0)]
        while work_:
            x, dd = work_.pop()
            if x.id in seen_:
                continue
            seen_.add(x.id)
            fam_ = [x] + c.closures_of(x)
            for y in fam_:
                for bb_, t_ in y.calls():
                    out_.append((y, bb_, t_))
                    f_ = t_["call"]
                    if f_.get("trait") and not (f_.get("resolved") or {}).get("local"):
                        late = c.resolve_trait_call(f_)
                        if late:
                            f_ = dict(f_, resolved=late)
                    cid = (f_.get("resolved") or {}).get("id") if (f_.get("resolved") or {}).get("local") else (f_.get("id") if f_.get("local") else None)
                    cb_ = c.body(cid) if cid else None
                    if cb_ is not None and dd < depth and cb_.id.startswith("conjure_codegen::context::") and cb_.id != b0.id:
                        work_.append((cb_, dd + 1))
                    # generic helpers instantiated at ArgumentDefinition reach its trait impls
                    if cb_ is None and f_.get("trait", "").startswith("conjure_codegen::") and dd < depth:
                        for i_ in c.impls:
                            if i_.get("trait") == f_["trait"] and "ArgumentDefinition" in tystr(i_.get("self_ty") or {}) and f_["name"] in i_.get("items", {}):
                                ib_ = c.body(i_["items"][f_["name"]])
                                if ib_ is not None:
                                    work_.append((ib_, dd + 1))
        return out_
    dec = []
    for b in c.bodies:
        if b.kind == "assoc_fn" and tystr(b.local_ty(0)) == "bool" and b.id.startswith("conjure_codegen::context::") and any("ArgumentDefinition" in tystr(b.local_ty(k)) for k in range(1, b.argc + 1)):
            if any(t["call"]["name"] == "safety" and "ArgumentDefinition" in t["call"]["def"] for _, _, t in reach(b)):
                dec.append(b)
    # (a helper of the decision function also reaches `safety`: keep the outermost one)
    if len(dec) > 1:
        inner_ids = {t["call"].get("id") for b in dec for _, _, t in reach(b) if t["call"].get("local")}
        dec = [b for b in dec if b.id not in inner_ids] or dec
    if len(dec) != 1:
        ctx.violation("R8.1", "conjure_codegen", "anchor|argument-safety-decision", f"expected one bool function reading ArgumentDefinition::safety, found {len(dec)}")
        return
    d = dec[0]
    cfg = CFG(d)
    local_calls = [(y, bb, t) for y, bb, t in reach(d) if t["call"].get("local") and t["call"]["def"].startswith("conjure_codegen::context::")]
    leg_ids = {t["call"]["id"]: (bb, t) for y, bb, t in local_calls if tystr(y.local_ty(place_local(t["dest"]))) == "bool" and any("ArgumentDefinition" in tystr(a_) for a_ in (t.get("atys") or []))}
    typ_ids = {t["call"]["id"]: (bb, t) for y, bb, t in local_calls if tystr(y.local_ty(place_local(t["dest"]))).startswith(OPT + "<" + LS) and any("type_::Type" in tystr(a_) for a_ in (t.get("atys") or []))}
    legacy, typed = list(leg_ids.values()), list(typ_ids.values())
    ctx.check(len(legacy) == 1 and len(typed) == 1, "R8.1", d.loc(), "decision|shape", f"expected one legacy check and one type-derived check, found {len(legacy)} / {len(typed)}", nontrivial=False)
    if len(legacy) == 1 and len(typed) == 1:
        # decision table of the argument-safety decision by constant propagation: one run per (declared safety, legacy marker,
        # type-derived safety); precedence explicit > legacy > type is read off the table, whatever the control-flow style
        lsv = [v["name"] for v in F.adt(LS)["variants"]]
        OPTP = "core::option::Option"
        declared_dom = [None] + lsv
        typed_dom = [None] + lsv
        legacy_id, typed_id = legacy[0][1]["call"]["id"], typed[0][1]["call"]["id"]
        bad, rows, unsupported = [], 0, None
        for dcl in declared_dom:
            for leg in (False, True):
                for tys in typed_dom:
                    used = set()

                    def oracle(f, argv, dcl=dcl, leg=leg, tys=tys, used=used):
                        if f.get("name") == "safety" and "ArgumentDefinition" in f.get("def", ""):
                            used.add("declared")
                            return minterp.adt(OPTP, 0, []) if dcl is None else minterp.adt(OPTP, 1, [minterp.adt(LS, lsv.index(dcl), [])])
                        if f.get("id") == legacy_id:
                            used.add("legacy")
                            return leg
                        if f.get("id") == typed_id:
                            used.add("typed")
                            return minterp.adt(OPTP, 0, []) if tys is None else minterp.adt(OPTP, 1, [minterp.adt(LS, lsv.index(tys), [])])
                        return minterp.NO_VALUE
                    I2 = minterp.Interp(F, c, inline=lambda d_, rid: rid not in (legacy_id, typed_id) and rid != d.id, max_depth=2)
                    I2.call_oracle = oracle
                    try:
                        r = I2.run(d, [("sym", "self"), ("sym", "arg")])
                    except minterp.Unsupported as e:
                        unsupported = str(e)
                        continue
                    rows += 1
                    exp = (dcl == "Safe") if dcl is not None else (leg or tys == "Safe")
                    if r is not exp:
                        bad.append(f"declared={dcl}, legacy marker={leg}, type-derived={tys}: returns {r}, specification {exp}")
                    # precedence also means the later sources are not consulted needlessly in a way that changes the result: covered by the table
        if unsupported and not rows:
            ctx.violation("R8.1", d.loc(), "decision|unsupported", f"the argument-safety decision left the analysable fragment: {unsupported}")
        else:
            ctx.check(not bad and rows == len(declared_dom) * 2 * len(typed_dom), "R8.1", d.loc(), "decision|table",
                      "argument-safety decision differs from `explicit declaration wins (== Safe); otherwise legacy marker or type-derived == Safe`: " + "; ".join(bad[:4]) + (f" ({unsupported})" if unsupported else ""),
                      instance=f"decision table over declared x legacy x type-derived: {rows} rows = specification (explicit > legacy > type)")
        # legacy constants
        lb = c.body(legacy[0][1]["call"]["id"])
        consts = set()

        def collect(b, depth=0):
            for x in [b] + c.closures_of(b):
                for bb, t in x.calls():
                    for a in t["args"]:
                        cst = dt.resolve_const(x, a)
                        if cst and "str" in cst:
                            consts.add(cst["str"])
                    targets = [t["call"]] + [(a.get("c") or {}).get("fn") for a in t["args"]]
                    for f_ in targets:
                        # direct local calls and local functions passed as values (`.any(Self::is_marker)`)
                        if f_ and f_.get("local") and f_.get("def", "").startswith("conjure_codegen::context::") and depth < 3:
                            cb = c.body(f_.get("id"))
                            if cb is not None and cb.id != b.id:
                                collect(cb, depth + 1)
        if lb is not None:
            collect(lb)
        ctx.check(consts == {"safe", "com.palantir.logsafe", "Safe"}, "R8.1", lb.loc() if lb else d.loc(), "legacy|constants",
                  f"the legacy test compares with {sorted(consts)}; specification: tag \"safe\" and marker com.palantir.logsafe.Safe only", instance="legacy constants {safe, com.palantir.logsafe, Safe}")
        # ---------------- R8.2 tables
        tb = c.body(typed[0][1]["call"]["id"])
        check_tables(ctx, F, c, I, tb)
    # ---------------- R8.4 instance
    ct = F.crate("conjure_test")
    ir = instance.IR()
    sf = safety.Safety(ir)
    hs = instance.handlers(ct)
    by_key = {}
    for h in hs:
        by_key.setdefault((h.service, h.name), []).append(h)
    nargs = 0
    for svc, e in ir.endpoints:
        want = {a["argName"] for a in e["args"] if sf.is_safe_arg(a)}
        nargs += len(e["args"])
        for h in by_key.get((svc, e["endpointName"]), []):
            got = {instance.const_str_arg(h.body, t["args"][1]) for bb, t in h.body.calls() if t["call"]["def"] == SAFE_PARAMS_INSERT}
            key = f"{h.config}/{h.flavor}/{svc}.{e['endpointName']}"
            ctx.check(got == want, "R8.4", h.body.loc(), f"{key}|safe-set", f"{key}: generated as safe: {sorted(got)}; reference evaluation of the IR: {sorted(want)}", instance=f"{key}: safe = {sorted(want)}")
    ctx.floor("R8.4", "IR arguments evaluated", nargs, 27)
    # ---------------- R8.5 generator emits `safe` exactly under the decision
    tm = F.tmpl()
    if tm is not None:
        found = 0
        for fn in tm["functions"]:
            if not fn["file"].endswith("conjure-codegen/src/servers.rs"):
                continue
            for q in fn["quotes"]:
                txt = q["text"].replace(" ", "")
                if txt in (",safe", "safe"):
                    found += 1
                    v = tguard.positive_guard(q["conds"], d.name)
                    if v is None:
                        ctx.note(f"R8.5 {fn['name']}: the `safe` attribute's conditions {q['conds']} do not mention {d.name}; no generator-level verdict (instance: R8.4)")
                    else:
                        ctx.check(v, "R8.5", f"{fn['file'].split('/repo/')[-1]}:{q['line']}", f"{fn['name']}|safe-under-decision", f"generator: the `safe` attribute in {fn['name']} is emitted under {q['conds']}, not exactly under the argument-safety decision ({d.name})",
                                  instance=f"{fn['name']}: `safe` emitted iff {d.name}(arg)")
        ctx.floor("R8.5", "`safe` attribute templates in the server generator", found, 1)

    # ---------------- R8.6 an error's parameters enter the log-safety computation with their declared safety
    # Context registers every error as an object type (so that arguments referring to it get a log safety); that object must
    # carry the parameters' FieldDefinitions unchanged — a rebuilt field that forgets `safety` silently changes the result
    cg = ctx.F.crate("conjure_codegen")
    FD = "conjure_codegen::types::field_definition::FieldDefinition"
    conv = [b for b in cg.bodies if b.kind == "fn" and b.argc == 1 and "ErrorDefinition" in tystr(b.local_ty(1)) and (ty_adt(b.local_ty(0)) or "").endswith("ObjectDefinition")]
    ctx.check(len(conv) == 1, "R8.6", "conjure_codegen", "error-object|anchor", f"expected one ErrorDefinition -> ObjectDefinition conversion, found {len(conv)}", nontrivial=False)
    for b in conv:
        fam = [b] + cg.closures_of(b)
        builds = [(x, t) for x in fam for _, t in x.calls() if t["call"]["name"] == "build" and ty_adt(x.local_ty(place_local(t["dest"]))) == FD]
        builds += [(x, None) for x in fam for _, _, s_ in x.stmts() if s_["r"].get("agg") == "adt" and s_["r"].get("adt") == FD]
        if not builds:
            ctx.ok("R8.6", b.loc(), f"{b.name}: parameters are passed on as the IR's FieldDefinitions (no field is rebuilt)")
            continue
        ok = False
        for x in fam:
            for _, t in x.calls():
                if t["call"]["name"] == "safety" and "uilder" in t["call"]["def"] and len(t["args"]) >= 2:
                    roots, calls = dt.transforming_calls(x, t["args"][1])
                    if any(c_["call"]["def"].endswith("FieldDefinition::safety") for c_ in calls):
                        ok = True
        ctx.check(ok, "R8.6", b.loc(), f"{b.name}|rebuilt-field-safety",
                  f"{b.name} rebuilds the error's parameters as new FieldDefinitions without copying their declared `safety`: an argument whose type refers to this error is then classified as if the parameter had no marker (a DO_NOT_LOG parameter of a safe type makes it `safe`)",
                  instance=f"{b.name}: rebuilt fields copy safety()")

def check_tables(ctx, F, c, I, tb):
    where = tb.loc()
    # per-constructor table
    rows = {}
    for k, v in enumerate(F.adt(TY)["variants"]):
        try:
            r = I.run(tb, [("sym", "self"), minterp.adt(TY, k, [("sym", "p")] * len(v["fields"]))])
            rows[v["name"]] = minterp.show(I, r)
        except minterp.Unsupported as e:
            ctx.note(f"R8.2 type table: the type-safety function left the interpretable fragment for {v['name']} ({e}) — e.g. an explicit work list instead of structural recursion; the per-constructor table is not decided at generator level, the generated instance is decided by R8.4")
            return
    me = tb.name
    comb = None
    prim = None
    exp_shape = {"Optional": f"{me}(self, p.item_type)", "List": f"{me}(self, p.item_type)", "Set": f"{me}(self, p.item_type)", "External": "None"}
    for k, exp in exp_shape.items():
        ctx.check(rows.get(k) == exp, "R8.2", where, f"type-table|{k}", f"type safety of {k} is `{rows.get(k)}`, specification: `{exp}` (as safe as its contents / unknown for external)", instance=f"{k} -> {exp}")
    m = rows.get("Map", "")
    import re
    mm = re.fullmatch(rf"(\w+)\((?:self, )?{me}\(self, p\.key_type\), {me}\(self, p\.value_type\)\)", m) or re.fullmatch(rf"(\w+)\((?:self, )?{me}\(self, p\.value_type\), {me}\(self, p\.key_type\)\)", m)
    ctx.check(bool(mm), "R8.2", where, "type-table|Map", f"type safety of a map is `{m}`, specification: combine(key, value)", instance=f"Map -> {m}")
    pm = re.fullmatch(r"(\w+)\((?:self, )?p\)", rows.get("Primitive", ""))
    ctx.check(bool(pm), "R8.2", where, "type-table|Primitive", f"type safety of a primitive is `{rows.get('Primitive')}`", instance=f"Primitive -> {rows.get('Primitive')}")
    ref = rows.get("Reference", "")
    ctx.check("types" in ref and "index" in ref and "External" != ref and "None" != ref, "R8.2", where, "type-table|Reference", f"type safety of a reference is `{ref}`; it must be the named type's computed safety", instance=f"Reference -> {ref}")
    # combine table
    if mm:
        cb = [b for b in c.bodies if b.name == mm.group(1) and b.id.startswith("conjure_codegen::context::")]
        if len(cb) == 1:
            names = [v["name"] for v in F.adt(LS)["variants"]]
            vals = [(None, minterp.adt(OPT, 0))] + [(n, minterp.adt(OPT, 1, [minterp.adt(LS, k)])) for k, n in enumerate(names)]
            for an, av in vals:
                for bn, bv in vals:
                    try:
                        r = opt(I, I.run(cb[0], ([("sym", "self")] if cb[0].argc == 3 else []) + [av, bv]))
                    except minterp.Unsupported as e:
                        ctx.violation("R8.2", cb[0].loc(), f"combine|{an}|{bn}|unsupported", f"combine function left the analysable fragment: {e}")
                        continue
                    exp = min((an, bn), key=lambda x: RANKS[x])
                    ctx.check(r == exp, "R8.2", cb[0].loc(), f"combine|{an}|{bn}", f"combine({an}, {bn}) = {r}; the meet of DoNotLog < Unsafe < unknown < Safe is {exp}", instance=f"combine({an}, {bn}) = {exp}")
        else:
            ctx.violation("R8.2", where, "combine|anchor", "combine function not found")
    if pm:
        pb = [b for b in c.bodies if b.name == pm.group(1) and b.id.startswith("conjure_codegen::context::")]
        if len(pb) == 1:
            for k, v in enumerate(F.adt(PT)["variants"]):
                if v["name"] == "Unknown":
                    continue
                try:
                    r = opt(I, I.run(pb[0], ([("sym", "self")] if pb[0].argc == 2 else []) + [minterp.adt(PT, k, [("sym", "x")] * len(v["fields"]))]))
                except minterp.Unsupported as e:
                    ctx.violation("R8.2", pb[0].loc(), f"primitive|{v['name']}|unsupported", str(e))
                    continue
                exp = "DoNotLog" if v["name"] == "Bearertoken" else None
                ctx.check(r == exp, "R8.2", pb[0].loc(), f"primitive|{v['name']}", f"primitive {v['name']} has safety {r}, specification: {exp}", instance=f"{v['name']} -> {exp}")
    # named types: the function(s) that compute the cell's value
    comps = [b for b in c.bodies if b.kind == "assoc_fn" and b.id.startswith("conjure_codegen::context::") and tystr(b.local_ty(0)).startswith(OPT + "<" + LS)
             and any(dt.switch_atom(b, i)[0] == "discr" and TD in tystr(dt.place_ty(b, F, dt.switch_atom(b, i)[1]) or {}) for i, blk in enumerate(b.blocks) if "switch" in blk["t"])]
    if len(comps) != 1:
        ctx.violation("R8.2", where, "named|anchor", f"expected one function computing the safety of named types by definition kind, found {len(comps)}")
        return
    nb = comps[0]
    cfg = CFG(nb)
    tdn = [v["name"] for v in F.adt(TD)["variants"]]
    arms = {}
    for bb, t in nb.calls():
        for s, allowed, allv in dt.edge_conditions(cfg, bb):
            atom = dt.switch_atom(nb, s)
            if atom[0] == "discr" and TD in tystr(dt.place_ty(nb, F, atom[1]) or {}):
                for v in dt.allowed_variants(allowed, allv, tdn):
                    arms.setdefault(v, []).append(t)
    for bb, j, s in nb.stmts():
        if s["r"].get("agg") == "adt":
            for sw, allowed, allv in dt.edge_conditions(cfg, bb):
                atom = dt.switch_atom(nb, sw)
                if atom[0] == "discr" and TD in tystr(dt.place_ty(nb, F, atom[1]) or {}):
                    for v in dt.allowed_variants(allowed, allv, tdn):
                        arms.setdefault(v + "#agg", []).append(s)
    # enum -> Some(Safe)
    en = [s for s in arms.get("Enum#agg", []) if s["r"]["adt"] == LS]
    ctx.check(len(en) == 1 and en[0]["r"]["variant"] == "Safe" and not [t for t in arms.get("Enum", []) if t["call"].get("local")], "R8.2", nb.loc(), "named|Enum",
              "enums must be Safe", instance="Enum -> Some(Safe)")
    fam = {x.id: x for x in [nb] + c.closures_of(nb)}

    def fold_info(kind):
        """(form, initial accumulator) of the member fold of one definition kind: iterator fold / try_fold, or an explicit
        loop `acc = init; for m in members { acc = combine(acc, m)? }`; None when neither form is recognised"""
        folds = [t for t in arms.get(kind, []) if t["call"]["name"] in ("try_fold", "fold")]
        if len(folds) == 1:
            t = folds[0]
            init = t["args"][1]
            r = dt.resolve_copy(nb, init)
            iv = "?"
            if r[0] == "def" and r[1][1] != "T" and r[1][2]["r"].get("agg") == "adt":
                rv = r[1][2]["r"]
                iv = rv["variant"] if rv["adt"] == LS else ("None" if rv["variant"] == "None" else "Some(?)")
            return t["call"]["name"], iv
        if folds:
            return None
        # reduce(..): a fold without an initial value — an empty member list yields None (unknown), never Safe
        reds = [t for t in arms.get(kind, []) if t["call"]["name"] == "reduce" and "Iterator" in t["call"]["def"]]
        if len(reds) == 1:
            return "reduce", "None"
        # the fold may live in a private helper shared by the object and union arms: its initial value is then the same for both
        helpers = [t for t in arms.get(kind, []) if t["call"].get("local") and c.body(t["call"].get("id")) is not None and c.body(t["call"]["id"]).d.get("vis") != "pub"
                   and c.body(t["call"]["id"]).id != nb.id]
        for t in helpers:
            hb_ = c.body(t["call"]["id"])
            hf = [t2 for x_ in [hb_] + c.closures_of(hb_) for _, t2 in x_.calls() if t2["call"]["name"] in ("try_fold", "fold") and "Iterator" in t2["call"]["def"]]
            hr = [t2 for x_ in [hb_] + c.closures_of(hb_) for _, t2 in x_.calls() if t2["call"]["name"] == "reduce" and "Iterator" in t2["call"]["def"]]
            if not hf and len(hr) == 1:
                return "reduce", "None"        # no initial value: an empty member list yields unknown
            if len(hf) == 1:
                r = dt.resolve_copy(hb_, hf[0]["args"][1])
                if r[0] == "def" and r[1][1] != "T" and r[1][2]["r"].get("agg") == "adt":
                    rv = r[1][2]["r"]
                    return hf[0]["call"]["name"], (rv["variant"] if rv["adt"] == LS else ("None" if rv["variant"] == "None" else "Some(?)"))
        # explicit loop: a combine call inside a loop of this arm whose accumulator operand is a local initialised before the loop
        loops = [(bb_, t) for bb_, t in nb.calls() if t in arms.get(kind, []) and t["call"].get("local") and tystr(nb.local_ty(place_local(t["dest"]))).startswith(OPT + "<" + LS) and cfg.in_loop(bb_) and len(t["args"]) == 3]
        for bb_, t in loops:
            for a_ in t["args"][1:]:
                srcs = Tracer(nb, through_agg=True).sources(a_)
                for s_ in srcs:
                    while s_[0] == "field":
                        s_ = s_[1]
                    if s_[0] == "local":
                        acc = s_[1]
                        inits = [d_ for d_ in nb.defs().get(acc, []) if d_[1] != "T" and not cfg.in_loop(d_[0]) and d_[2]["r"].get("agg") == "adt"]
                        if len(inits) == 1:
                            rv = inits[0][2]["r"]
                            iv = rv["variant"] if rv["adt"] == LS else ("None" if rv["variant"] == "None" else "Some(?)")
                            # the `?` on the combined value ends the loop at unknown: same as try_fold
                            return ("try_fold" if any(t2["call"]["def"] == dt.TRY_BRANCH for _, t2 in nb.calls() if cfg.in_loop(_)) else "fold"), iv
        return None

    o = fold_info("Object")
    if o is None:
        ctx.note("R8.2 named|Object: member fold not in a recognised form (iterator fold / accumulator loop); no generator-level verdict, the generated instance is decided by R8.4")
    else:
        ctx.check(o == ("try_fold", "Safe"), "R8.2", nb.loc(), "named|Object", f"objects must fold their fields starting from Safe and stop at unknown (found {o})", instance="Object: fields folded from Safe")
    u = fold_info("Union")
    if u is None:
        ctx.note("R8.2 named|Union: member fold not in a recognised form; no generator-level verdict, the generated instance is decided by R8.4")
    else:
        ctx.check(u == ("fold", "None"), "R8.2", nb.loc(), "named|Union", f"unions must fold their members starting from unknown (found {u}): a union is never safe", instance="Union: members folded from unknown")
    # declared safety overrides the type: safety().or_else(type safety) — inline, or through a private helper whose decision
    # table is Some(s) -> Some(s), None -> type safety
    bodies = [nb] + c.closures_of(nb)
    inline_form = any("safety" in [t["call"]["name"] for _, t in x.calls()] and "or_else" in [t["call"]["name"] for _, t in x.calls()] for x in bodies)
    helper_form = None
    for x in bodies:
        for _, t in x.calls():
            hb = c.body(t["call"].get("id")) if t["call"].get("local") else None
            if hb is not None and hb.d.get("vis") != "pub" and hb.argc == 3 and tystr(hb.local_ty(0)).startswith(OPT + "<" + LS) and "Option<&" in tystr(hb.local_ty(2)):
                I3 = minterp.Interp(F, c, inline=lambda d_, rid: False)
                try:
                    r_some = I3.run(hb, [("sym", "self"), minterp.adt(OPT, 1, [("sym", "declared")]), ("sym", "ty")])
                    r_none = I3.run(hb, [("sym", "self"), minterp.adt(OPT, 0, []), ("sym", "ty")])
                    ok_s = minterp.is_adt(r_some) and r_some[2] == 1 and "declared" in repr(r_some)
                    ok_n = isinstance(r_none, tuple) and r_none and r_none[0] == "call" and "ty" in repr(r_none) and "declared" not in repr(r_none)
                    helper_form = bool(ok_s and ok_n)
                except minterp.Unsupported:
                    pass
    if inline_form or helper_form:
        ctx.ok("R8.2", nb.loc(), "members: declared safety overrides the type-derived one", nontrivial=False)
    elif helper_form is False:
        ctx.violation("R8.2", nb.loc(), "named|declared-overrides", "a declared safety must override the type-derived one (Some(declared) -> declared, None -> type safety)")
    else:
        ctx.note("R8.2 declared-overrides: form not recognised; decided on the instance by R8.4")
    # ---------------- R8.3 memo discipline
    cell_writers = []
    for b in c.bodies:
        if not b.id.startswith("conjure_codegen::context::"):
            continue
        for bb, j, s in b.stmts():
            d = s["d"]
            if isinstance(d, int) or "*" not in d["p"]:
                continue
            src = Tracer(b, through_calls=True).sources({"cp": d["l"]})
            if any(is_cell_borrow(b, x) for x in src):
                cell_writers.append((b, bb, j, s))
        # stores through the cell API: RefCell::replace / Cell::set / Cell::replace / RefCell::swap on the same field
        for bb, t in b.calls():
            if t["call"]["name"] in ("replace", "set", "swap", "replace_with") and ("cell::RefCell" in t["call"]["def"] or "cell::Cell" in t["call"]["def"]):
                tr_ = Tracer(b, through_calls=True)
                hit = False
                for s_ in tr_.sources(t["args"][0]):
                    x = s_
                    while x[0] == "field":
                        for e in thaw(x[2]):
                            if isinstance(e, dict) and e.get("n") == "log_safety":
                                hit = True
                        x = x[1]
                # ... or, whatever route the reference took (a work list of `&RefCell`s built up front), a cell of the safety type
                if not hit and any(tystr(x_).startswith(OPT + "<" + LS) for x_ in t["call"].get("substs", [])) and len(t["args"]) >= 2:
                    hit = True
                if hit:
                    cell_writers.append((b, bb, "T", {"ln": t["ln"], "r": {"use": t["args"][1]}, "d": 0}))
    ctx.check(len(cell_writers) >= 1, "R8.3", nb.loc(), "memo|writer-exists", "no store into the named-type safety cell found (anchor lost)", nontrivial=False)
    for b, bb, j, s in cell_writers:
        cfgb = CFG(b)
        recursive = reaches(c, b, b.id)
        const_store = "use" in s["r"] and dt.resolve_copy(b, s["r"]["use"])[0] == "def" and dt.resolve_copy(b, s["r"]["use"])[1][1] != "T" and \
            dt.resolve_copy(b, s["r"]["use"])[1][2]["r"].get("agg") == "adt"
        ctx.check(not (recursive and const_store), "R8.3", b.loc(s["ln"]), f"{b.path}|provisional-memo",
                  f"{b.path}: stores a provisional constant into the safety memo cell inside a recursive evaluation (results of inner types computed from it would be memoised: the decision becomes order dependent)",
                  instance=f"{b.path}: no provisional constant store in a recursive evaluator")
        if not recursive:
            stable = repeat_until_stable(b, cfgb, bb)
            if not stable:
                # the pass may live in a private method driven by a loop in its caller (`while self.pass_once() {}`):
                # decided on every caller with the pass spliced in
                stable = stable_in_callers(c, b, j, s)
            ctx.check(stable, "R8.3", b.loc(s["ln"]), f"{b.path}|fixpoint-loop",
                      f"{b.path}: the computed safety is stored outside a repeat-until-stable loop (a flag set next to the store must decide whether the evaluation is repeated): inner types would keep values computed from not-yet-final neighbours",
                      instance=f"{b.path}: store inside a loop repeated while something changed")
    # ---------------- R8.7 the repeat-until-stable iteration settles
    # The per-type rule is not monotone (R8.2: an object's fold stops at the first field of unknown safety, so lowering a neighbour
    # can move an object back up from unsafe to unknown).  Storing every *changed* value (`new != old`) can then cycle for ever for
    # a recursive definition — generation hangs (witness: union T2 [optional<set<T4>>]; object T4 {f0: T5, f1: set<enum> UNSAFE,
    # f2: string}; object T5 {f0: set<T2>}, evaluated in that order).  A store guarded by a strict comparison of a finite rank
    # (a type is only ever lowered) settles after at most 3 stores per type.  Other guards: no verdict.
    # (a hang is a failure of generation — property C03 — not a wrong safety decision: the clause is recorded only when this
    # module is run on behalf of C03, which includes it as R3.11)
    for b, bb, j, s in (cell_writers if ctx.pid == "C03" else []):
        if reaches(c, b, b.id):
            continue
        eb_ = b
        cfgb = CFG(eb_)
        verdict, how = None, ""
        for sbb, allowed, allv in dt.edge_conditions(cfgb, bb):
            atom = dt.switch_atom(eb_, sbb)
            if atom[0] == "call" and atom[1]["call"]["def"] in ("core::cmp::PartialEq::ne", "core::cmp::PartialEq::eq") and any(LS in tystr(x_) for x_ in atom[1]["call"].get("substs", [])):
                verdict, how = False, "the store is guarded by `new != old` (any change, up or down)"
            if atom[0] == "bin" and atom[1] in ("Lt", "Gt", "Le", "Ge"):
                ra, rb = dt.resolve_copy(eb_, atom[2]), dt.resolve_copy(eb_, atom[3])
                fa = ra[1][2]["call"].get("id") if ra[0] == "def" and ra[1][1] == "T" else None
                fb = rb[1][2]["call"].get("id") if rb[0] == "def" and rb[1][1] == "T" else None
                rk = c.body(fa) if fa and fa == fb else None
                if rk is not None and atom[1] in ("Lt", "Gt") and (rk.local_ty(0) or {}).get("prim") in ("u8", "u16", "u32", "u64", "usize", "i8", "i16", "i32", "i64", "isize"):
                    # the rank function maps into finitely many integers (constants only)
                    consts = {dt.resolve_copy(rk, {"cp": 0})[0]} if False else set()
                    for _, _, s2 in rk.stmts():
                        if place_local(s2["d"]) == 0 and "use" in s2["r"] and isinstance(s2["r"]["use"].get("c"), dict) and "int" in s2["r"]["use"]["c"]:
                            consts.add(s2["r"]["use"]["c"]["int"])
                    if consts and len(consts) <= 8:
                        verdict, how = True, f"the store is guarded by a strict comparison of {rk.name}(new) with {rk.name}(old) ({len(consts)} ranks)"
        if verdict is None:
            ctx.note(f"R8.7 {b.path}: the guard of the memo store is neither `new != old` nor a strict rank comparison; termination of the iteration is not decided here")
        else:
            ctx.check(verdict, "R8.7", b.loc(s["ln"]), f"{b.path}|fixpoint-settles",
                      f"{b.path}: {how}; the per-type rule is not monotone (the object fold stops at the first unknown field), so the iteration can cycle for ever and code generation hangs — "
                      "e.g. union T2 [optional<set<T4>>], object T4 {f0: T5, f1: set<enum> UNSAFE, f2: string}, object T5 {f0: set<T2>}; a type must only ever be lowered (safe > unknown > unsafe > do-not-log)",
                      instance=f"{b.path}: {how}")
    # readers do not compute
    return


def stable_in_callers(c, b, j, s, depth=0, origin=None):
    from .. import inline
    origin = origin or b.id
    if b.d.get("vis") == "pub" or depth > 2:
        return False
    callers = [x for x in c.bodies if x.id != b.id and x.kind in ("fn", "assoc_fn") and any(t["call"].get("id") == b.id for _, t in x.calls())]
    if not callers:
        return False
    for x in callers:
        eb = inline.expand(c, x, depth=depth + 1, pred=lambda cb: cb.d.get("vis") != "pub")
        cfg = CFG(eb)
        sites = []
        for i, blk in enumerate(eb.blocks):
            if j == "T":
                t = blk["t"]
                if "call" in t and t.get("inl") == origin and t.get("ln") == s["ln"] and t["call"]["name"] in ("replace", "set", "swap", "replace_with"):
                    sites.append(i)
            else:
                for st in blk["s"]:
                    if st.get("inl") == origin and st.get("ln") == s["ln"] and "d" in st and not isinstance(st["d"], int) and "*" in st["d"]["p"]:
                        sites.append(i)
        if not sites:
            return False
        if not all(repeat_until_stable(eb, cfg, i) or stable_in_callers(c, x, j, s, depth + 1, origin) for i in sites):
            return False
    return True


def repeat_until_stable(b, cfg, store_bb):
    """exists a bool flag that (1) is assigned in the loop body of the store, (2) is sticky there — every assignment inside
    the innermost cycle through the store is `true`, `flag | e`, or guarded by the flag being false — and (3) a switch on the
    flag decides whether the store is reached again ('true' side can, 'false' side cannot)"""
    flags = set()
    body_blocks = {x for x in cfg.reachable_from(store_bb) if store_bb in cfg.reachable_from(x)}
    cand = {}
    for bb, j, s in b.stmts():
        if tystr(b.local_ty(place_local(s["d"]))) == "bool" and not place_proj(s["d"]) and (bb == store_bb or cfg.dominates(store_bb, bb) or bb in body_blocks):
            cand.setdefault(place_local(s["d"]), []).append((bb, j, s))
    def switches_on(f):
        out = set()
        for i, blk in enumerate(b.blocks):
            if "switch" in blk["t"] and i in cfg.reach:
                r_ = dt.resolve_copy(b, blk["t"]["switch"])
                locs = set()
                if r_[0] == "place":
                    locs.add(place_local(r_[1]))
                if r_[0] == "def" and r_[1][1] != "T" and "un" in r_[1][2]["r"] and op_place(r_[1][2]["r"]["a"]) is not None:
                    inner = dt.resolve_copy(b, r_[1][2]["r"]["a"])
                    locs.add(place_local(op_place(r_[1][2]["r"]["a"])))
                    if inner[0] == "place":
                        locs.add(place_local(inner[1]))
                if f in locs:
                    out.add(i)
        return out
    for f, assigns in cand.items():
        if not any(bb in body_blocks or cfg.dominates(store_bb, bb) for bb, j, s in assigns):
            continue
        sticky = True
        sets_true = False
        decision = switches_on(f)
        same_pass = cfg.reachable_from(store_bb, avoid=decision) if decision else set()
        for bb, j, s in assigns:
            r = s["r"]
            inside = bb in same_pass and bb != store_bb or (bb == store_bb)
            if "use" in r and (r["use"].get("c") or {}).get("bool") is True:
                sets_true = True
                continue
            if "use" in r and (r["use"].get("c") or {}).get("bool") is False and not inside:
                continue   # reset at the start of a pass
            if "bin" in r and r["bin"] == "BitOr" and any(op_place(x) is not None and place_local(op_place(x)) == f for x in (r["a"], r["b"])):
                sets_true = True
                continue
            if inside:
                guarded = False
                for sbb, allowed, allv in dt.edge_conditions(cfg, bb):
                    atom = dt.switch_atom(b, sbb)
                    if atom[0] == "place" and place_local(atom[1]) == f and dt.bool_polarity(allowed) is False:
                        guarded = True
                if guarded:
                    sets_true = True
                    continue
                sticky = False
        if sticky and sets_true:
            flags.add(f)
    decisions = set()
    for i, blk in enumerate(b.blocks):
        t = blk["t"]
        if "switch" not in t or i not in cfg.reach:
            continue
        tr = Tracer(b)
        roots = {x[1] for x in tr.sources(t["switch"]) if x[0] == "local"}
        r = dt.resolve_copy(b, t["switch"])
        cand = set(roots)
        if r[0] == "place":
            cand.add(place_local(r[1]))
        if r[0] == "def" and r[1][1] != "T" and "un" in r[1][2]["r"]:
            p = op_place(r[1][2]["r"]["a"])
            if p is not None:
                cand |= {x[1] for x in tr.sources({"cp": place_local(p)}) if x[0] == "local"} | {place_local(p)}
        if not (cand & flags):
            continue
        sides = [tg for _, tg in t["targets"]] + [t["otherwise"]]
        reach = [store_bb in cfg.reachable_from(tg) for tg in sides]
        if any(reach) and not all(reach):
            decisions.add(i)
    if not decisions:
        return False
    # ... and the repetition has no other way out: every edge leaving the cycle through the store is a side of such a decision
    # (a pass budget — `for _ in 0..N` — or an early break would stop before the values are stable: the result then depends on
    # the order in which the types are visited)
    for x in body_blocks:
        if b.blocks[x].get("cleanup"):
            continue
        for y in cfg.succ[x]:
            if y in body_blocks or b.blocks[y].get("cleanup"):
                continue
            if x in decisions:
                continue
            # exits that only lead to a panic / abort do not produce a result
            if not any("return" in b.blocks[z]["t"] for z in cfg.reachable_from(y) | {y}):
                continue
            return False
    return True


def is_cell_borrow(b, src):
    while src[0] == "field":
        src = src[1]
    if src[0] != "call":
        return False
    t = b.blocks[src[1]]["t"]
    if t["call"]["name"] not in ("borrow_mut", "deref_mut"):
        return False
    tr = Tracer(b, through_calls=True)
    for s in tr.sources(t["args"][0]):
        x = s
        while x[0] == "field":
            for e in thaw(x[2]):
                if isinstance(e, dict) and e.get("n") == "log_safety":
                    return True
            x = x[1]
    return False


def reaches(c, b, target, depth=0, seen=None):
    seen = seen or set()
    for x in [b] + c.closures_of(b):
        for bb, t in x.calls():
            ids = [t["call"].get("id")] + [((a.get("c") or {}).get("fn") or {}).get("id") for a in t["args"]]
            for i in ids:
                if not i or not str(i).startswith("conjure_codegen::"):
                    continue
                if i == target:
                    return True
                if i in seen or depth > 6:
                    continue
                seen.add(i)
                cb = c.body(i)
                if cb is not None and reaches(c, cb, target, depth + 1, seen):
                    return True
    return False
