// mirfacts: a rustc_private driver that dumps analysis-phase MIR, type tables,
// impl tables and compiler-evaluated constants of every workspace crate as JSON
// facts (one file per rustc process).  Used as RUSTC_WORKSPACE_WRAPPER.
#![feature(rustc_private)]
#![allow(clippy::all)]
extern crate rustc_abi;
extern crate rustc_driver;
extern crate rustc_hir;
extern crate rustc_interface;
extern crate rustc_middle;
extern crate rustc_span;

use rustc_driver::Compilation;
use rustc_hir::def::DefKind;
use rustc_hir::def_id::{DefId, LOCAL_CRATE};
use rustc_middle::mir::interpret::{GlobalAlloc, Scalar};
use rustc_middle::mir::{
    self, AggregateKind, BinOp, Body, ConstValue, Operand, Place, ProjectionElem, Rvalue,
    StatementKind, TerminatorKind,
};
use rustc_middle::ty::print::{with_no_trimmed_paths, with_no_visible_paths, with_resolve_crate_name};
use rustc_middle::ty::{self, GenericArgKind, GenericArgsRef, Ty, TyCtxt, TypeVisitableExt};
use rustc_span::Span;
use std::collections::{BTreeMap, HashSet};

// ---------------------------------------------------------------- tiny JSON
#[derive(Clone)]
enum J {
    Null,
    Bool(bool),
    Num(i128),
    Str(String),
    Arr(Vec<J>),
    Obj(Vec<(&'static str, J)>),
    Map(BTreeMap<String, J>),
}
fn s<T: Into<String>>(x: T) -> J {
    J::Str(x.into())
}
fn esc(x: &str, out: &mut String) {
    out.push('"');
    for c in x.chars() {
        match c {
            '"' => out.push_str("\\\""),
            '\\' => out.push_str("\\\\"),
            '\n' => out.push_str("\\n"),
            '\r' => out.push_str("\\r"),
            '\t' => out.push_str("\\t"),
            c if (c as u32) < 0x20 => out.push_str(&format!("\\u{:04x}", c as u32)),
            c => out.push(c),
        }
    }
    out.push('"');
}
impl J {
    fn write(&self, out: &mut String) {
        match self {
            J::Null => out.push_str("null"),
            J::Bool(b) => out.push_str(if *b { "true" } else { "false" }),
            J::Num(n) => out.push_str(&n.to_string()),
            J::Str(x) => esc(x, out),
            J::Arr(v) => {
                out.push('[');
                for (i, x) in v.iter().enumerate() {
                    if i > 0 {
                        out.push(',');
                    }
                    x.write(out);
                }
                out.push(']');
            }
            J::Obj(v) => {
                out.push('{');
                for (i, (k, x)) in v.iter().enumerate() {
                    if i > 0 {
                        out.push(',');
                    }
                    esc(k, out);
                    out.push(':');
                    x.write(out);
                }
                out.push('}');
            }
            J::Map(v) => {
                out.push('{');
                for (i, (k, x)) in v.iter().enumerate() {
                    if i > 0 {
                        out.push(',');
                    }
                    esc(k, out);
                    out.push(':');
                    x.write(out);
                }
                out.push('}');
            }
        }
    }
}

// ---------------------------------------------------------------- context
struct Cx<'tcx> {
    tcx: TyCtxt<'tcx>,
    adts: BTreeMap<String, J>,
    adt_seen: HashSet<DefId>,
    adt_queue: Vec<(DefId, u32)>,
    sigs: BTreeMap<String, J>,
    sig_seen: HashSet<DefId>,
    cur_depth: u32,
}

fn hex(bytes: &[u8]) -> String {
    let mut o = String::with_capacity(bytes.len() * 2);
    for b in bytes {
        o.push_str(&format!("{:02x}", b));
    }
    o
}

impl<'tcx> Cx<'tcx> {
    fn path(&self, did: DefId) -> String {
        with_no_trimmed_paths!(with_no_visible_paths!(self.tcx.def_path_str(did)))
    }
    fn id(&self, did: DefId) -> String {
        format!(
            "{}{}",
            self.tcx.crate_name(did.krate),
            self.tcx.def_path(did).to_string_no_crate_verbose()
        )
    }
    fn span(&self, sp: Span) -> (String, i128, Option<String>) {
        let exp = if sp.from_expansion() {
            let d = sp.ctxt().outer_expn_data();
            Some(match d.kind {
                rustc_span::ExpnKind::Macro(_, name) => name.to_string(),
                rustc_span::ExpnKind::Desugaring(k) => format!("desugar:{:?}", k),
                _ => "other".to_string(),
            })
        } else {
            None
        };
        let cs = sp.source_callsite();
        if cs.is_dummy() {
            return ("<dummy>".into(), 0, exp);
        }
        let loc = self.tcx.sess.source_map().lookup_char_pos(cs.lo());
        let file = format!("{}", loc.file.name.prefer_local_unconditionally());
        (file, loc.line as i128, exp)
    }

    fn args(&mut self, args: GenericArgsRef<'tcx>) -> J {
        let mut v = vec![];
        for a in args.iter() {
            match a.kind() {
                GenericArgKind::Type(t) => v.push(self.ty(t)),
                GenericArgKind::Const(c) => v.push(J::Obj(vec![("const", s(format!("{}", c)))])),
                GenericArgKind::Lifetime(_) => {}
            }
        }
        J::Arr(v)
    }

    fn ty(&mut self, t: Ty<'tcx>) -> J {
        match *t.kind() {
            ty::Bool | ty::Char | ty::Int(_) | ty::Uint(_) | ty::Float(_) | ty::Str => {
                J::Obj(vec![("prim", s(format!("{}", t)))])
            }
            ty::Adt(def, args) => {
                self.note_adt(def.did());
                let p = self.path(def.did());
                let a = self.args(args);
                J::Obj(vec![("adt", s(p)), ("args", a)])
            }
            ty::Param(p) => J::Obj(vec![("param", s(p.name.as_str()))]),
            ty::Ref(_, inner, m) => {
                let i = self.ty(inner);
                J::Obj(vec![("ref", i), ("mut", J::Bool(m.is_mut()))])
            }
            ty::RawPtr(inner, m) => {
                let i = self.ty(inner);
                J::Obj(vec![("ptr", i), ("mut", J::Bool(m.is_mut()))])
            }
            ty::Tuple(ts) => {
                let v = ts.iter().map(|x| self.ty(x)).collect();
                J::Obj(vec![("tuple", J::Arr(v))])
            }
            ty::Slice(inner) => {
                let i = self.ty(inner);
                J::Obj(vec![("slice", i)])
            }
            ty::Array(inner, n) => {
                let i = self.ty(inner);
                J::Obj(vec![("array", i), ("len", s(format!("{}", n)))])
            }
            ty::FnDef(did, args) => {
                let p = self.path(did);
                let a = self.args(args);
                J::Obj(vec![("fndef", s(p)), ("args", a)])
            }
            ty::Closure(did, _) => J::Obj(vec![("closure", s(self.id(did)))]),
            ty::Coroutine(did, _) => J::Obj(vec![("coroutine", s(self.id(did)))]),
            ty::CoroutineClosure(did, _) => J::Obj(vec![("closure", s(self.id(did)))]),
            ty::Never => J::Obj(vec![("never", J::Null)]),
            ty::Alias(alias) => {
                let did = match alias.kind {
                    ty::AliasTyKind::Projection { def_id } => def_id,
                    ty::AliasTyKind::Inherent { def_id } => def_id,
                    ty::AliasTyKind::Opaque { def_id } => def_id,
                    ty::AliasTyKind::Free { def_id } => def_id,
                };
                match self.tcx.def_kind(did) {
                    DefKind::AssocTy => {
                        let tr = self.tcx.parent(did);
                        let trp = if matches!(self.tcx.def_kind(tr), DefKind::Trait) {
                            self.path(tr)
                        } else {
                            String::new()
                        };
                        let name = self.tcx.opt_item_name(did).map(|n| n.to_string()).unwrap_or_else(|| "<rpitit>".to_string());
                        let a = self.args(alias.args);
                        J::Obj(vec![("proj", s(name)), ("trait", s(trp)), ("args", a)])
                    }
                    _ => J::Obj(vec![("opaque", s(self.id(did))), ("str", s(format!("{}", t)))]),
                }
            }
            ty::Dynamic(..) => J::Obj(vec![("dyn", s(with_no_trimmed_paths!(format!("{}", t))))]),
            ty::FnPtr(..) => J::Obj(vec![("fnptr", s(with_no_trimmed_paths!(format!("{}", t))))]),
            ty::Foreign(did) => J::Obj(vec![("foreign", s(self.path(did)))]),
            _ => J::Obj(vec![("other", s(with_no_trimmed_paths!(format!("{}", t))))]),
        }
    }

    fn note_adt(&mut self, did: DefId) {
        if self.adt_seen.contains(&did) {
            return;
        }
        let depth = if did.is_local() { 0 } else { self.cur_depth + 1 };
        if depth > 4 {
            return;
        }
        self.adt_seen.insert(did);
        self.adt_queue.push((did, depth));
    }

    fn drain_adts(&mut self) {
        while let Some((did, depth)) = self.adt_queue.pop() {
            self.cur_depth = depth;
            let def = self.tcx.adt_def(did);
            let mut variants = vec![];
            for v in def.variants().iter() {
                let mut fields = vec![];
                for f in v.fields.iter() {
                    let fty = self.tcx.type_of(f.did).instantiate_identity().skip_norm_wip();
                    let tj = self.ty(fty);
                    let vis = match f.vis {
                        ty::Visibility::Public => "pub",
                        ty::Visibility::Restricted(m) => {
                            if m.is_crate_root() {
                                "crate"
                            } else {
                                "priv"
                            }
                        }
                    };
                    fields.push(J::Obj(vec![("name", s(f.name.as_str())), ("ty", tj), ("vis", s(vis))]));
                }
                variants.push(J::Obj(vec![("name", s(v.name.as_str())), ("fields", J::Arr(fields))]));
            }
            let kind = if def.is_enum() {
                "enum"
            } else if def.is_union() {
                "union"
            } else {
                "struct"
            };
            let generics: Vec<J> = self
                .tcx
                .generics_of(did)
                .own_params
                .iter()
                .filter(|p| matches!(p.kind, ty::GenericParamDefKind::Type { .. }))
                .map(|p| s(p.name.as_str()))
                .collect();
            let (file, line, _) = self.span(self.tcx.def_span(did));
            let p = self.path(did);
            self.adts.insert(
                p,
                J::Obj(vec![
                    ("kind", s(kind)),
                    ("id", s(self.id(did))),
                    ("local", J::Bool(did.is_local())),
                    ("generics", J::Arr(generics)),
                    ("variants", J::Arr(variants)),
                    ("file", s(file)),
                    ("line", J::Num(line)),
                ]),
            );
        }
        self.cur_depth = 0;
    }

    // generic parameters (own + parent) of a callee and the trait bounds on them
    fn note_sig(&mut self, did: DefId) {
        if self.sig_seen.contains(&did) {
            return;
        }
        self.sig_seen.insert(did);
        let tcx = self.tcx;
        let generics = tcx.generics_of(did);
        let mut names = vec![];
        for i in 0..generics.count() {
            let p = generics.param_at(i, tcx);
            match p.kind {
                ty::GenericParamDefKind::Type { .. } => names.push(s(p.name.as_str())),
                ty::GenericParamDefKind::Const { .. } => names.push(s(format!("const {}", p.name))),
                _ => {}
            }
        }
        let mut bounds: BTreeMap<String, J> = BTreeMap::new();
        let preds = tcx.predicates_of(did).instantiate_identity(tcx);
        for (clause, _) in preds.into_iter() {
            let clause = clause.skip_norm_wip();
            if let Some(tp) = clause.as_trait_clause() {
                let tp = tp.skip_binder();
                let self_ty = tp.trait_ref.self_ty();
                let key = with_no_trimmed_paths!(format!("{}", self_ty));
                let tr = self.path(tp.trait_ref.def_id);
                let e = bounds.entry(key).or_insert_with(|| J::Arr(vec![]));
                if let J::Arr(v) = e {
                    v.push(s(tr));
                }
            }
        }
        // argument / return types of the signature (identity-instantiated)
        let mut inputs = vec![];
        let mut output = J::Null;
        if matches!(tcx.def_kind(did), DefKind::Fn | DefKind::AssocFn) {
            let sig = tcx.fn_sig(did).instantiate_identity().skip_norm_wip().skip_binder();
            for t in sig.inputs() {
                inputs.push(self.ty(*t));
            }
            output = self.ty(sig.output());
        }
        let p = self.path(did);
        self.sigs.insert(
            p,
            J::Obj(vec![
                ("generics", J::Arr(names)),
                ("bounds", J::Map(bounds)),
                ("inputs", J::Arr(inputs)),
                ("output", output),
            ]),
        );
    }

    fn fn_ref(&mut self, owner: DefId, did: DefId, args: GenericArgsRef<'tcx>) -> J {
        let tcx = self.tcx;
        self.note_sig(did);
        let mut o: Vec<(&'static str, J)> = vec![];
        o.push(("def", s(self.path(did))));
        o.push(("id", s(self.id(did))));
        o.push(("name", s(tcx.opt_item_name(did).map(|n| n.to_string()).unwrap_or_default())));
        o.push(("local", J::Bool(did.is_local())));
        if matches!(tcx.def_kind(did), DefKind::AssocFn) {
            let parent = tcx.parent(did);
            match tcx.def_kind(parent) {
                DefKind::Trait => {
                    o.push(("trait", s(self.path(parent))));
                    if args.len() > 0 {
                        if let Some(t) = args.get(0).and_then(|a| a.as_type()) {
                            let tj = self.ty(t);
                            o.push(("self_ty", tj));
                        }
                    }
                }
                DefKind::Impl { of_trait } => {
                    if of_trait {
                        let tr = tcx.impl_trait_ref(parent).skip_binder();
                        o.push(("trait", s(self.path(tr.def_id))));
                    }
                    let st = tcx.type_of(parent).instantiate(tcx, args).skip_norm_wip();
                    let tj = self.ty(st);
                    o.push(("self_ty", tj));
                }
                _ => {}
            }
        }
        let a = self.args(args);
        o.push(("substs", a));
        // try to resolve trait method calls to a concrete impl item
        if matches!(tcx.def_kind(did), DefKind::AssocFn)
            && matches!(tcx.def_kind(tcx.parent(did)), DefKind::Trait)
            && !args.has_escaping_bound_vars()
        {
            let env = ty::TypingEnv::post_analysis(tcx, owner);
            let r = std::panic::catch_unwind(std::panic::AssertUnwindSafe(|| {
                ty::Instance::try_resolve(tcx, env, did, args)
            }));
            if let Ok(Ok(Some(inst))) = r {
                let rd = inst.def_id();
                if rd != did {
                    let mut r: Vec<(&'static str, J)> = vec![];
                    r.push(("def", s(self.path(rd))));
                    r.push(("id", s(self.id(rd))));
                    r.push(("local", J::Bool(rd.is_local())));
                    if matches!(tcx.def_kind(rd), DefKind::AssocFn) {
                        let parent = tcx.parent(rd);
                        if let DefKind::Impl { .. } = tcx.def_kind(parent) {
                            let st = tcx.type_of(parent).instantiate(tcx, inst.args).skip_norm_wip();
                            let tj = self.ty(st);
                            r.push(("self_ty", tj));
                        }
                    }
                    let ia = self.args(inst.args);
                    r.push(("substs", ia));
                    o.push(("resolved", J::Obj(r)));
                }
            }
        }
        J::Obj(o)
    }

    fn place(&mut self, body: &Body<'tcx>, p: &Place<'tcx>) -> J {
        if p.projection.is_empty() {
            return J::Num(p.local.as_u32() as i128);
        }
        let mut proj = vec![];
        let mut cur = mir::PlaceTy::from_ty(body.local_decls[p.local].ty);
        for e in p.projection.iter() {
            match e {
                ProjectionElem::Deref => proj.push(s("*")),
                ProjectionElem::Field(f, _) => {
                    // resolve field name if ADT
                    let mut name = String::new();
                    if let ty::Adt(def, _) = cur.ty.kind() {
                        let vi = cur.variant_index.unwrap_or(rustc_abi::FIRST_VARIANT);
                        if def.is_enum() || vi == rustc_abi::FIRST_VARIANT {
                            if let Some(v) = def.variants().get(vi) {
                                if let Some(fd) = v.fields.get(f) {
                                    name = fd.name.to_string();
                                }
                            }
                        }
                    }
                    proj.push(J::Obj(vec![("f", J::Num(f.as_u32() as i128)), ("n", s(name))]));
                }
                ProjectionElem::Index(l) => proj.push(J::Obj(vec![("idx", J::Num(l.as_u32() as i128))])),
                ProjectionElem::ConstantIndex { offset, from_end, .. } => {
                    proj.push(J::Obj(vec![("cidx", J::Num(offset as i128)), ("from_end", J::Bool(from_end))]))
                }
                ProjectionElem::Subslice { from, to, from_end } => proj.push(J::Obj(vec![
                    ("sub", J::Arr(vec![J::Num(from as i128), J::Num(to as i128)])),
                    ("from_end", J::Bool(from_end)),
                ])),
                ProjectionElem::Downcast(name, vi) => proj.push(J::Obj(vec![
                    ("dc", J::Num(vi.as_u32() as i128)),
                    ("n", s(name.map(|n| n.to_string()).unwrap_or_default())),
                ])),
                ProjectionElem::OpaqueCast(_) => proj.push(s("opaque")),
                ProjectionElem::UnwrapUnsafeBinder(_) => proj.push(s("unwrap_binder")),
            }
            cur = cur.projection_ty(self.tcx, e);
        }
        J::Obj(vec![("l", J::Num(p.local.as_u32() as i128)), ("p", J::Arr(proj))])
    }

    fn alloc_bytes(&self, alloc_id: rustc_middle::mir::interpret::AllocId) -> Option<(Vec<u8>, bool)> {
        match self.tcx.global_alloc(alloc_id) {
            GlobalAlloc::Memory(alloc) => {
                let a = alloc.inner();
                if a.len() > 1 << 16 {
                    return None;
                }
                let bytes = a.inspect_with_uninit_and_ptr_outside_interpreter(0..a.len()).to_vec();
                let has_ptr = !a.provenance().ptrs().is_empty();
                Some((bytes, has_ptr))
            }
            _ => None,
        }
    }

    fn const_value(&mut self, owner: DefId, val: ConstValue, t: Ty<'tcx>, o: &mut Vec<(&'static str, J)>) {
        match val {
            ConstValue::Scalar(Scalar::Int(i)) => {
                let size = i.size();
                let bits = i.to_bits(size);
                match t.kind() {
                    ty::Bool => o.push(("bool", J::Bool(bits != 0))),
                    ty::Char => o.push(("char", s(char::from_u32(bits as u32).map(|c| c.to_string()).unwrap_or_default()))),
                    ty::Int(_) => {
                        let sh = 128 - size.bits();
                        let v = ((bits as i128) << sh) >> sh;
                        o.push(("int", J::Num(v)));
                    }
                    ty::Uint(_) => {
                        if bits <= i128::MAX as u128 {
                            o.push(("int", J::Num(bits as i128)));
                        } else {
                            o.push(("uint_str", s(bits.to_string())));
                        }
                    }
                    ty::Float(ft) => {
                        let txt = match ft {
                            ty::FloatTy::F32 => format!("{:?}", f32::from_bits(bits as u32)),
                            ty::FloatTy::F64 => format!("{:?}", f64::from_bits(bits as u64)),
                            _ => format!("bits:{}", bits),
                        };
                        o.push(("float", s(txt)));
                    }
                    _ => o.push(("scalar", s(bits.to_string()))),
                }
            }
            ConstValue::Scalar(Scalar::Ptr(ptr, _)) => {
                let (prov, off) = ptr.prov_and_relative_offset();
                match self.tcx.global_alloc(prov.alloc_id()) {
                    GlobalAlloc::Memory(_) => {
                        if let Some((b, has_ptr)) = self.alloc_bytes(prov.alloc_id()) {
                            o.push(("mem", s(hex(&b))));
                            o.push(("off", J::Num(off.bytes() as i128)));
                            if has_ptr {
                                o.push(("mem_has_ptr", J::Bool(true)));
                            }
                        }
                    }
                    GlobalAlloc::Static(d) => o.push(("static", s(self.path(d)))),
                    GlobalAlloc::Function { instance } => {
                        let f = self.fn_ref(owner, instance.def_id(), instance.args);
                        o.push(("fnptr", f))
                    }
                    _ => o.push(("ptr", s("other"))),
                }
            }
            ConstValue::ZeroSized => {
                o.push(("zst", J::Bool(true)));
            }
            ConstValue::Slice { alloc_id, meta } => {
                if let Some((b, _)) = self.alloc_bytes(alloc_id) {
                    let n = (meta as usize).min(b.len());
                    let inner = match t.kind() {
                        ty::Ref(_, i, _) => Some(*i),
                        _ => None,
                    };
                    if inner.map(|i| i.is_str()).unwrap_or(false) {
                        o.push(("str", s(String::from_utf8_lossy(&b[..n]).to_string())));
                    } else {
                        o.push(("bytes", s(hex(&b[..n]))));
                    }
                }
            }
            ConstValue::Indirect { alloc_id, offset } => {
                if let Some((b, has_ptr)) = self.alloc_bytes(alloc_id) {
                    o.push(("mem", s(hex(&b))));
                    o.push(("off", J::Num(offset.bytes() as i128)));
                    if has_ptr {
                        o.push(("mem_has_ptr", J::Bool(true)));
                    }
                }
            }
        }
    }

    fn constant(&mut self, owner: DefId, c: &mir::ConstOperand<'tcx>) -> J {
        let t = c.const_.ty();
        let mut o: Vec<(&'static str, J)> = vec![];
        if let ty::FnDef(did, args) = *t.kind() {
            let f = self.fn_ref(owner, did, args);
            o.push(("fn", f));
            return J::Obj(vec![("c", J::Obj(o))]);
        }
        let tj = self.ty(t);
        o.push(("ty", tj));
        match c.const_ {
            mir::Const::Val(v, _) => self.const_value(owner, v, t, &mut o),
            mir::Const::Unevaluated(uv, _) => {
                if let Some(p) = uv.promoted {
                    o.push(("promoted", J::Num(p.as_u32() as i128)));
                } else {
                    o.push(("item", s(self.path(uv.def))));
                    o.push(("item_id", s(self.id(uv.def))));
                    let a = self.args(uv.args);
                    o.push(("item_args", a));
                    // try to evaluate when monomorphic
                    if uv.args.iter().all(|a| !matches!(a.kind(), GenericArgKind::Type(t) if t.has_param()))
                        && !matches!(self.tcx.def_kind(uv.def), DefKind::AnonConst | DefKind::InlineConst)
                    {
                        let env = ty::TypingEnv::post_analysis(self.tcx, owner);
                        let r = std::panic::catch_unwind(std::panic::AssertUnwindSafe(|| {
                            self.tcx.const_eval_resolve(env, uv, c.span)
                        }));
                        if let Ok(Ok(v)) = r {
                            self.const_value(owner, v, t, &mut o);
                        }
                    }
                }
            }
            mir::Const::Ty(_, ct) => {
                o.push(("tyconst", s(format!("{}", ct))));
                if !ct.has_param() {
                    let env = ty::TypingEnv::post_analysis(self.tcx, owner);
                    let r = std::panic::catch_unwind(std::panic::AssertUnwindSafe(|| {
                        c.const_.eval(self.tcx, env, c.span)
                    }));
                    if let Ok(Ok(v)) = r {
                        self.const_value(owner, v, t, &mut o);
                    }
                }
            }
        }
        J::Obj(vec![("c", J::Obj(o))])
    }

    fn operand(&mut self, owner: DefId, body: &Body<'tcx>, op: &Operand<'tcx>) -> J {
        match op {
            Operand::Copy(p) => J::Obj(vec![("cp", self.place(body, p))]),
            Operand::Move(p) => J::Obj(vec![("mv", self.place(body, p))]),
            Operand::Constant(c) => self.constant(owner, c),
            #[allow(unreachable_patterns)]
            _ => J::Obj(vec![("opother", s(format!("{:?}", op)))]),
        }
    }

    fn rvalue(&mut self, owner: DefId, body: &Body<'tcx>, rv: &Rvalue<'tcx>) -> J {
        match rv {
            Rvalue::Use(op, ..) => J::Obj(vec![("use", self.operand(owner, body, op))]),
            Rvalue::Repeat(op, n) => {
                J::Obj(vec![("repeat", self.operand(owner, body, op)), ("n", s(format!("{}", n)))])
            }
            Rvalue::Ref(_, bk, p) => {
                let m = matches!(bk, mir::BorrowKind::Mut { .. });
                J::Obj(vec![("ref", self.place(body, p)), ("mut", J::Bool(m))])
            }
            Rvalue::RawPtr(k, p) => {
                J::Obj(vec![("rawptr", self.place(body, p)), ("kind", s(format!("{:?}", k)))])
            }
            Rvalue::Cast(k, op, t) => {
                let tj = self.ty(*t);
                J::Obj(vec![
                    ("cast", self.operand(owner, body, op)),
                    ("kind", s(format!("{:?}", k))),
                    ("to", tj),
                ])
            }
            Rvalue::BinaryOp(op, b) => {
                let (a, c) = &**b;
                let opn = match op {
                    BinOp::Eq => "Eq",
                    BinOp::Ne => "Ne",
                    BinOp::Lt => "Lt",
                    BinOp::Le => "Le",
                    BinOp::Gt => "Gt",
                    BinOp::Ge => "Ge",
                    other => return J::Obj(vec![
                        ("bin", s(format!("{:?}", other))),
                        ("a", self.operand(owner, body, a)),
                        ("b", self.operand(owner, body, c)),
                        ("aty", { let t = a.ty(body, self.tcx); self.ty(t) }),
                    ]),
                };
                let aty = a.ty(body, self.tcx);
                J::Obj(vec![
                    ("bin", s(opn)),
                    ("a", self.operand(owner, body, a)),
                    ("b", self.operand(owner, body, c)),
                    ("aty", self.ty(aty)),
                ])
            }
            Rvalue::UnaryOp(op, a) => {
                J::Obj(vec![("un", s(format!("{:?}", op))), ("a", self.operand(owner, body, a))])
            }
            Rvalue::Discriminant(p) => J::Obj(vec![("discr", self.place(body, p))]),
            Rvalue::Aggregate(kind, ops) => {
                let opsj: Vec<J> = ops.iter().map(|o| self.operand(owner, body, o)).collect();
                match &**kind {
                    AggregateKind::Array(_) => J::Obj(vec![("agg", s("array")), ("ops", J::Arr(opsj))]),
                    AggregateKind::Tuple => J::Obj(vec![("agg", s("tuple")), ("ops", J::Arr(opsj))]),
                    AggregateKind::Adt(did, vi, args, _, _) => {
                        self.note_adt(*did);
                        let def = self.tcx.adt_def(*did);
                        let v = &def.variants()[*vi];
                        let a = self.args(args);
                        J::Obj(vec![
                            ("agg", s("adt")),
                            ("adt", s(self.path(*did))),
                            ("variant", s(v.name.as_str())),
                            ("vi", J::Num(vi.as_u32() as i128)),
                            ("args", a),
                            ("ops", J::Arr(opsj)),
                        ])
                    }
                    AggregateKind::Closure(did, _) | AggregateKind::CoroutineClosure(did, _) => {
                        J::Obj(vec![("agg", s("closure")), ("id", s(self.id(*did))), ("ops", J::Arr(opsj))])
                    }
                    AggregateKind::Coroutine(did, _) => {
                        J::Obj(vec![("agg", s("coroutine")), ("id", s(self.id(*did))), ("ops", J::Arr(opsj))])
                    }
                    AggregateKind::RawPtr(..) => J::Obj(vec![("agg", s("rawptr")), ("ops", J::Arr(opsj))]),
                }
            }
            Rvalue::CopyForDeref(p) => J::Obj(vec![("use", J::Obj(vec![("cp", self.place(body, p))]))]),
            Rvalue::ThreadLocalRef(d) => J::Obj(vec![("tls", s(self.path(*d)))]),
            other => J::Obj(vec![("rvother", s(format!("{:?}", other)))]),
        }
    }

    fn body(&mut self, owner: DefId, body: &Body<'tcx>) -> J {
        let mut blocks = vec![];
        for (_bb, data) in body.basic_blocks.iter_enumerated() {
            let mut stmts = vec![];
            for st in &data.statements {
                match &st.kind {
                    StatementKind::Assign(b) => {
                        let (place, rv) = &**b;
                        let (_, line, exp) = self.span(st.source_info.span);
                        let mut o = vec![
                            ("d", self.place(body, place)),
                            ("r", self.rvalue(owner, body, rv)),
                            ("ln", J::Num(line)),
                        ];
                        if let Some(e) = exp {
                            o.push(("x", s(e)));
                        }
                        stmts.push(J::Obj(o));
                    }
                    StatementKind::SetDiscriminant { place, variant_index } => {
                        stmts.push(J::Obj(vec![
                            ("setdiscr", self.place(body, place)),
                            ("vi", J::Num(variant_index.as_u32() as i128)),
                        ]));
                    }
                    StatementKind::Intrinsic(i) => {
                        stmts.push(J::Obj(vec![("intrinsic", s(format!("{:?}", i)))]));
                    }
                    _ => {}
                }
            }
            let term = data.terminator();
            let (_, line, exp) = self.span(term.source_info.span);
            let mut t: Vec<(&'static str, J)> = vec![];
            match &term.kind {
                TerminatorKind::Goto { target } => t.push(("goto", J::Num(target.as_u32() as i128))),
                TerminatorKind::FalseEdge { real_target, .. } => {
                    t.push(("goto", J::Num(real_target.as_u32() as i128)))
                }
                TerminatorKind::FalseUnwind { real_target, .. } => {
                    t.push(("goto", J::Num(real_target.as_u32() as i128)))
                }
                TerminatorKind::SwitchInt { discr, targets } => {
                    let d = self.operand(owner, body, discr);
                    let dty = discr.ty(body, self.tcx);
                    let tv: Vec<J> = targets
                        .iter()
                        .map(|(v, b)| J::Arr(vec![J::Num(v as i128), J::Num(b.as_u32() as i128)]))
                        .collect();
                    t.push(("switch", d));
                    t.push(("sty", self.ty(dty)));
                    t.push(("targets", J::Arr(tv)));
                    t.push(("otherwise", J::Num(targets.otherwise().as_u32() as i128)));
                }
                TerminatorKind::Return => t.push(("return", J::Null)),
                TerminatorKind::Unreachable => t.push(("unreachable", J::Null)),
                TerminatorKind::UnwindResume => t.push(("resume", J::Null)),
                TerminatorKind::UnwindTerminate(_) => t.push(("terminate", J::Null)),
                TerminatorKind::CoroutineDrop => t.push(("cordrop", J::Null)),
                TerminatorKind::Drop { place, target, .. } => {
                    t.push(("drop", self.place(body, place)));
                    t.push(("target", J::Num(target.as_u32() as i128)));
                }
                TerminatorKind::Call { func, args, destination, target, fn_span, .. } => {
                    let f = match func {
                        Operand::Constant(c) => match *c.const_.ty().kind() {
                            ty::FnDef(did, ga) => self.fn_ref(owner, did, ga),
                            _ => J::Obj(vec![("indirect", self.operand(owner, body, func))]),
                        },
                        _ => {
                            let fty = func.ty(body, self.tcx);
                            J::Obj(vec![("indirect", self.operand(owner, body, func)), ("fty", self.ty(fty))])
                        }
                    };
                    let av: Vec<J> = args.iter().map(|a| self.operand(owner, body, &a.node)).collect();
                    let atys: Vec<J> = args
                        .iter()
                        .map(|a| {
                            let t = a.node.ty(body, self.tcx);
                            self.ty(t)
                        })
                        .collect();
                    t.push(("call", f));
                    t.push(("args", J::Arr(av)));
                    t.push(("atys", J::Arr(atys)));
                    t.push(("dest", self.place(body, destination)));
                    t.push(("target", target.map(|b| J::Num(b.as_u32() as i128)).unwrap_or(J::Null)));
                    let (_, fl, _) = self.span(*fn_span);
                    t.push(("fln", J::Num(fl)));
                }
                TerminatorKind::TailCall { func, args, .. } => {
                    let f = self.operand(owner, body, func);
                    let av: Vec<J> = args.iter().map(|a| self.operand(owner, body, &a.node)).collect();
                    t.push(("tailcall", f));
                    t.push(("args", J::Arr(av)));
                }
                TerminatorKind::Assert { cond, expected, msg, target, .. } => {
                    let kind = match &**msg {
                        mir::AssertKind::BoundsCheck { .. } => "bounds".to_string(),
                        mir::AssertKind::Overflow(op, ..) => format!("overflow:{:?}", op),
                        mir::AssertKind::OverflowNeg(_) => "overflow:Neg".to_string(),
                        mir::AssertKind::DivisionByZero(_) => "div0".to_string(),
                        mir::AssertKind::RemainderByZero(_) => "rem0".to_string(),
                        other => format!("other:{:?}", std::mem::discriminant(other)),
                    };
                    t.push(("assert", self.operand(owner, body, cond)));
                    t.push(("expected", J::Bool(*expected)));
                    t.push(("kind", s(kind)));
                    t.push(("target", J::Num(target.as_u32() as i128)));
                }
                TerminatorKind::Yield { value, resume, .. } => {
                    t.push(("yield", self.operand(owner, body, value)));
                    t.push(("target", J::Num(resume.as_u32() as i128)));
                }
                TerminatorKind::InlineAsm { .. } => t.push(("asm", J::Null)),
            }
            t.push(("ln", J::Num(line)));
            if let Some(e) = exp {
                t.push(("x", s(e)));
            }
            let mut b = vec![("s", J::Arr(stmts)), ("t", J::Obj(t))];
            if data.is_cleanup {
                b.push(("cleanup", J::Bool(true)));
            }
            blocks.push(J::Obj(b));
        }
        J::Arr(blocks)
    }

    fn locals(&mut self, body: &Body<'tcx>) -> J {
        let mut names: BTreeMap<u32, String> = BTreeMap::new();
        for v in &body.var_debug_info {
            if let mir::VarDebugInfoContents::Place(p) = &v.value {
                if p.projection.is_empty() {
                    names.entry(p.local.as_u32()).or_insert_with(|| v.name.to_string());
                }
            }
        }
        let mut out = vec![];
        for (l, d) in body.local_decls.iter_enumerated() {
            let tj = self.ty(d.ty);
            let mut o = vec![("ty", tj)];
            if let Some(n) = names.get(&l.as_u32()) {
                o.push(("n", s(n.clone())));
            }
            out.push(J::Obj(o));
        }
        J::Arr(out)
    }

    fn upvar_names(&self, body: &Body<'tcx>) -> J {
        // debug names of captured variables: `_1.k` (closures) or `(*_1).k`
        let mut m: BTreeMap<String, J> = BTreeMap::new();
        for v in &body.var_debug_info {
            if let mir::VarDebugInfoContents::Place(p) = &v.value {
                if p.local.as_u32() == 1 {
                    for e in p.projection.iter() {
                        if let ProjectionElem::Field(f, _) = e {
                            m.entry(f.as_u32().to_string()).or_insert_with(|| s(v.name.as_str()));
                            break;
                        }
                    }
                }
            }
        }
        J::Map(m)
    }
}

struct Cb;

fn vis_str<'tcx>(tcx: TyCtxt<'tcx>, did: DefId) -> &'static str {
    match tcx.def_kind(did) {
        DefKind::Fn | DefKind::AssocFn | DefKind::Struct | DefKind::Enum | DefKind::Const { .. } | DefKind::Static { .. } => {
            match tcx.visibility(did) {
                ty::Visibility::Public => "pub",
                ty::Visibility::Restricted(m) => {
                    if m.is_crate_root() {
                        "crate"
                    } else {
                        "priv"
                    }
                }
            }
        }
        _ => "na",
    }
}

fn impl_header<'tcx>(cx: &mut Cx<'tcx>, impl_did: DefId) -> J {
    let tcx = cx.tcx;
    let mut o: Vec<(&'static str, J)> = vec![];
    o.push(("id", s(cx.id(impl_did))));
    if let DefKind::Impl { of_trait: true } = tcx.def_kind(impl_did) {
        let tr = tcx.impl_trait_ref(impl_did).skip_binder();
        o.push(("trait", s(cx.path(tr.def_id))));
        let ta = cx.args(tr.args);
        o.push(("trait_args", ta));
    }
    let st = tcx.type_of(impl_did).instantiate_identity().skip_norm_wip();
    let stj = cx.ty(st);
    o.push(("self_ty", stj));
    J::Obj(o)
}

impl rustc_driver::Callbacks for Cb {
    fn after_expansion<'tcx>(&mut self, _c: &rustc_interface::interface::Compiler, tcx: TyCtxt<'tcx>) -> Compilation {
        with_resolve_crate_name!(with_no_trimmed_paths!(with_no_visible_paths!(extract(tcx))))
    }
}

fn extract<'tcx>(tcx: TyCtxt<'tcx>) -> Compilation {
    {
        let out_dir = match std::env::var("MIRFACTS_OUT") {
            Ok(d) => d,
            Err(_) => return Compilation::Continue,
        };
        let krate = tcx.crate_name(LOCAL_CRATE).to_string();
        let argv: Vec<String> = std::env::args().collect();
        let mut cx = Cx {
            tcx,
            adts: BTreeMap::new(),
            adt_seen: HashSet::new(),
            adt_queue: vec![],
            sigs: BTreeMap::new(),
            sig_seen: HashSet::new(),
            cur_depth: 0,
        };

        // ---- bodies
        let mut bodies = vec![];
        // constants first: evaluating a constant (done while dumping function bodies) steals its MIR
        let mut owners: Vec<_> = tcx.hir_body_owners().collect();
        owners.sort_by_key(|d| !matches!(tcx.def_kind(d.to_def_id()), DefKind::Const { .. } | DefKind::Static { .. } | DefKind::AssocConst { .. }));
        for def in owners {
            let did = def.to_def_id();
            let kind = tcx.def_kind(did);
            if !matches!(kind, DefKind::Fn | DefKind::AssocFn | DefKind::Closure | DefKind::Const { .. } | DefKind::Static { .. } | DefKind::AssocConst { .. }) {
                continue;
            }
            let (body, promoted) = tcx.mir_promoted(def);
            if body.is_stolen() || promoted.is_stolen() {
                continue;
            }
            let body = body.borrow();
            let promoted = promoted.borrow();
            let mut o: Vec<(&'static str, J)> = vec![];
            o.push(("id", s(cx.id(did))));
            o.push(("path", s(cx.path(did))));
            o.push(("name", s(tcx.opt_item_name(did).map(|n| n.to_string()).unwrap_or_default())));
            let k = match kind {
                DefKind::Fn => "fn",
                DefKind::AssocFn => "assoc_fn",
                DefKind::Const { .. } | DefKind::AssocConst { .. } => "const",
                DefKind::Static { .. } => "static",
                _ => {
                    if body.coroutine.is_some() {
                        "coroutine"
                    } else {
                        "closure"
                    }
                }
            };
            o.push(("kind", s(k)));
            let root = tcx.typeck_root_def_id(did);
            if root != did {
                o.push(("root", s(cx.id(root))));
                o.push(("parent", s(cx.id(tcx.parent(did)))));
                o.push(("upvars", cx.upvar_names(&body)));
            }
            if kind == DefKind::AssocFn {
                let parent = tcx.parent(did);
                match tcx.def_kind(parent) {
                    DefKind::Impl { .. } => o.push(("impl", impl_header(&mut cx, parent))),
                    DefKind::Trait => o.push(("in_trait", s(cx.path(parent)))),
                    _ => {}
                }
            }
            if matches!(kind, DefKind::Fn | DefKind::AssocFn) {
                o.push(("vis", s(vis_str(tcx, did))));
                let sig = tcx.fn_sig(did).instantiate_identity().skip_norm_wip().skip_binder();
                o.push(("unsafe", J::Bool(!sig.safety().is_safe())));
                let generics = tcx.generics_of(did);
                let mut names = vec![];
                for i in 0..generics.count() {
                    let p = generics.param_at(i, tcx);
                    if !matches!(p.kind, ty::GenericParamDefKind::Lifetime) {
                        names.push(s(p.name.as_str()));
                    }
                }
                o.push(("generics", J::Arr(names)));
            }
            let (file, line, exp) = cx.span(body.span);
            o.push(("file", s(file)));
            o.push(("line", J::Num(line)));
            if let Some(e) = exp {
                o.push(("x", s(e)));
            }
            o.push(("argc", J::Num(body.arg_count as i128)));
            o.push(("locals", cx.locals(&body)));
            o.push(("blocks", cx.body(did, &body)));
            let mut pv = vec![];
            for pb in promoted.iter() {
                pv.push(J::Obj(vec![("locals", cx.locals(pb)), ("blocks", cx.body(did, pb))]));
            }
            if !pv.is_empty() {
                o.push(("promoted", J::Arr(pv)));
            }
            bodies.push(J::Obj(o));
        }

        // ---- impls, local adts, consts, statics
        let mut impls = vec![];
        let mut consts = vec![];
        let mut fns_no_body = vec![];
        for ldid in tcx.hir_crate_items(()).definitions() {
            let did = ldid.to_def_id();
            match tcx.def_kind(did) {
                DefKind::Struct | DefKind::Enum | DefKind::Union => cx.note_adt(did),
                DefKind::Impl { of_trait } => {
                    let mut o: Vec<(&'static str, J)> = vec![];
                    if let J::Obj(h) = impl_header(&mut cx, did) {
                        o.extend(h);
                    }
                    let mut items = BTreeMap::new();
                    let mut assoc_tys = BTreeMap::new();
                    for it in tcx.associated_items(did).in_definition_order() {
                        match it.kind {
                            ty::AssocKind::Fn { .. } => {
                                items.insert(it.opt_name().map(|n| n.to_string()).unwrap_or_else(|| "<rpitit>".to_string()), s(cx.id(it.def_id)));
                            }
                            ty::AssocKind::Type { .. } => {
                                let t = tcx.type_of(it.def_id).instantiate_identity().skip_norm_wip();
                                let tj = cx.ty(t);
                                assoc_tys.insert(it.opt_name().map(|n| n.to_string()).unwrap_or_else(|| "<rpitit>".to_string()), tj);
                            }
                            ty::AssocKind::Const { .. } => {
                                items.insert(format!("const {}", it.opt_name().map(|n| n.to_string()).unwrap_or_default()), s(cx.id(it.def_id)));
                            }
                        }
                    }
                    o.push(("items", J::Map(items)));
                    o.push(("assoc_tys", J::Map(assoc_tys)));
                    if of_trait {
                        let tr = tcx.impl_trait_ref(did).skip_binder();
                        let implemented: Vec<DefId> = tcx
                            .associated_items(did)
                            .in_definition_order()
                            .filter_map(|i| i.trait_item_def_id())
                            .collect();
                        let missing: Vec<J> = tcx
                            .associated_items(tr.def_id)
                            .in_definition_order()
                            .filter(|i| {
                                matches!(i.kind, ty::AssocKind::Fn { .. })
                                    && i.defaultness(tcx).has_value()
                                    && !implemented.contains(&i.def_id)
                            })
                            .map(|i| s(i.opt_name().map(|n| n.to_string()).unwrap_or_default()))
                            .collect();
                        o.push(("not_overridden", J::Arr(missing)));
                    }
                    let generics: Vec<J> = tcx
                        .generics_of(did)
                        .own_params
                        .iter()
                        .filter(|p| matches!(p.kind, ty::GenericParamDefKind::Type { .. }))
                        .map(|p| s(p.name.as_str()))
                        .collect();
                    o.push(("generics", J::Arr(generics)));
                    cx.note_sig(did);
                    let (file, line, exp) = cx.span(tcx.def_span(did));
                    o.push(("file", s(file)));
                    o.push(("line", J::Num(line)));
                    if let Some(e) = exp {
                        o.push(("x", s(e)));
                    }
                    impls.push(J::Obj(o));
                }
                DefKind::Static { .. } => {
                    let mut o: Vec<(&'static str, J)> = vec![("id", s(cx.id(did))), ("path", s(cx.path(did))), ("kind", s("static"))];
                    let t = tcx.type_of(did).instantiate_identity().skip_norm_wip();
                    o.push(("ty", cx.ty(t)));
                    if let Ok(alloc) = tcx.eval_static_initializer(did) {
                        let a = alloc.inner();
                        if a.len() <= 1 << 16 {
                            let bytes = a.inspect_with_uninit_and_ptr_outside_interpreter(0..a.len());
                            o.push(("mem", s(hex(bytes))));
                            if !a.provenance().ptrs().is_empty() {
                                o.push(("mem_has_ptr", J::Bool(true)));
                            }
                        }
                    }
                    consts.push(J::Obj(o));
                }
                DefKind::Const { .. } | DefKind::AssocConst { .. } => {
                    let generics = tcx.generics_of(did);
                    if generics.count() > 0 {
                        continue;
                    }
                    if matches!(tcx.def_kind(tcx.parent(did)), DefKind::Trait) {
                        continue;
                    }
                    let mut o: Vec<(&'static str, J)> = vec![("id", s(cx.id(did))), ("path", s(cx.path(did))), ("kind", s("const"))];
                    let t = tcx.type_of(did).instantiate_identity().skip_norm_wip();
                    o.push(("ty", cx.ty(t)));
                    let r = std::panic::catch_unwind(std::panic::AssertUnwindSafe(|| tcx.const_eval_poly(did)));
                    if let Ok(Ok(v)) = r {
                        cx.const_value(did, v, t, &mut o);
                    }
                    consts.push(J::Obj(o));
                }
                DefKind::Fn | DefKind::AssocFn => {
                    // trait methods without body / with default body are interesting for surfaces
                    if tcx.hir_maybe_body_owned_by(ldid).is_none() {
                        fns_no_body.push(s(cx.id(did)));
                    }
                }
                DefKind::Trait => {
                    // trait declaration: items and which have defaults
                    let mut items = BTreeMap::new();
                    for it in tcx.associated_items(did).in_definition_order() {
                        if matches!(it.kind, ty::AssocKind::Fn { .. }) {
                            items.insert(it.opt_name().map(|n| n.to_string()).unwrap_or_else(|| "<rpitit>".to_string()), J::Bool(it.defaultness(tcx).has_value()));
                        }
                    }
                    impls.push(J::Obj(vec![("trait_decl", s(cx.path(did))), ("id", s(cx.id(did))), ("methods", J::Map(items))]));
                }
                _ => {}
            }
        }
        cx.drain_adts();
        // ADT discovery inside drain may enqueue more
        while !cx.adt_queue.is_empty() {
            cx.drain_adts();
        }

        // ---- reserved words (for the identifier-escape rule)
        let mut reserved = BTreeMap::new();
        {
            use rustc_span::edition::Edition;
            for (name, ed) in [
                ("2015", Edition::Edition2015),
                ("2018", Edition::Edition2018),
                ("2021", Edition::Edition2021),
                ("2024", Edition::Edition2024),
            ] {
                let mut kws = vec![];
                for i in 0..300u32 {
                    let sym = rustc_span::Symbol::new(i);
                    if sym.is_reserved(|| ed) {
                        kws.push(s(sym.as_str()));
                    }
                }
                reserved.insert(name.to_string(), J::Arr(kws));
            }
        }

        let mut cfgs = vec![];
        let mut crate_types = vec![];
        let mut is_test = false;
        let mut metadata = String::new();
        let mut i = 0;
        while i < argv.len() {
            if argv[i] == "--cfg" && i + 1 < argv.len() {
                cfgs.push(s(argv[i + 1].clone()));
            }
            if argv[i] == "--crate-type" && i + 1 < argv.len() {
                crate_types.push(s(argv[i + 1].clone()));
            }
            if argv[i] == "--test" {
                is_test = true;
            }
            if argv[i] == "-C" && i + 1 < argv.len() && argv[i + 1].starts_with("metadata=") {
                metadata = argv[i + 1]["metadata=".len()..].to_string();
            }
            if argv[i].starts_with("-Cmetadata=") {
                metadata = argv[i]["-Cmetadata=".len()..].to_string();
            }
            i += 1;
        }
        let src_root = argv.iter().find(|a| a.ends_with(".rs")).cloned().unwrap_or_default();
        let doc = J::Obj(vec![
            ("crate", s(krate.clone())),
            ("src_root", s(src_root)),
            ("cfgs", J::Arr(cfgs)),
            ("crate_types", J::Arr(crate_types)),
            ("is_test", J::Bool(is_test)),
            ("debug_assertions", J::Bool(tcx.sess.opts.debug_assertions)),
            ("edition", s(format!("{}", tcx.sess.edition()))),
            ("bodies", J::Arr(bodies)),
            ("impls", J::Arr(impls)),
            ("adts", J::Map(std::mem::take(&mut cx.adts))),
            ("consts", J::Arr(consts)),
            ("sigs", J::Map(std::mem::take(&mut cx.sigs))),
            ("fns_no_body", J::Arr(fns_no_body)),
            ("reserved_words", J::Map(reserved)),
        ]);
        let mut out = String::new();
        doc.write(&mut out);
        let fname = format!("{}/{}-{}{}.json", out_dir, krate, metadata, if is_test { "-test" } else { "" });
        let tmp = format!("{}.tmp{}", fname, std::process::id());
        std::fs::write(&tmp, out).expect("write facts");
        std::fs::rename(&tmp, &fname).expect("rename facts");
        Compilation::Continue
    }
}

fn main() {
    let mut args: Vec<String> = std::env::args().collect();
    // invoked as RUSTC_WORKSPACE_WRAPPER: argv[1] is the real rustc path
    if args.len() > 1 && (args[1].ends_with("rustc") || args[1].contains("/rustc")) {
        args.remove(1);
    }
    rustc_driver::run_compiler(&args, &mut Cb);
}
