"""Decision-table helpers: describe what a switch tests, which branch outcomes a block is
control-dependent on, and path-insensitive 'leaf under condition' tables."""
from .facts import op_place, place_local, place_proj, const_value, tystr
from .cfg import CFG, Tracer, thaw


def single_def(body, local):
    ds = body.defs().get(local, [])
    if len(ds) == 1 and not (1 <= local <= body.argc):
        return ds[0]
    return None


def resolve_copy(body, op, depth=0):
    """follow plain copies/moves of temporaries back to the defining statement/terminator.
    returns ('const', c) | ('def', (bb, j, s)) | ('place', place)"""
    c = op.get("c")
    if c is not None:
        return ("const", c)
    p = op_place(op)
    if p is None:
        return ("unknown", op)
    if place_proj(p):
        return ("place", p)
    l = place_local(p)
    d = single_def(body, l)
    if d is None or depth > 30:
        return ("place", p)
    bb, j, s = d
    if j != "T" and "use" in s["r"]:
        return resolve_copy(body, s["r"]["use"], depth + 1)
    if j != "T" and "ref" in s["r"] and not isinstance(s["r"]["ref"], int) and s["r"]["ref"]["p"] == ["*"]:
        # reborrow  &(*_x)  ==  _x
        return resolve_copy(body, {"cp": s["r"]["ref"]["l"]}, depth + 1)
    return ("def", d)


def switch_atom(body, bb):
    """what the switch at bb tests:
       ('call', term, bb)        switch on the (bool/int) result of a call
       ('bin', op, a, b, bb)     switch on a comparison
       ('discr', place, bb)      switch on an enum discriminant
       ('place', place, bb) / ('const', c, bb)"""
    t = body.blocks[bb]["t"]
    r = resolve_copy(body, t["switch"])
    if r[0] == "def":
        dbb, j, s = r[1]
        if j == "T":
            return ("call", s, dbb)
        rv = s["r"]
        if "bin" in rv:
            return ("bin", rv["bin"], rv["a"], rv["b"], dbb)
        if "discr" in rv:
            return ("discr", rv["discr"], dbb)
        if "un" in rv and rv["un"] == "Not":
            return ("not", rv["a"], dbb)
        return ("expr", rv, dbb)
    return (r[0], r[1], bb)


def edge_conditions(cfg, b):
    """[(switch_bb, allowed_values(set, None = otherwise), all_values)] — branch outcomes that are
    necessary for reaching block b"""
    body = cfg.body
    out = []
    for s in range(cfg.n):
        if s == b or s not in cfg.reach:
            continue
        t = body.blocks[s]["t"]
        if "switch" not in t:
            continue
        if not cfg.dominates(s, b):
            continue
        edges = [(v, tg) for v, tg in t["targets"]] + [(None, t["otherwise"])]
        allowed = set()
        for v, tg in edges:
            if tg == b or b in cfg.reachable_from(tg, avoid={s}):
                allowed.add(v)
        allv = {v for v, _ in edges}
        if allowed != allv:
            out.append((s, allowed, allv))
    return out


def bool_polarity(allowed):
    """for a bool switch (targets [0->x], otherwise y): True / False / None"""
    if allowed == {0}:
        return False
    if allowed == {None} or allowed == {1}:
        return True
    return None


def variant_names(facts, ty):
    """variant index -> name for an ADT type (by definition order)"""
    t = ty
    while t and "ref" in t:
        t = t["ref"]
    if not t or "adt" not in t:
        return None
    std = {"core::option::Option": ["None", "Some"], "core::result::Result": ["Ok", "Err"],
           "core::ops::control_flow::ControlFlow": ["Continue", "Break"], "core::task::poll::Poll": ["Ready", "Pending"]}
    if t["adt"] in std:
        return std[t["adt"]]
    a = facts.adt(t["adt"])
    if a:
        return [v["name"] for v in a["variants"]]
    return None


def place_ty(body, facts, p):
    """type of a place (follows field projections through known ADTs / tuples)"""
    if isinstance(p, int):
        return body.local_ty(p)
    t = body.local_ty(p["l"])
    variant = None
    for e in p["p"]:
        if e == "*":
            t = t.get("ref") or t.get("ptr") or t
            if t and "adt" in t and t["adt"] == "alloc::boxed::Box" and False:
                pass
        elif isinstance(e, dict) and "dc" in e:
            variant = e["dc"]
        elif isinstance(e, dict) and "f" in e:
            if t and "tuple" in t:
                t = t["tuple"][e["f"]]
            elif t and "adt" in t:
                a = facts.adt(t["adt"])
                if a is None:
                    return None
                v = a["variants"][variant or 0]
                fty = v["fields"][e["f"]]["ty"]
                t = subst(fty, dict(zip(a.get("generics", []), [x for x in t.get("args", []) if "const" not in x or True])))
                variant = None
            else:
                return None
        else:
            return None
    return t


def subst(t, m):
    if not isinstance(t, dict):
        return t
    if "param" in t and t["param"] in m:
        return m[t["param"]]
    out = {}
    for k, v in t.items():
        if isinstance(v, dict):
            out[k] = subst(v, m)
        elif isinstance(v, list):
            out[k] = [subst(x, m) for x in v]
        else:
            out[k] = v
    return out


def call_name(term):
    return term["call"].get("name", "")


def call_def(term):
    return term["call"].get("def", "")


def call_trait(term):
    return term["call"].get("trait")


def is_call_to(term, *defs):
    return "call" in term and term["call"].get("def") in defs


def resolve_const(body, op, depth=0):
    """constant behind an operand, also through `&local` and promoted references"""
    r = resolve_copy(body, op)
    if r[0] == "const":
        c = r[1]
        if "promoted" in c:
            pc = promoted_const(body, c["promoted"])
            return pc if pc is not None else c
        return c
    if r[0] == "def" and r[1][1] != "T" and depth < 6:
        rv = r[1][2]["r"]
        if "ref" in rv and isinstance(rv["ref"], int):
            return resolve_const(body, {"cp": rv["ref"]}, depth + 1)
    return None


def promoted_const(body, k):
    """the constant a promoted body evaluates to when it is just `&CONST` / `CONST`"""
    ps = body.d.get("promoted", [])
    if k >= len(ps):
        return None
    found = None
    for b in ps[k]["blocks"]:
        for s in b["s"]:
            if "d" in s and "use" in s["r"] and "c" in s["r"]["use"]:
                found = s["r"]["use"]["c"]
    return found


def str_eq_const(body, term):
    """if term is PartialEq::eq::<str,str>(x, const) (either order) return (other_operand, const_str)"""
    f = term["call"]
    if f.get("def") not in ("core::cmp::PartialEq::eq", "core::cmp::PartialEq::ne"):
        return None
    a, b = term["args"][0], term["args"][1]
    for x, y in ((a, b), (b, a)):
        c = resolve_const(body, y)
        if c is not None and "str" in c:
            return (x, c["str"])
    return None


# ------------------------------------------------------------------ success of fallible calls
SUCCESS_TRANSPARENT = {"core::result::Result::<T, E>::map_err", "core::option::Option::<T>::ok_or_else",
                       "core::option::Option::<T>::ok_or", "core::result::Result::<T, E>::map",
                       "core::option::Option::<T>::map"}
TRY_BRANCH = "core::ops::try_trait::Try::branch"
AWAIT_TRANSPARENT = {"core::future::into_future::IntoFuture::into_future", "core::pin::Pin::<Ptr>::new_unchecked",
                     "core::future::future::Future::poll", "core::pin::Pin::<Ptr>::new"}


def value_tracer(body, **kw):
    """Tracer that also sees through the `.await` scaffolding and `?`"""
    return Tracer(body, transparent=set(Tracer.TRANSPARENT) | AWAIT_TRANSPARENT | {TRY_BRANCH} | SUCCESS_TRANSPARENT
                  | {"core::option::Option::<core::result::Result<T, E>>::transpose"}, **kw)


def derives_from_call(body, op, call_bb, tr=None):
    """the operand's value is (a projection of) the result of the call at call_bb"""
    tr = tr or value_tracer(body)
    for s in tr.sources(op):
        while s[0] == "field":
            s = s[1]
        if s == ("call", call_bb):
            return True
    return False


def uses_of_local(body, local):
    """[(bb, 'T'|j, item)] statements/terminators that read the local (as a whole place)"""
    out = []
    for i, b in enumerate(body.blocks):
        if b.get("cleanup"):
            continue
        for j, s in enumerate(b["s"]):
            if "d" in s and _rv_reads(s["r"], local):
                out.append((i, j, s))
        t = b["t"]
        if "call" in t:
            if any(_op_reads(a, local) for a in t["args"]):
                out.append((i, "T", t))
        elif "switch" in t and _op_reads(t["switch"], local):
            out.append((i, "T", t))
    return out


def _op_reads(op, local):
    p = op_place(op)
    return p is not None and place_local(p) == local


def _rv_reads(r, local):
    for k in ("use", "cast", "a", "b", "repeat"):
        if k in r and isinstance(r[k], dict) and _op_reads(r[k], local):
            return True
    for k in ("ref", "discr", "rawptr"):
        if k in r and place_local(r[k]) == local:
            return True
    if "ops" in r:
        return any(_op_reads(o, local) for o in r["ops"])
    return False


def success_edges(body, facts, local, depth=0):
    """edges (switch_bb, value) that mean 'the Result/Option/ControlFlow held in `local` is the
    success variant (Ok / Some / Continue)'.  Follows moves, `?` (Try::branch), map_err & co."""
    out = []
    if depth > 14:
        return out
    ty = body.local_ty(local)
    names = variant_names(facts, ty)
    good = {"Ok", "Some", "Continue"}
    for bb, j, item in uses_of_local(body, local):
        if j == "T":
            if "call" in item:
                d = item["call"].get("def")
                if d == TRY_BRANCH or d in SUCCESS_TRANSPARENT or d in AWAIT_TRANSPARENT:
                    out += success_edges(body, facts, place_local(item["dest"]), depth + 1)
            continue
        r = item["r"]
        dst = place_local(item["d"])
        if "discr" in r and not place_proj(r["discr"]) and names:
            # find switches on dst
            for sbb, sj, sitem in uses_of_local(body, dst):
                if sj == "T" and "switch" in sitem:
                    for v, tg in sitem["targets"]:
                        if v < len(names) and names[v] in good:
                            out.append((sbb, v))
                    # otherwise-edge is success when all listed values are failures
                    listed = {v for v, _ in sitem["targets"]}
                    succ_idx = [k for k, n in enumerate(names) if n in good]
                    if succ_idx and all(k not in listed for k in succ_idx) and len(listed) == len(names) - 1:
                        out.append((sbb, None))
        elif "use" in r and not place_proj(item["d"]) and op_place(r["use"]) is not None and not place_proj(op_place(r["use"])):
            out += success_edges(body, facts, dst, depth + 1)
        elif "use" in r and not place_proj(item["d"]) and op_place(r["use"]) is not None and names and "Ready" in names \
                and any(isinstance(e, dict) and e.get("n") == "Ready" for e in place_proj(op_place(r["use"]))):
            # payload of Poll::Ready after an `.await`
            out += success_edges(body, facts, dst, depth + 1)
        elif "ref" in r and not place_proj(item["d"]) and (isinstance(r["ref"], int) or r["ref"]["p"] == ["*"]):
            out += success_edges(body, facts, dst, depth + 1)
    return out


def dominated_by_success(cfg, facts, call_bb, target_bb):
    """target_bb is only reachable when the call at call_bb returned its success variant"""
    body = cfg.body
    t = body.blocks[call_bb]["t"]
    local = place_local(t["dest"])
    for sbb, v in success_edges(body, facts, local):
        sw = body.blocks[sbb]["t"]
        edges = [(val, tg) for val, tg in sw["targets"]] + [(None, sw["otherwise"])]
        for val, tg in edges:
            if val == v and cfg.edge_dominates(sbb, tg, target_bb):
                return True
    return False


def return_aliases(body):
    """locals whose value reaches the return place _0 through whole-value moves only (the return slots of inlined helpers,
    temporaries): {local}"""
    out = {0}
    changed = True
    while changed:
        changed = False
        for bb, j, s in body.stmts():
            if place_local(s["d"]) in out and not place_proj(s["d"]) and "use" in s["r"]:
                p = op_place(s["r"]["use"])
                if p is not None and not place_proj(p) and place_local(p) not in out:
                    out.add(place_local(p))
                    changed = True
    return out


def ok_return_blocks(body):
    """blocks that build the function's Ok(..)/Some(..) return value: Aggregate(Result::Ok) into _0 (or into a local that is
    moved into _0, as after inlining a helper that produces the result)"""
    out = []
    rets = return_aliases(body)
    for bb, j, s in body.stmts():
        r = s["r"]
        if place_local(s["d"]) in rets and not place_proj(s["d"]) and r.get("agg") == "adt" and r.get("variant") in ("Ok", "Some"):
            out.append((bb, j, s))
    return out


def allowed_variants(allowed, allv, names):
    """variant names selected by a set of switch edges (None = the otherwise edge = every unlisted variant)"""
    listed = {v for v in allv if v is not None}
    out = set()
    for v in allowed:
        if v is None:
            out |= {n for k, n in enumerate(names) if k not in listed}
        elif v < len(names):
            out.add(names[v])
    return out


def transforming_calls(body, op, tr=None, depth=0, seen=None):
    """Names of the calls a value passes through between its roots (parameters / call results that are not looked through)
    and `op`, other than the value-transparent ones (references, deref/as_ref/borrow, clone, `?`, `.await`, map_err ...).
    Returns (root_locals, [call terminators]) — an empty list means the value reaches `op` unmodified."""
    tr = tr or value_tracer(body)
    seen = seen if seen is not None else set()
    roots, calls = set(), []
    for s in tr.sources(op):
        while s[0] == "field":
            s = s[1]
        if s[0] == "arg":
            roots.add(s[1])
        elif s[0] == "call":
            if s[1] in seen or depth > 12:
                continue
            seen.add(s[1])
            t = body.blocks[s[1]]["t"]
            calls.append(t)
    return roots, calls


def _locals_read(o, out):
    """every local read by an operand / rvalue / place fact (projection index locals included)"""
    if isinstance(o, dict):
        for k, v in o.items():
            if k in ("cp", "mv", "ref", "rawptr", "discr", "drop", "len"):
                if isinstance(v, int) and not isinstance(v, bool):
                    out.add(v)
                elif isinstance(v, dict) and "l" in v:
                    out.add(v["l"])
                    for e in v.get("p", []):
                        if isinstance(e, dict) and "idx" in e:
                            out.add(e["idx"])
                else:
                    _locals_read(v, out)
            elif k in ("c", "ty", "call", "atys", "sty"):
                continue
            else:
                _locals_read(v, out)
    elif isinstance(o, list):
        for v in o:
            _locals_read(v, out)


def live_in(body):
    """classic backward liveness over the body's blocks: {block index: set of locals live on entry}"""
    n = len(body.blocks)
    use, dfn = [set() for _ in range(n)], [set() for _ in range(n)]
    for i, blk in enumerate(body.blocks):
        u, d_ = set(), set()

        def read(o):
            r = set()
            _locals_read(o, r)
            for l in r:
                if l not in d_:
                    u.add(l)
        for s in blk["s"]:
            if "d" not in s:
                continue
            read(s["r"])
            if isinstance(s["d"], int):
                d_.add(s["d"])
            elif not [e for e in s["d"]["p"]]:
                d_.add(s["d"]["l"])
            else:
                read({"cp": s["d"]})
        t = blk["t"]
        read({k: v for k, v in t.items() if k in ("args", "switch", "assert", "drop", "yield")})
        if "call" in t and t.get("dest") is not None:
            if isinstance(t["dest"], int):
                d_.add(t["dest"])
            elif not t["dest"]["p"]:
                d_.add(t["dest"]["l"])
            else:
                read({"cp": t["dest"]})
        if "return" in t:
            if 0 not in d_:
                u.add(0)
        use[i], dfn[i] = u, d_
    live = [set() for _ in range(n)]
    changed = True
    while changed:
        changed = False
        for i in range(n - 1, -1, -1):
            out = set()
            for s_ in body.succ(i):
                out |= live[s_]
            new = use[i] | (out - dfn[i])
            if new != live[i]:
                live[i] = new
                changed = True
    return {i: live[i] for i in range(n)}
