"""C05 — servers reject / clients ignore unknown object fields at every nesting depth."""
from ..facts import ty_adt, tystr, walk_ty, place_local, place_proj, op_place, strip_refs
from ..cfg import CFG, Tracer, thaw
from .. import serdewrap as sw
from .. import dt
from . import c01

DE_BEH = c01.DE_BEH

EXPLANATION = (
    "Decides that the strict unknown-fields behaviour is carried into every container path (R1.2 re-wrap discipline of "
    "de::Override over all serde de traits, 51 carrier slots), that the server entry types (JSON, Smile) bind "
    "UnknownFieldsBehavior<client behaviour> to every Deserializer method and the client ones do not (R1.3), that the "
    "behaviour's KeyBehavior stays strict and all non-struct methods forward to the inner behaviour (R5.1), that the "
    "interception chain deserialize_struct -> struct visitor -> map access -> key-recording seed / value seed -> "
    "terminal deserializer is wired through the right types (R5.2, by callee type arguments), that the terminal "
    "deserialize_ignored_any never drives the underlying deserializer and always returns Error::unknown_field(recorded "
    "key, declared fields) (R5.3), that all three string entry points of the key visitor record the key before "
    "forwarding, and that client behaviours do not intercept structs (R5.4). NOT decided: that serde-derive asks for "
    "deserialize_ignored_any on an unknown key (documented derive behaviour).")


def local_adts(ty, crate):
    return [n["adt"] for n in walk_ty(ty) if "adt" in n and n["adt"].startswith(crate.name + "::")]


def handoff(ctx, c, body, name, rule, what):
    """the unique serde/local-trait hand-off call named `name` in body; returns term or None"""
    hs = []
    for b in [body] + c.closures_of(body):
        for bb, t in b.calls():
            tr = t["call"].get("trait") or ""
            if t["call"]["name"] == name and (tr.startswith(sw.DE) or tr.startswith(c.name + "::de::")):
                hs.append(t)
    if len(hs) != 1:
        ctx.violation(rule, body.loc(), f"{what}|handoff|{name}", f"{what}: expected exactly one hand-off call `{name}`, found {len(hs)}")
        return None
    return hs[0]


def method_of(c, adt, name):
    ms = c01.visitor_methods(c, adt, name)
    return ms[0] if len(ms) == 1 else None


def src_fields(src, acc=None):
    """name of the self field a source descriptor is projected from (innermost field projection)"""
    acc = acc if acc is not None else set()
    inner = None
    while src[0] == "field":
        inner = src
        src = src[1]
    if inner is not None:
        proj = thaw(inner[2]) if not isinstance(inner[2], list) else inner[2]
        for e in proj:
            if isinstance(e, dict) and "f" in e:
                acc.add(e.get("n") or str(e["f"]))
                break
    return acc


def src_field_chain(src):
    """every field name on the projection path of a source descriptor (outermost struct first): a value kept in a nested
    private struct (`self.entry.key`) is described by its leaf"""
    names = []
    while src[0] == "field":
        proj = thaw(src[2]) if not isinstance(src[2], list) else src[2]
        names = [e.get("n") or str(e["f"]) for e in proj if isinstance(e, dict) and "f" in e] + names
        src = src[1]
    return names


def src_root(src):
    while src[0] == "field":
        src = src[1]
    return src


def run(ctx):
    ctx.explanation = EXPLANATION
    ctx.assumptions = ["rustc type checking / trait resolution", "serde-derive visits unknown struct keys with deserialize_ignored_any (documented)"]
    c = ctx.F.crate("conjure_serde")
    ctx.units["conjure_serde bodies"] = len(c.bodies)
    res = c01.run_wrap(ctx, c, which=("de",))
    ufb = res.get("ufb")
    fw = res.get("forwarders", set())
    if not ufb:
        return
    ui = [i for i in c.impls_of(DE_BEH) if ty_adt(i["self_ty"]) == ufb][0]
    bp = ui["self_ty"]["args"][0]
    ms = c.methods_of_impl(ui)
    # const parameters of the wrapper (knobs): its methods are read at the values the server deserializers instantiate them with
    cparams = [a_["const"] for a_ in ui["self_ty"]["args"][1:] if "const" in a_]
    if cparams:
        insts = res.get("ufb_consts") or {}
        vals = {}
        same = True
        for fmt_, cargs in insts.items():
            for nm_, a_ in zip(cparams, cargs):
                v_ = {"true": True, "false": False}.get(str(a_.get("const")), a_.get("const"))
                if isinstance(v_, str) and v_.lstrip("-").isdigit():
                    v_ = int(v_)
                if nm_ in vals and vals[nm_] != v_:
                    same = False
                vals[nm_] = v_
        if insts and same and all(isinstance(v_, (bool, int)) for v_ in vals.values()) and len(vals) == len(cparams):
            from .. import inline as _inl5
            ms = {m_: _inl5.specialise(c, b_, vals) for m_, b_ in ms.items()}
            ctx.note(f"R5.1 / R5.2: {ufb.split('::')[-1]} has const parameters {cparams}; its methods are read at the server deserializers' instantiation {vals}")
        else:
            ctx.violation("R5.1", f"{ui['file']}:{ui['line']}", "ufb|const-params", f"{ufb} has const parameters {cparams} whose server-side values could not be determined ({insts}): strictness cannot be decided")
    beh_methods = set(c.trait_decls[DE_BEH]["methods"])
    # R5.1 every behaviour method is overridden and forwards to the same-named method of B
    for m in sorted(beh_methods):
        if m not in ms:
            ctx.violation("R5.1", f"{ui['file']}:{ui['line']}", f"ufb|{m}|missing",
                          f"{ufb} does not override Behavior::{m}: the trait default would bypass the inner behaviour's Conjure handling")
            continue
        calls = [t for _, t in ms[m].calls() if t["call"].get("trait") == DE_BEH]
        ok = len(calls) == 1 and calls[0]["call"]["name"] == m and sw.ty_eq(calls[0]["call"]["substs"][0], bp)
        ctx.check(ok, "R5.1", ms[m].loc(), f"ufb|{m}|forward",
                  f"{ufb}::{m} must forward to <{tystr(bp)} as Behavior>::{m}; found {[t['call']['def'] + '::<' + tystr(t['call']['substs'][0]) + '>' for t in calls]}",
                  instance=f"UnknownFieldsBehavior::{m} -> <B as Behavior>::{m}")
    # R5.2 chain
    chain_n = 0
    ds = ms.get("deserialize_struct")
    if ds is None:
        return
    h = handoff(ctx, c, ds, "deserialize_struct", "R5.2", "strict deserialize_struct")
    if h is None:
        return
    sig = c.sigs[h["call"]["def"]]
    vidx = [k for k, g in enumerate(sig["generics"]) if sw.DE + "Visitor" in sig["bounds"].get(g, [])]
    vty = h["call"]["substs"][vidx[0]]
    las = local_adts(vty, c)
    ctx.check(len(las) == 2 and las[0] in fw, "R5.2", ds.loc(h["ln"]), "chain|struct-visitor",
              f"strict deserialize_struct passes visitor {tystr(vty)}; expected a delegating visitor around a struct-intercepting visitor",
              instance=f"deserialize_struct visitor = {tystr(vty)}")
    if len(las) != 2:
        return
    SV = las[1]
    chain_n += 1
    vm = method_of(c, SV, "visit_map")
    if vm is None:
        ctx.violation("R5.2", ds.loc(), "chain|visit_map", f"{SV} has no visit_map interception")
        return
    h = handoff(ctx, c, vm, "visit_map", "R5.2", f"{SV}::visit_map")
    if h is None:
        return
    aty = h["call"]["substs"][-1]
    las = local_adts(aty, c)
    ctx.check(len(las) == 1 and las[0] not in fw, "R5.2", vm.loc(h["ln"]), "chain|map-access",
              f"{SV}::visit_map hands the inner visitor {tystr(aty)}; expected the intercepting map access", instance=f"visit_map access = {tystr(aty)}")
    if len(las) != 1:
        return
    SMA = las[0]
    chain_n += 1
    # the struct visitor must intercept only maps (seq form of structs has no keys)
    terminal = None
    keyvis = None
    for mname, role in (("next_key_seed", "key"), ("next_value_seed", "value")):
        mb = method_of(c, SMA, mname)
        if mb is None:
            ctx.violation("R5.2", vm.loc(), f"chain|{mname}", f"{SMA} has no {mname}")
            continue
        h = handoff(ctx, c, mb, mname, "R5.2", f"{SMA}::{mname}")
        if h is None:
            continue
        sty = h["call"]["substs"][-1]
        las = local_adts(sty, c)
        ctx.check(len(las) == 1, "R5.2", mb.loc(h["ln"]), f"chain|{role}-seed", f"{SMA}::{mname} passes seed {tystr(sty)}; expected the intercepting {role} seed",
                  instance=f"{mname} seed = {tystr(sty)}")
        if len(las) != 1:
            continue
        chain_n += 1
        seed = las[0]
        sb = method_of(c, seed, "deserialize")
        if sb is None:
            ctx.violation("R5.2", mb.loc(), f"chain|{role}-seed-deserialize", f"{seed} has no DeserializeSeed::deserialize")
            continue
        h = handoff(ctx, c, sb, "deserialize", "R5.2", f"{seed}::deserialize")
        if h is None:
            continue
        dty = h["call"]["substs"][-1]
        las = local_adts(dty, c)
        good = len(las) == 2 and las[0] in fw and las[1] not in fw
        ctx.check(good, "R5.2", sb.loc(h["ln"]), f"chain|{role}-deserializer",
                  f"{seed}::deserialize passes {tystr(dty)}; expected a forwarding deserializer around the {role} interceptor",
                  instance=f"{role} seed deserializer = {tystr(dty)}")
        if not good:
            continue
        chain_n += 1
        if role == "value":
            terminal = las[1]
        else:
            # key wrapper -> wrap_visitor -> delegating visitor around the key-recording visitor
            wv = method_of(c, las[1], "wrap_visitor")
            if wv is None:
                ctx.violation("R5.2", sb.loc(), "chain|key-wrapper", f"{las[1]} has no wrap_visitor")
                continue
            h = handoff(ctx, c, wv, "delegate", "R5.2", f"{las[1]}::wrap_visitor")
            if h is None:
                continue
            kty = h["call"]["substs"][-1]
            kl = local_adts(kty, c)
            good = len(kl) == 2 and kl[0] in fw
            ctx.check(good, "R5.2", wv.loc(h["ln"]), "chain|key-visitor", f"key wrapper installs {tystr(kty)}; expected a delegating visitor around the key recorder",
                      instance=f"key visitor = {tystr(kty)}")
            if good:
                keyvis = kl[1]
                chain_n += 1
    ctx.floor("R5.2", "interception chain links", chain_n, 7)
    # R5.3 key recording
    if keyvis:
        for m in ("visit_str", "visit_borrowed_str", "visit_string"):
            kb = method_of(c, keyvis, m)
            if kb is None:
                ctx.violation("R5.3", c.name, f"keyvisitor|{m}|missing", f"{keyvis} does not intercept {m}: keys arriving through it would not be recorded and the error would name a stale/unknown key")
                continue
            cfg = CFG(kb)
            tr = Tracer(kb, through_agg=True)
            stores = []
            for bb, j, s in kb.stmts():
                d = s["d"]
                pr = place_proj(d)
                # `*self.<cell> = Some(key)`: a write through a reference held in a field of the visitor (the shared key cell)
                if place_local(d) == 1 and any(isinstance(e, dict) and "f" in e for e in pr) and "*" in pr:
                    stores.append((bb, j, s))
            fwd = [(bb, t) for bb, t in kb.calls() if (t["call"].get("trait") or "") == sw.DE + "Visitor" and t["call"]["name"] == m]
            good = bool(stores) and len(fwd) == 1
            if good:
                # a store through the visitor's cell field whose value is built from the visited key (`Some(Cow(..value..))`, or a
                # private key-holder's variant carrying it), before the forward
                good = False
                for sbb, j, s in stores:
                    val_roots = Tracer(kb, through_agg=True, through_calls=True).root_locals(s["r"]["use"]) if "use" in s["r"] else set()
                    if 3 in val_roots and cfg.dominates(sbb, fwd[0][0]):
                        good = True
            if not good and len(fwd) == 1:
                # ... or a method of a private key-holder type called on the cell with the visited key (`self.key.set_copied(value)`)
                trc = Tracer(kb, through_agg=True, through_calls=True)
                for bb, t in kb.calls():
                    f_ = t["call"]
                    if f_.get("local") and len(t["args"]) >= 2 and cfg.dominates(bb, fwd[0][0]) and bb != fwd[0][0]:
                        recv_self = 1 in trc.root_locals(t["args"][0])
                        carries_key = any(3 in trc.root_locals(a_) for a_ in t["args"][1:])
                        if recv_self and carries_key:
                            good = True
            ctx.check(good, "R5.3", kb.loc(), f"keyvisitor|{m}|records",
                      f"{keyvis}::{m} must store Some(<the visited key>) into the shared key cell before forwarding to the inner visitor's {m}",
                      instance=f"{keyvis.split('::')[-1]}::{m}: key cell := Some(value) dominates forward")
    # R5.3 terminal
    if terminal:
        tb = method_of(c, terminal, "deserialize_ignored_any")
        if tb is not None:
            from .. import inline as _inline
            tb = _inline.expand(c, tb, depth=3, pred=lambda cb: cb.d.get("vis") != "pub" and cb.id.startswith("conjure_serde::de::unknown_fields_behavior"))
        tadt = ctx.F.adt(terminal) or {}
        troles = {}
        def add_roles(a_, depth=0):
            for f_ in (a_.get("variants") or [{}])[0].get("fields", []):
                ts_ = tystr(f_["ty"])
                inner_ = ctx.F.adt(ty_adt(strip_refs(f_["ty"])) or "")
                if "Option" in ts_ and "str" in ts_:
                    troles[f_["name"]] = "key"
                elif "[&" in ts_ and "str" in ts_:
                    troles[f_["name"]] = "fields"
                elif inner_ and inner_.get("local") and inner_["kind"] == "struct" and depth < 2:
                    add_roles(inner_, depth + 1)      # a private struct grouping the two (`entry: &EntryContext { fields, key }`)
        add_roles(tadt)
        if tb is None:
            ctx.violation("R5.3", c.name, "terminal|missing", f"{terminal} does not intercept deserialize_ignored_any")
        else:
            into_d = [t for _, t in tb.calls() if (t["call"].get("trait") or "") in (sw.DE + "Deserializer", sw.DE + "Visitor")]
            oks = dt.ok_return_blocks(tb)
            uf = [(bb, t) for bb, t in tb.calls() if t["call"]["def"] == sw.DE + "Error::unknown_field"]
            ctx.check(not into_d and not oks, "R5.3", tb.loc(), "terminal|no-value",
                      f"{terminal}::deserialize_ignored_any drives the underlying deserializer/visitor ({[t['call']['def'] for t in into_d]}) or returns Ok: an unknown field would be swallowed",
                      instance="terminal deserialize_ignored_any: no call into D / V, no Ok return")
            ok = False
            if len(uf) == 1:
                bb, t = uf[0]
                tr = Tracer(tb)
                ksrc = Tracer(tb, through_calls=True, through_agg=True).sources(t["args"][0])
                fsrc = tr.sources(t["args"][1])
                kfields = set()
                kconst = set()
                for s_ in ksrc:
                    r = src_root(s_)
                    if r[0] == "arg" and r[1] == 1:
                        ch_ = [n_ for n_ in src_field_chain(s_) if n_ in troles]
                        kfields |= set(ch_[-1:]) if ch_ else src_fields(s_)
                    elif r[0] == "const":
                        kconst.add(r)
                    elif r[0] == "agg" and not tb.blocks[r[1]]["s"][r[2]]["r"].get("ops"):
                        kconst.add(("unit-variant", r[1], r[2]))      # a field-less variant of a private classification enum
                    elif r[0] == "call" and tb.blocks[r[1]]["t"]["call"]["name"] in ("as_deref", "unwrap_or", "as_ref", "deref", "map", "unwrap_or_else", "as_str", "borrow"):
                        continue   # looked through: its operands are among the sources as well
                    else:
                        kfields.add("?")
                ffields = set()
                for s_ in fsrc:
                    ch_ = [n_ for n_ in src_field_chain(s_) if n_ in troles]
                    ffields |= (set(ch_[-1:]) if ch_ else src_fields(s_)) if src_root(s_) == ("arg", 1) else {"?"}
                cfg = CFG(tb)
                rets_ = dt.return_aliases(tb)
                errs = [(b_, j, s) for b_, j, s in tb.stmts() if place_local(s["d"]) in rets_ and not place_proj(s["d"]) and s["r"].get("variant") == "Err"]
                flows = all(tr.sources(s["r"]["ops"][0]) == {("call", bb)} for _, _, s in errs) and errs
                kfields = {troles.get(x, x) for x in kfields}
                ffields = {troles.get(x, x) for x in ffields}
                # the constant name (`<unknown>`) stands in only when no key was captured: the block that supplies it may depend on the
                # Option's discriminant, not on a predicate over the key's text (a filter would hide the names of some fields)
                filt = []
                if kconst:
                    trk = Tracer(tb, through_calls=True, through_agg=True)
                    for bb_, t_ in tb.calls():
                        if tystr(tb.local_ty(place_local(t_["dest"]))) != "bool" or t_["call"]["name"] in ("is_some", "is_none") or not t_["args"]:
                            continue
                        from_key = False
                        for a_ in t_["args"]:
                            for s_ in trk.sources(a_):
                                if src_root(s_) == ("arg", 1) and ({troles.get(x_, x_) for x_ in src_fields(s_)} & {"key"}):
                                    from_key = True
                        if from_key:
                            filt.append(t_["call"]["name"])
                ok = kfields == {"key"} and ffields == {"fields"} and flows and all(cfg.postdominates(e[0], 0) for e in errs) and not filt
                ctx.check(ok, "R5.3", tb.loc(t["ln"]), "terminal|unknown_field-args",
                          f"terminal error must be Error::unknown_field(<recorded key>, <declared fields>) on every path; key derives from {sorted(kfields)} / consts {len(kconst)}, fields from {sorted(ffields)}"
                          + (f"; the placeholder name is chosen by a predicate over the key ({sorted(set(filt))}): some rejected fields would not be named" if filt else ""),
                          instance="terminal: Err(unknown_field(self.key, self.fields)) post-dominates entry")
            else:
                ctx.violation("R5.3", tb.loc(), "terminal|unknown_field", f"expected exactly one Error::unknown_field construction, found {len(uf)}")
    # R5.4 client behaviours do not intercept structs
    for (fmt, role), b in sorted(res["bound"].items()):
        if role != "client":
            continue
        bi = c01.find_beh_impl(c, DE_BEH, b)
        kb = c01.find_beh_impl(c, DE_BEH, bi["assoc_tys"]["KeyBehavior"]) if bi else None
        for x in (bi, kb):
            if x is None:
                continue
            ctx.check("deserialize_struct" not in x["items"], "R5.4", f"{x['file']}:{x['line']}", f"{tystr(x['self_ty'])}|no-struct-interception",
                      f"client behaviour {tystr(x['self_ty'])} overrides deserialize_struct; clients must ignore unknown fields",
                      instance=f"{fmt} client {tystr(x['self_ty'])}: deserialize_struct not overridden")
    # R5.5 every convenience entry point runs the value through the Conjure deserializer of its own flavour (shared with C01)
    ctx.include(c01, {"R1.6"}, "R5.5", "a server entry point that deserializes through anything but the strict Conjure server deserializer accepts unknown fields")


_run_c05 = run


def run(ctx):
    _run_c05(ctx)
    # R5.6 generated union deserializers read every payload from the map access in force (which carries the server's strictness):
    # a payload buffered as `Any` and converted afterwards (`Any::deserialize_into`) is re-read by Any's own deserializer, which
    # ignores unknown fields like a client
    from .. import gentypes as _gt
    ct = ctx.F.crate("conjure_test")
    n = 0
    for u in _gt.find_unions(ct, ctx.F):
        if u.visit_map is None:
            continue
        n += 1
        fam = [u.visit_map] + ct.closures_of(u.visit_map)
        conv = [t for x in fam for _, t in x.calls() if t["call"]["name"] in ("deserialize_into", "deserialize") and "conjure_object::any" in t["call"]["def"] and t["call"]["name"] == "deserialize_into"]
        who = f"{u.config}/{u.path.split('::')[-1]}"
        ctx.check(not conv, "R5.6", u.visit_map.loc(conv[0]["ln"]) if conv else u.visit_map.loc(), f"{u.path}|visit_map|payload-read-in-place",
                  f"{who}: a variant's payload is buffered as `Any` and converted with Any::deserialize_into: the conversion runs on Any's own (lenient) deserializer, so the server accepts unknown fields inside that payload",
                  instance=f"{who}: payloads are read from the map access itself")
    ctx.floor("R5.6", "generated union deserializers", n, 4)
