"""Fact extraction: runs the mirfacts driver (E1) and the tmpl extractor (E3) over
/repo's current working tree and caches the result keyed by a content hash."""
import fcntl, glob, hashlib, json, os, shutil, subprocess, sys, tempfile, time

VERIF = os.path.dirname(os.path.dirname(os.path.abspath(__file__)))
REPO = os.environ.get("VERIF_REPO", "/repo")
CACHE = os.path.join(VERIF, ".cache")
DRIVER = os.path.join(VERIF, "mirfacts", "target", "release", "mirfacts")
TMPL = os.path.join(VERIF, "tmpl", "target", "release", "tmpl")
SKIP_DIRS = {"target", ".git", ".gradle", "build", "node_modules"}

EXPECTED_CRATES = ["conjure_codegen", "conjure_error", "conjure_http", "conjure_macros",
                   "conjure_object", "conjure_rust", "conjure_serde", "conjure_test"]


def tree_hash(repo=REPO):
    h = hashlib.sha256()
    files = []
    for root, dirs, fs in os.walk(repo):
        dirs[:] = sorted(d for d in dirs if d not in SKIP_DIRS)
        for f in sorted(fs):
            p = os.path.join(root, f)
            if os.path.islink(p) or not os.path.isfile(p):
                continue
            if os.path.getsize(p) > 8 << 20:
                continue
            files.append(p)
    for p in files:
        h.update(os.path.relpath(p, repo).encode())
        h.update(b"\0")
        with open(p, "rb") as fh:
            h.update(hashlib.sha256(fh.read()).digest())
    for tool in (DRIVER, TMPL):
        if os.path.exists(tool):
            with open(tool, "rb") as fh:
                h.update(hashlib.sha256(fh.read()).digest())
    return h.hexdigest()[:24]


def sysroot():
    return subprocess.check_output(["rustc", "+nightly", "--print", "sysroot"], text=True).strip()


CONFIGS = {
    # name -> (cargo args, extra env)
    "quick": (["check", "--workspace"], {}),
    "alltargets": (["check", "--workspace", "--all-targets"], {}),
    "release": (["check", "--workspace", "--release"], {}),
}


def run_driver(config, outdir, repo=REPO):
    args, env_extra = CONFIGS[config]
    tdir = tempfile.mkdtemp(prefix="vf-target-")
    env = dict(os.environ)
    env.update({
        "LD_LIBRARY_PATH": os.path.join(sysroot(), "lib"),
        "MIRFACTS_OUT": outdir,
        "RUSTFLAGS": "-Awarnings",
        "RUSTC_WORKSPACE_WRAPPER": DRIVER,
        "CARGO_TARGET_DIR": tdir,
        "CARGO_NET_OFFLINE": "true",
    })
    env.update(env_extra)
    t0 = time.time()
    try:
        p = subprocess.run(["cargo", "+nightly"] + args + ["--offline", "-j", "16"], cwd=repo, env=env,
                           stdout=subprocess.PIPE, stderr=subprocess.STDOUT, text=True)
        log = p.stdout
        ok = p.returncode == 0
        # keep the generated sources of the instance for diagnosis
        for out in glob.glob(os.path.join(tdir, "*", "build", "conjure-test-*", "out")):
            dst = os.path.join(outdir, "generated")
            if os.path.isdir(os.path.join(out, "conjure")) and not os.path.exists(dst):
                shutil.copytree(out, dst)
    finally:
        shutil.rmtree(tdir, ignore_errors=True)
    with open(os.path.join(outdir, "cargo.log"), "w") as fh:
        fh.write(log)
    return ok, log, time.time() - t0, tdir


def run_tmpl(outdir, repo=REPO):
    if not os.path.exists(TMPL):
        return False, "tmpl binary missing (run setup)"
    files = sorted(glob.glob(os.path.join(repo, "conjure-codegen", "src", "*.rs")) +
                   glob.glob(os.path.join(repo, "conjure-macros", "src", "*.rs")))
    p = subprocess.run([TMPL, os.path.join(outdir, "tmpl.json")] + files, stdout=subprocess.PIPE,
                       stderr=subprocess.STDOUT, text=True)
    return p.returncode == 0, p.stdout


def ensure(config="quick", verbose=True):
    """Returns (facts_dir, info). Extracts when the tree/driver hash is new."""
    os.makedirs(os.path.join(CACHE, "locks"), exist_ok=True)
    if not os.path.exists(DRIVER):
        raise SystemExit("mirfacts driver not built: run MANIFEST.setup_cmd")
    th = tree_hash()
    # one lock per fact base: different trees (self-test variants) extract in parallel
    lock = open(os.path.join(CACHE, "locks", th + "-" + config), "w")
    fcntl.flock(lock, fcntl.LOCK_EX)
    try:
        d = os.path.join(CACHE, "facts", th + "-" + config)
        marker = os.path.join(d, "OK")
        info = {"tree_hash": th, "config": config, "reused": True}
        if os.path.exists(marker):
            info.update(json.load(open(marker)))
            info["reused"] = True
            try:
                os.utime(d, None)   # LRU: keep recently used fact bases
            except OSError:
                pass
            return d, info
        if os.path.exists(d):
            shutil.rmtree(d)
        os.makedirs(d)
        if verbose:
            print(f"[extract] tree {th} config {config}: running rustc driver over /repo ...", file=sys.stderr)
        ok, log, secs, tdir = run_driver(config, d)
        info.update({"reused": False, "extract_s": round(secs, 1)})
        if not ok:
            info["build_failed"] = True
            info["log_tail"] = log[-4000:]
            # build failure is a result, cache it too (same tree -> same failure)
            json.dump(info, open(marker, "w"))
            return d, info
        # strip the temp target prefix from nothing: file names of generated code contain tdir
        info["target_dir"] = tdir
        have = set()
        for f in glob.glob(os.path.join(d, "*.json")):
            have.add(os.path.basename(f).split("-")[0])
        missing = [c for c in EXPECTED_CRATES if c not in have]
        info["missing_crates"] = missing
        tok, tlog = run_tmpl(d)
        info["tmpl_ok"] = tok
        if not tok:
            info["tmpl_log"] = tlog[-2000:]
        # prune old caches: keep the 40 most recently used; facts of scratch copies (VERIF_REPO set: self-test variants) are
        # evicted before facts of /repo itself
        root = os.path.join(CACHE, "facts")
        if not os.environ.get("VERIF_REPO"):
            open(os.path.join(d, ".base"), "w").close()
        glock = open(os.path.join(CACHE, "lock"), "w")
        fcntl.flock(glock, fcntl.LOCK_EX)
        try:
            olds = []
            for x in os.listdir(root):
                try:
                    olds.append((os.path.exists(os.path.join(root, x, ".base")), os.path.getmtime(os.path.join(root, x)), x))
                except OSError:
                    pass
            for _, _, x in sorted(olds)[:-40]:
                if x != th + "-" + config and os.path.exists(os.path.join(root, x, "OK")):
                    shutil.rmtree(os.path.join(root, x), ignore_errors=True)
                    try:
                        os.remove(os.path.join(CACHE, "locks", x))
                    except OSError:
                        pass
        finally:
            fcntl.flock(glock, fcntl.LOCK_UN)
            glock.close()
        json.dump(info, open(marker, "w"))
        return d, info
    finally:
        fcntl.flock(lock, fcntl.LOCK_UN)
        lock.close()


if __name__ == "__main__":
    d, info = ensure(sys.argv[1] if len(sys.argv) > 1 else "quick")
    print(d)
    print(json.dumps({k: v for k, v in info.items() if k != "log_tail"}, indent=1))
    if info.get("build_failed"):
        print(info["log_tail"])
