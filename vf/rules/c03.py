"""C03 — code generation succeeds and its output compiles for every valid definition (partial)."""
import json, os
from ..facts import ty_adt, tystr, place_local, place_proj, op_place
from ..cfg import CFG, Tracer
from .. import dt, core, instance
from . import c06

EXPLANATION = (
    "PARTIAL. NOT decided (not applicable to static analysis): type-correctness of the emitted tree for all IR documents — the "
    "super:: chains of relative type paths, builder-attribute synthesis per field shape, prelude-name disambiguation and boxing "
    "of recursive references are generator arithmetic whose result is only checked by compiling, and only the repository's own "
    "instance is compiled. Decided: (R3.1) the identifier-escape table — the set of string constants compared in the function "
    "every generated field / argument / endpoint / module identifier flows from — contains every lower-case word the running "
    "compiler's own predicate Symbol::is_reserved reports for editions 2015-2021 (2024 additions reported as well), and the "
    "camel-case sibling escapes `Self`; (R3.2) the panic inventory of the generator: every Assert, unwrap/expect, Index and panic "
    "call in conjure_codegen outside the IR types is in the reasoned inventory (spec/codegen_panics.json); a new site or a higher "
    "count is reported; (R3.3) the analysis build itself type-checks both generated configurations of the repository's instance "
    "(all 44 IR types, 2 services, 1 error x 2 configs are present in the compiled facts).")

EXCLUDED = {"$crate": "not a Conjure-reachable spelling", "{{root}}": "not a spelling", "_": "not a name the snake-case conversion can produce alone... (it can: see below)",
            "Self": "handled by the camel-case escaper"}


def const_expr(b, op, depth=0):
    """operand is a literal or arithmetic over literals (folded by the compiler)"""
    if dt.resolve_const(b, op) is not None:
        return True
    r = dt.resolve_copy(b, op)
    if depth < 8 and r[0] == "def" and r[1][1] != "T":
        rv = r[1][2]["r"]
        if "bin" in rv:
            return const_expr(b, rv["a"], depth + 1) and const_expr(b, rv["b"], depth + 1)
    if depth < 8 and r[0] == "place" and not isinstance(r[1], int):
        # field 0 of a checked-arithmetic tuple
        d = dt.single_def(b, r[1]["l"])
        if d and d[1] != "T" and "bin" in d[2]["r"]:
            return const_expr(b, d[2]["r"]["a"], depth + 1) and const_expr(b, d[2]["r"]["b"], depth + 1)
    return False


def run(ctx):
    ctx.explanation = EXPLANATION
    ctx.assumptions = ["heck::to_snake_case / to_upper_camel_case produce identifier characters for Conjure names ([a-zA-Z][a-zA-Z0-9]*)"]
    F = ctx.F
    c = F.crate("conjure_codegen")
    ctx.units["conjure_codegen bodies"] = len(c.bodies)
    reserved = c.doc.get("reserved_words") or {}
    # ---------------- R3.1
    cands = []
    for b in c.bodies:
        if not b.id.startswith("conjure_codegen::context::") or b.kind != "assoc_fn":
            continue
        consts = set()
        for bb, t in b.calls():
            if t["call"]["def"].startswith("core::cmp::PartialEq"):
                se = dt.str_eq_const(b, t)
                if se:
                    consts.add(se[1])
        if len(consts) >= 20:
            cands.append((b, consts))
    if len(cands) != 1:
        ctx.violation("R3.1", "conjure_codegen", "anchor|escape-table", f"expected one identifier-escaping function (a string match over >= 20 keywords), found {len(cands)}")
    else:
        b, table = cands[0]
        # role: identifiers for fields / modules are built from its result
        users = [x.name for x in c.bodies if any(t["call"].get("id") == b.id for _, t in x.calls())]
        ctx.check(len(users) >= 2, "R3.1", b.loc(), "escape|used", f"the escape function is used by {users}", nontrivial=False)
        need = set()
        for ed in ("2015", "2018", "2021"):
            need |= {w for w in reserved.get(ed, []) if w.islower() and w.isidentifier()}
        extra24 = {w for w in reserved.get("2024", []) if w.islower() and w.isidentifier()} - need
        ctx.floor("R3.1", "reserved words reported by the compiler (editions 2015-2021)", len(need), 45)
        for w in sorted(need):
            ctx.check(w in table, "R3.1", b.loc(), f"escape|{w}", f"the reserved word `{w}` is not escaped: a Conjure field, argument, endpoint or package named `{w}` makes generation fail or the output not compile", instance=f"`{w}` escaped")
        for w in sorted(extra24):
            ctx.check(w in table, "R3.1", b.loc(), f"escape|2024|{w}", f"`{w}` is reserved in edition 2024 and not escaped", instance=f"`{w}` (2024) escaped", nontrivial=False)
        ctx.ok("R3.1", b.loc(), f"escape table has {len(table)} words, compiler reports {len(need)} (+{len(extra24)} in 2024)")
        # escaping appends a suffix on the positive branch: the keyword flag leads to a push / format
        # camel-case sibling
    camel = []
    for x in c.bodies:
        if x.id.startswith("conjure_codegen::context::") and x.kind == "assoc_fn":
            cs = set()
            for bb, t in x.calls():
                if t["call"]["def"].startswith("core::cmp::PartialEq"):
                    se = dt.str_eq_const(x, t)
                    if se:
                        cs.add(se[1])
            if cs == {"Self"}:
                camel.append(x)
    ctx.check(len(camel) == 1, "R3.1", "conjure_codegen", "escape|Self", f"the type-name escaper must escape exactly `Self` (found {len(camel)} such functions)", instance="type names: `Self` escaped")
    # ---------------- R3.2
    spec = json.load(open(os.path.join(core.VERIF, "spec", "codegen_panics.json")))
    allowed = {(s["function"], s["kind"]): s for s in spec["sites"]}
    from collections import Counter
    cnt = Counter()
    first = {}
    for b in c.bodies:
        if "::types::" in b.id:
            continue
        for ln, what, x in c06.panic_sites(b):
            k = (b.path.split("::{closure")[0], what)
            cnt[k] += 1
            first.setdefault(k, b.loc(ln))
    for k, n in sorted(cnt.items()):
        a = allowed.get(k)
        ok = a is not None and n <= a["count"]
        ctx.check(ok, "R3.2", first[k], f"{k[0]}|{k[1]}", f"{k[0]}: {n} `{k[1]}` site(s); the reasoned inventory allows {a['count'] if a else 0}: a new way for generation to panic instead of reporting success or an error",
                  instance=f"{k[0]}: {n} x {k[1]} ({(a or {}).get('reason', '')[:70]})", nontrivial=False)
    ctx.floor("R3.2", "panic sites inventoried", sum(cnt.values()), 40)
    # input-dependent arithmetic on sizes must be checked
    hs = [b for b in c.bodies if b.id.startswith("conjure_codegen::human_size::") and b.kind == "fn"]
    for b in hs:
        muls = [s for _, _, s in b.stmts() if "bin" in s["r"] and s["r"]["bin"].startswith("Mul") and not (const_expr(b, s["r"]["a"]) and const_expr(b, s["r"]["b"]))]
        ctx.check(not muls, "R3.2", b.loc(), f"{b.path}|unchecked-mul", f"{b.path}: multiplies an input-dependent size without overflow check (generation would panic / wrap on a huge size tag)", instance=f"{b.name}: input-dependent product is checked")
    # ---------------- R3.3 instance compiled
    ct = F.crate("conjure_test")
    ir = instance.IR()
    for config, prefix in (("default", "conjure_test::types::"), ("exhaustive", "conjure_test::exhaustive_types::")):
        adts = [p for p, a in ct.adts.items() if a.get("local") and p.startswith(prefix)]
        names = {p.split("::")[-1] for p in adts}
        missing = [k[1] for k in ir.types if k[1] not in names]
        ctx.check(not missing, "R3.3", "conjure_test", f"instance|{config}|types", f"{config} configuration: IR types without a compiled Rust type: {missing}", instance=f"{config}: {len(ir.types)} IR types compiled")
    cms = instance.client_methods(ct)
    hs_ = instance.handlers(ct)
    ctx.check(len(cms) == 4 * len(ir.endpoints) and len(hs_) == 4 * len(ir.endpoints), "R3.3", "conjure_test", "instance|services", f"compiled client methods {len(cms)} / handlers {len(hs_)} for {len(ir.endpoints)} endpoints x 2 flavours x 2 configs",
              instance=f"{len(cms)} client methods and {len(hs_)} handlers compiled")
