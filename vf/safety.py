"""Independent reference evaluation of the Conjure log-safety rules (greatest fixpoint over the type graph).
Ranks: DO_NOT_LOG(0) < UNSAFE(1) < unknown(2) < SAFE(3); combination = meet (minimum)."""
RANK = {"DO_NOT_LOG": 0, "UNSAFE": 1, None: 2, "SAFE": 3}


def rank(s):
    return RANK[s]


class Safety:
    def __init__(self, ir):
        self.ir = ir
        self.val = {k: 3 for k in ir.types}   # optimistic start = greatest fixpoint
        changed = True
        n = 0
        while changed:
            changed = False
            n += 1
            for k in ir.types:
                v = self.eval_named(k)
                if v != self.val[k]:
                    assert v < self.val[k], "monotone"
                    self.val[k] = v
                    changed = True
        self.iterations = n

    def declared(self, d):
        s = d.get("safety")
        return RANK[s] if s is not None else None

    def eval_named(self, k):
        kind, d = self.ir.types[k]
        if kind == "enum":
            return 3
        if kind == "alias":
            dec = self.declared(d)
            return dec if dec is not None else self.of_type(d["alias"])
        if kind == "object":
            v = 3
            for f in d["fields"]:
                dec = self.declared(f)
                v = min(v, dec if dec is not None else self.of_type(f["type"]))
            return v
        if kind == "union":
            v = 2   # the unknown variant is treated as unannotated
            for f in d["union"]:
                dec = self.declared(f)
                v = min(v, dec if dec is not None else self.of_type(f["type"]))
            return v
        raise ValueError(kind)

    def of_type(self, t):
        ty = t["type"]
        if ty == "primitive":
            return 0 if t["primitive"] == "BEARERTOKEN" else 2
        if ty in ("optional", "list", "set"):
            return self.of_type(t[ty]["itemType"])
        if ty == "map":
            return min(self.of_type(t["map"]["keyType"]), self.of_type(t["map"]["valueType"]))
        if ty == "reference":
            return self.val[self.ir.tkey(t["reference"])]
        if ty == "external":
            return 2
        raise ValueError(ty)

    def is_safe_arg(self, arg):
        s = arg.get("safety")
        if s is not None:
            return s == "SAFE"
        if "safe" in (arg.get("tags") or []):
            return True
        for m in arg.get("markers") or []:
            if m["type"] == "external":
                ref = m["external"]["externalReference"]
                if ref["package"] == "com.palantir.logsafe" and ref["name"] == "Safe":
                    return True
        return self.of_type(arg["type"]) == 3
