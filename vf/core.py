"""Rule-run context: records rule instances, violations, known findings; writes evidence."""
import json, os, sys, time

VERIF = os.path.dirname(os.path.dirname(os.path.abspath(__file__)))


class Ctx:
    def __init__(self, pid, tier, facts, info, level="other"):
        self.pid = pid
        self.tier = tier
        self.F = facts
        self.info = info
        self.level = level
        self.t0 = time.time()
        self.instances = []      # (rule, where, instance, nontrivial)
        self.viol = []           # dicts
        self.notes = []
        self.floors = []
        self.units = {}
        self.explanation = ""
        self.assumptions = []
        self.obligations = []    # for proof level: (name, discharged, detail)
        kf = json.load(open(os.path.join(VERIF, "known_findings.json")))
        self.known = {f["key"]: f for f in kf.get("findings", []) if f["property"] == pid}
        self.known_hit = {}

    # ---- recording
    def ok(self, rule, where, instance, nontrivial=True):
        self.instances.append((rule, where, instance, nontrivial))

    def violation(self, rule, where, key, msg):
        """key identifies the violating construct without line numbers"""
        full = f"{rule}|{key}"
        if full in self.known:
            self.known_hit[full] = (where, msg)
            return
        self.viol.append({"rule": rule, "where": where, "key": full, "msg": msg})

    def check(self, cond, rule, where, key, msg, instance=None, nontrivial=True):
        if cond:
            self.ok(rule, where, instance if instance is not None else key, nontrivial)
        else:
            self.violation(rule, where, key, msg)
        return cond

    def floor(self, rule, name, measured, floor):
        """fail closed when fewer instances than counted by hand were found"""
        self.floors.append({"rule": rule, "name": name, "measured": measured, "floor": floor})
        if measured < floor:
            self.violation(rule, "-", f"floor|{name}", f"only {measured} instances of '{name}' found, expected at least {floor} "
                           f"(anchor lost or construct removed: the rule would pass vacuously)")

    def note(self, msg):
        self.notes.append(msg)

    def include(self, module, rules, as_rule, why, select=None):
        """Decide rules of another property's module here as well (the same construct carries both properties).  The other
        module is run on a child context; the instances and violations of the listed rule ids are re-recorded under
        `as_rule` (e.g. "R1.8") with the original id kept in the instance text / key.  Known findings of the *other*
        property are not inherited: a finding is listed per property."""
        stack = getattr(self, "_incl_stack", [])
        if module.__name__ in stack:
            return 0          # mutual inclusion (A decides a rule of B and B one of A): cut the cycle
        child = Ctx(self.pid, self.tier, self.F, self.info, self.level)
        child.known = {}
        child._incl_stack = stack + [module.__name__]
        module.run(child)
        n = 0
        sel = (lambda k: True) if select is None else (lambda k: select(k if isinstance(k, str) else json.dumps(k)))
        for r, w, i, nt in child.instances:
            if r in rules and sel(i):
                n += 1
                self.instances.append((as_rule, w, f"[{r}] {i if isinstance(i, str) else json.dumps(i)}", nt))
        for v in child.viol:
            if v["rule"] in rules and sel(v["key"]):
                n += 1
                self.violation(as_rule, v["where"], v["key"], f"{why}: {v['msg']}")
        for f in child.floors:
            if f["rule"] in rules:
                self.floors.append(dict(f, rule=as_rule))
        return n

    def obligation(self, name, discharged, detail=""):
        self.obligations.append((name, bool(discharged), detail))

    # ---- finishing
    def finish(self):
        wall = time.time() - self.t0
        ev_dir = os.environ.get("VERIF_EVIDENCE_DIR") or os.path.join(VERIF, "evidence")
        os.makedirs(ev_dir, exist_ok=True)
        vpath = os.path.join(ev_dir, f"{self.pid}.violations.json")
        distinct = {(r, i if isinstance(i, str) else json.dumps(i, sort_keys=True)) for r, w, i, nt in self.instances if nt}
        by_rule = {}
        for r, w, i, nt in self.instances:
            by_rule[r] = by_rule.get(r, 0) + 1
        samples = []
        seen_rules = set()
        for r, w, i, nt in self.instances:
            if r not in seen_rules and nt:
                seen_rules.add(r)
                samples.append({"rule": r, "where": w, "instance": i})
        for r, w, i, nt in self.instances[:1]:
            if not samples:
                samples.append({"rule": r, "where": w, "instance": i})
        cov = {
            "evaluations": len(self.instances),
            "distinct_nontrivial": len(distinct),
            "rule": "one evaluation = one rule instance decided on the resolved program (a call site, construction site, "
                    "table row, impl method, template or obligation); non-trivial = the verdict needed a type-argument, "
                    "dominance/control-dependence, dataflow or table-equality argument rather than mere presence; "
                    "distinct = different (rule, instance) pairs",
            "samples": samples[:12],
            "explanation": self.explanation,
            "instances_by_rule": by_rule,
            "floors": self.floors,
            "units_analysed": self.units,
            "facts": {k: self.info.get(k) for k in ("tree_hash", "config", "reused", "extract_s")},
            "known_findings_reported": sorted(self.known_hit),
            "notes": self.notes,
            "exhaustive": True,
        }
        if self.level == "proof":
            cov["obligations"] = len(self.obligations)
            cov["discharged"] = sum(1 for o in self.obligations if o[1])
            cov["checker_cmd"] = f"./check {self.pid}"
            cov["trusted_base"] = self.assumptions
            cov["obligation_list"] = [{"name": n, "discharged": d, "detail": x} for n, d, x in self.obligations]
        ev = {
            "property_id": self.pid,
            "tier": self.tier,
            "seed": int(os.environ.get("VERIF_SEED", "0") or 0),
            "level": self.level,
            "coverage": cov,
            "assumptions": self.assumptions,
            "wall_s": round(wall + float(self.info.get("extract_s", 0) if not self.info.get("reused") else 0), 2),
            "violations": len(self.viol),
        }
        with open(os.path.join(ev_dir, f"{self.pid}.json"), "w") as fh:
            json.dump(ev, fh, indent=1)
        for full, (where, msg) in sorted(self.known_hit.items()):
            print(f"KNOWN-FINDING: property={self.pid} {full} at {where}: {msg}")
        # stale known findings (listed but no longer observed) are only a note
        for k in self.known:
            if k not in self.known_hit:
                print(f"note: known finding {k} not observed on this tree")
        print(f"[{self.pid}] tier={self.tier} rule instances decided: {len(self.instances)} "
              f"({len(distinct)} distinct non-trivial); violations: {len(self.viol)}; facts "
              f"{'reused' if self.info.get('reused') else 'extracted'} ({self.info.get('tree_hash')})")
        for r in sorted(by_rule):
            print(f"   {r}: {by_rule[r]} instances")
        for n in self.notes:
            print("   note:", n)
        if self.viol:
            with open(vpath, "w") as fh:
                json.dump(self.viol, fh, indent=1)
            print(f"VIOLATION property={self.pid} replay={vpath}")
            for v in self.viol:
                print(f"  {v['rule']} {v['where']}\n      {v['msg']}\n      key: {v['key']}")
            return 1
        if os.path.exists(vpath):
            os.remove(vpath)
        return 0


def build_failed(pid, tier, info):
    """The tree does not compile: no property can be decided; fail closed without a VIOLATION line
    except for C03 (whose claim includes that the repository's own instance type-checks)."""
    print(f"[{pid}] /repo does not build under the analysis driver:\n{info.get('log_tail', '')[-3000:]}")
    return 2
