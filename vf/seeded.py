"""Runs every kept independently-written change (seeded/<name>/patch.diff) on a scratch copy of /repo against the claimed
checks and records which rules fire.  usage: python3 -m vf.seeded [name-substring ...] [-j N] [--all-props]
Writes seeded/RESULTS.json (used by tools/gen_asbuilt.py).  Exit 2 if a change listed as detected is no longer detected."""
import json, os, re, shutil, subprocess, sys, tempfile
from concurrent.futures import ThreadPoolExecutor

VERIF = os.path.dirname(os.path.dirname(os.path.abspath(__file__)))
REPO = "/repo"


def claimed():
    m = json.load(open(os.path.join(VERIF, "MANIFEST.json")))
    return sorted(c["property_id"] for c in m["checks"])


def run_one(name, props):
    d = os.path.join(VERIF, "seeded", name)
    meta = json.load(open(os.path.join(d, "meta.json")))
    tmp = tempfile.mkdtemp(prefix="vf-seed-")
    root = os.path.join(tmp, "repo")
    try:
        subprocess.run(["rsync", "-a", "--exclude", "target", "--exclude", ".git", REPO + "/", root + "/"], check=True)
        r = subprocess.run(["patch", "-p1", "-s", "--no-backup-if-mismatch", "-d", root, "-i", os.path.join(d, "patch.diff")], stdout=subprocess.PIPE, stderr=subprocess.STDOUT, text=True)
        if r.returncode != 0:
            return {"name": name, "property": meta["property"], "status": "patch-does-not-apply", "detail": r.stdout[:300]}
        env = dict(os.environ, VERIF_REPO=root, VERIF_EVIDENCE_DIR=os.path.join(tmp, "ev"))
        fired = {}
        for pid in props or [meta["property"]]:
            p = subprocess.run([os.path.join(VERIF, "check"), pid], env=env, stdout=subprocess.PIPE, stderr=subprocess.STDOUT, text=True)
            if p.returncode == 1 and "VIOLATION property=" + pid in p.stdout:
                keys = re.findall(r"^      key: (.*)$", p.stdout, re.M)
                fired[pid] = sorted({k.split("|")[0] for k in keys}), keys[:6]
            elif p.returncode != 0:
                fired[pid] = (["CHECK-ERROR"], [p.stdout[-300:]])
        return {"name": name, "property": meta["property"], "status": "detected" if meta["property"] in fired else "not-detected", "fired": fired}
    finally:
        shutil.rmtree(tmp, ignore_errors=True)


def main():
    args = sys.argv[1:]
    jobs = 3
    if "-j" in args:
        jobs = int(args[args.index("-j") + 1])
        del args[args.index("-j"):args.index("-j") + 2]
    allp = "--all-props" in args
    args = [a for a in args if a != "--all-props"]
    names = sorted(n for n in os.listdir(os.path.join(VERIF, "seeded")) if os.path.exists(os.path.join(VERIF, "seeded", n, "patch.diff")) and (not args or any(a in n for a in args)))
    props = claimed() if allp else None
    with ThreadPoolExecutor(jobs) as ex:
        results = list(ex.map(lambda n: run_one(n, props), names))
    out = os.path.join(VERIF, "seeded", "RESULTS.json")
    old = {}
    if os.path.exists(out):
        old = {r["name"]: r for r in json.load(open(out))}
    for r in results:
        old[r["name"]] = r
    json.dump(sorted(old.values(), key=lambda r: r["name"]), open(out, "w"), indent=1)
    bad = 0
    for r in results:
        f = "; ".join(f"{pid}: {'/'.join(v[0])}" for pid, v in sorted(r.get("fired", {}).items()))
        print(f"{r['status']:14} {r['name']}  {f}")
        meta = json.load(open(os.path.join(VERIF, "seeded", r["name"], "meta.json")))
        expected_miss = meta.get("detected_by", "").startswith("NOT DETECTED")
        if r["status"] != "detected" and not expected_miss:
            bad += 1
    print(f"{len(results)} changes: {sum(r['status'] == 'detected' for r in results)} detected")
    return 2 if bad else 0


if __name__ == "__main__":
    sys.exit(main())
