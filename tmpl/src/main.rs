// tmpl: quote!-template extractor (E3).  usage: tmpl <out.json> <file.rs>...
// For every fn: its `let` bindings (one level) and every quote!/quote_spanned!/parse_quote! invocation with the
// template text, the calls it contains (path + argument token strings), its #interpolations and the enclosing
// if / match-arm conditions.
use proc_macro2::{Delimiter, TokenStream, TokenTree};
use quote::ToTokens;
use std::collections::BTreeMap;
use syn::visit::Visit;

fn esc(s: &str) -> String {
    let mut o = String::from("\"");
    for c in s.chars() {
        match c {
            '"' => o.push_str("\\\""),
            '\\' => o.push_str("\\\\"),
            '\n' => o.push_str("\\n"),
            '\r' => o.push_str("\\r"),
            '\t' => o.push_str("\\t"),
            c if (c as u32) < 0x20 => o.push_str(&format!("\\u{:04x}", c as u32)),
            c => o.push(c),
        }
    }
    o.push('"');
    o
}

struct Call {
    name: String,
    path: String,
    args: Vec<String>,
}

fn tt_str(t: &TokenTree) -> String {
    t.to_string()
}

fn split_args(ts: TokenStream) -> Vec<String> {
    let mut args = vec![String::new()];
    let mut depth = 0i32;
    for a in ts {
        match &a {
            TokenTree::Punct(p) if p.as_char() == ',' && depth == 0 => args.push(String::new()),
            other => {
                if let TokenTree::Punct(p) = other {
                    if p.as_char() == '<' {
                        depth += 1
                    }
                    if p.as_char() == '>' && depth > 0 {
                        depth -= 1
                    }
                }
                let s = tt_str(other);
                let l = args.last_mut().unwrap();
                if !l.is_empty() && !(l.ends_with('#')) {
                    l.push(' ');
                }
                l.push_str(&s);
            }
        }
    }
    if args.last().map(|s| s.is_empty()).unwrap_or(false) {
        args.pop();
    }
    args
}

// calls `a :: b :: name :: < .. > ( args )`, method calls `. name ( args )` and macro-ish `name ! ( .. )` are not distinguished
fn find_calls(ts: &TokenStream, out: &mut Vec<Call>) {
    let toks: Vec<TokenTree> = ts.clone().into_iter().collect();
    for (i, t) in toks.iter().enumerate() {
        if let TokenTree::Group(g) = t {
            find_calls(&g.stream(), out);
        }
        let is_name = match t {
            TokenTree::Ident(_) => true,
            _ => false,
        };
        if !is_name {
            continue;
        }
        // skip optional turbofish `:: < ... >` then expect a parenthesised group
        let mut j = i + 1;
        let mut depth = 0i32;
        let mut saw_colon = false;
        while j < toks.len() {
            match &toks[j] {
                TokenTree::Punct(p) if p.as_char() == ':' && depth == 0 => {
                    saw_colon = true;
                }
                TokenTree::Punct(p) if p.as_char() == '<' && (saw_colon || depth > 0) => depth += 1,
                TokenTree::Punct(p) if p.as_char() == '>' && depth > 0 => {
                    depth -= 1;
                    if depth == 0 {
                        saw_colon = false;
                    }
                }
                TokenTree::Group(g) if depth == 0 && g.delimiter() == Delimiter::Parenthesis && !saw_colon => {
                    // path backwards
                    let mut path = vec![tt_str(t)];
                    let mut k = i;
                    while k >= 2 {
                        let c1 = matches!(&toks[k - 1], TokenTree::Punct(p) if p.as_char() == ':');
                        let c2 = matches!(&toks[k - 2], TokenTree::Punct(p) if p.as_char() == ':');
                        if c1 && c2 && k >= 3 {
                            match &toks[k - 3] {
                                TokenTree::Ident(id) => {
                                    path.push(id.to_string());
                                    k -= 3;
                                    continue;
                                }
                                _ => {}
                            }
                        }
                        break;
                    }
                    // interpolated name: `# function`
                    let mut name = tt_str(t);
                    if i >= 1 {
                        if let TokenTree::Punct(p) = &toks[i - 1] {
                            if p.as_char() == '#' {
                                name = format!("#{}", name);
                            }
                        }
                    }
                    path.reverse();
                    out.push(Call { name, path: path.join("::"), args: split_args(g.stream()) });
                    break;
                }
                _ if depth > 0 => {}
                _ => break,
            }
            j += 1;
        }
    }
}

fn interpolations(ts: &TokenStream, out: &mut Vec<String>) {
    let toks: Vec<TokenTree> = ts.clone().into_iter().collect();
    for (i, t) in toks.iter().enumerate() {
        if let TokenTree::Group(g) = t {
            interpolations(&g.stream(), out);
        }
        if let TokenTree::Punct(p) = t {
            if p.as_char() == '#' && i + 1 < toks.len() {
                if let TokenTree::Ident(id) = &toks[i + 1] {
                    out.push(id.to_string());
                }
            }
        }
    }
}

struct QuoteInfo {
    line: usize,
    mac: String,
    text: String,
    calls: Vec<Call>,
    interp: Vec<String>,
    conds: Vec<String>,
}

struct FnInfo {
    file: String,
    name: String,
    line: usize,
    lets: BTreeMap<String, String>,
    quotes: Vec<QuoteInfo>,
    strings: Vec<String>,
}

struct BodyV<'a> {
    info: &'a mut FnInfo,
    conds: Vec<String>,
}

impl<'ast, 'a> Visit<'ast> for BodyV<'a> {
    fn visit_local(&mut self, l: &'ast syn::Local) {
        if let Some(init) = &l.init {
            let mut names = vec![];
            collect_pat_idents(&l.pat, &mut names);
            let e = init.expr.to_token_stream().to_string();
            for n in names {
                self.info.lets.insert(n, e.clone());
            }
        }
        syn::visit::visit_local(self, l);
    }
    fn visit_block(&mut self, b: &'ast syn::Block) {
        // early exits guard the rest of the block: after `if C { ..; return X; }` (no else) the remaining statements run
        // under the negation of C, exactly as if they were the else branch
        let depth = self.conds.len();
        for st in &b.stmts {
            self.visit_stmt(st);
            if let syn::Stmt::Expr(syn::Expr::If(e), _) = st {
                if e.else_branch.is_none() && block_diverges(&e.then_branch) {
                    self.conds.push(format!("else of if {}", e.cond.to_token_stream()));
                }
            }
        }
        self.conds.truncate(depth);
    }
    fn visit_expr_if(&mut self, e: &'ast syn::ExprIf) {
        let c = e.cond.to_token_stream().to_string();
        self.visit_expr(&e.cond);
        self.conds.push(format!("if {}", c));
        self.visit_block(&e.then_branch);
        self.conds.pop();
        if let Some((_, els)) = &e.else_branch {
            self.conds.push(format!("else of if {}", c));
            self.visit_expr(els);
            self.conds.pop();
        }
    }
    fn visit_expr_match(&mut self, m: &'ast syn::ExprMatch) {
        let scrut = m.expr.to_token_stream().to_string();
        self.visit_expr(&m.expr);
        for arm in &m.arms {
            let mut c = format!("match {} => {}", scrut, arm.pat.to_token_stream());
            if let Some((_, g)) = &arm.guard {
                c.push_str(&format!(" if {}", g.to_token_stream()));
            }
            self.conds.push(c);
            self.visit_expr(&arm.body);
            self.conds.pop();
        }
    }
    fn visit_lit_str(&mut self, l: &'ast syn::LitStr) {
        self.info.strings.push(l.value());
    }
    fn visit_macro(&mut self, m: &'ast syn::Macro) {
        let name = m.path.segments.last().map(|s| s.ident.to_string()).unwrap_or_default();
        if name == "quote" || name == "quote_spanned" || name == "parse_quote" || name == "format_ident" {
            let mut calls = vec![];
            find_calls(&m.tokens, &mut calls);
            let mut interp = vec![];
            interpolations(&m.tokens, &mut interp);
            let line = m.path.segments.first().map(|s| s.ident.span().start().line).unwrap_or(0);
            self.info.quotes.push(QuoteInfo {
                line,
                mac: name,
                text: m.tokens.to_string(),
                calls,
                interp,
                conds: self.conds.clone(),
            });
        } else {
            // visit nested macros' tokens as expressions when possible (e.g. vec![quote!{..}])
            if let Ok(exprs) = m.parse_body_with(syn::punctuated::Punctuated::<syn::Expr, syn::Token![,]>::parse_terminated) {
                for e in exprs.iter() {
                    self.visit_expr(e);
                }
            }
        }
        syn::visit::visit_macro(self, m);
    }
}

fn block_diverges(b: &syn::Block) -> bool {
    match b.stmts.last() {
        Some(syn::Stmt::Expr(syn::Expr::Return(_), _)) | Some(syn::Stmt::Expr(syn::Expr::Continue(_), _)) | Some(syn::Stmt::Expr(syn::Expr::Break(_), _)) => true,
        _ => false,
    }
}

fn collect_pat_idents(p: &syn::Pat, out: &mut Vec<String>) {
    match p {
        syn::Pat::Ident(pi) => out.push(pi.ident.to_string()),
        syn::Pat::Type(t) => collect_pat_idents(&t.pat, out),
        syn::Pat::Tuple(t) => {
            for e in &t.elems {
                collect_pat_idents(e, out)
            }
        }
        syn::Pat::Reference(r) => collect_pat_idents(&r.pat, out),
        _ => {}
    }
}

struct FileV {
    file: String,
    fns: Vec<FnInfo>,
    impl_of: Option<String>,
}

impl FileV {
    fn do_fn(&mut self, name: String, line: usize, block: &syn::Block) {
        let mut info = FnInfo { file: self.file.clone(), name, line, lets: BTreeMap::new(), quotes: vec![], strings: vec![] };
        {
            let mut bv = BodyV { info: &mut info, conds: vec![] };
            bv.visit_block(block);
        }
        self.fns.push(info);
    }
}

impl<'ast> Visit<'ast> for FileV {
    fn visit_item_fn(&mut self, f: &'ast syn::ItemFn) {
        self.do_fn(f.sig.ident.to_string(), f.sig.ident.span().start().line, &f.block);
    }
    fn visit_item_impl(&mut self, i: &'ast syn::ItemImpl) {
        let old = self.impl_of.take();
        self.impl_of = Some(i.self_ty.to_token_stream().to_string());
        syn::visit::visit_item_impl(self, i);
        self.impl_of = old;
    }
    fn visit_impl_item_fn(&mut self, f: &'ast syn::ImplItemFn) {
        let n = match &self.impl_of {
            Some(t) => format!("{}::{}", t.replace(' ', ""), f.sig.ident),
            None => f.sig.ident.to_string(),
        };
        self.do_fn(n, f.sig.ident.span().start().line, &f.block);
    }
}

fn main() {
    let args: Vec<String> = std::env::args().collect();
    let out = &args[1];
    let mut s = String::from("{\"functions\":[");
    let mut first = true;
    for p in &args[2..] {
        let src = match std::fs::read_to_string(p) {
            Ok(s) => s,
            Err(e) => {
                eprintln!("cannot read {}: {}", p, e);
                std::process::exit(1);
            }
        };
        let f = match syn::parse_file(&src) {
            Ok(f) => f,
            Err(e) => {
                eprintln!("cannot parse {}: {}", p, e);
                std::process::exit(1);
            }
        };
        let mut v = FileV { file: p.clone(), fns: vec![], impl_of: None };
        v.visit_file(&f);
        for info in v.fns {
            if !first {
                s.push(',');
            }
            first = false;
            s.push_str(&format!("{{\"file\":{},\"name\":{},\"line\":{},\"lets\":{{", esc(&info.file), esc(&info.name), info.line));
            let mut f2 = true;
            for (k, v) in &info.lets {
                if !f2 {
                    s.push(',');
                }
                f2 = false;
                s.push_str(&format!("{}:{}", esc(k), esc(v)));
            }
            s.push_str("},\"strings\":[");
            s.push_str(&info.strings.iter().map(|x| esc(x)).collect::<Vec<_>>().join(","));
            s.push_str("],\"quotes\":[");
            let mut f3 = true;
            for q in &info.quotes {
                if !f3 {
                    s.push(',');
                }
                f3 = false;
                s.push_str(&format!("{{\"line\":{},\"macro\":{},\"text\":{},\"interp\":[{}],\"conds\":[{}],\"calls\":[", q.line, esc(&q.mac), esc(&q.text),
                    q.interp.iter().map(|x| esc(x)).collect::<Vec<_>>().join(","), q.conds.iter().map(|x| esc(x)).collect::<Vec<_>>().join(",")));
                let mut f4 = true;
                for c in &q.calls {
                    if !f4 {
                        s.push(',');
                    }
                    f4 = false;
                    s.push_str(&format!("{{\"name\":{},\"path\":{},\"args\":[{}]}}", esc(&c.name), esc(&c.path), c.args.iter().map(|x| esc(x)).collect::<Vec<_>>().join(",")));
                }
                s.push_str("]}");
            }
            s.push_str("]}");
        }
    }
    s.push_str("]}");
    std::fs::write(out, s).unwrap();
}
