#!/usr/bin/env python3
"""usage: tools/keep_seed.py <ID>[/<sub>] <name> <detected-by text>  — copies a confirmed sub-agent change into /verif/seeded/<name>/"""
import json, os, shutil, sys
pid, name, det = sys.argv[1], sys.argv[2], sys.argv[3]
sub = ""
if "/" in pid:
    pid, sub = pid.split("/", 1)
src = f"/tmp/wt/{pid}/" + os.environ.get("SEEDDIR", "SEED") + (f"/{sub}" if sub else "")
dst = f"/verif/seeded/{name}"
os.makedirs(dst, exist_ok=True)
shutil.copy(f"{src}/patch.diff", f"{dst}/patch.diff")
shutil.copy(f"{src}/demo.diff", f"{dst}/demo.diff")
meta = json.load(open(f"{src}/meta.json"))
log = open(f"/tmp/cw/{pid}{sub}.log").read() if os.path.exists(f"/tmp/cw/{pid}{sub}.log") else ""
meta.update({
    "property": pid,
    "origin": "independent sub-agent given only the property text and a scratch worktree",
    "confirmed_by_me": {
        "procedure": "tools/confirm_seed.sh: fresh worktree of /repo HEAD; (1) patch only -> 112-test suite passes; (2) + demo -> demo fails; (3) patch reverted -> demo passes",
        "result": log.strip().splitlines()[-1] if log else "?",
        "log_excerpt": [l for l in log.splitlines() if l.startswith(("suite_rc", "demo_with", "demo_without", "test result"))][:12],
    },
    "checks_run": f"tools/seedtest.sh {dst}/patch.diff {pid}",
    "detected_by": det,
})
json.dump(meta, open(f"{dst}/meta.json", "w"), indent=1)
print("kept", dst)
