"""C10 — unknown enum values and union variants survive a round trip unless exhaustive (partial)."""
from ..facts import ty_adt, tystr, walk_ty, place_local, place_proj, op_place, strip_refs
from ..cfg import CFG, Tracer, thaw
from .. import dt, instance, gentypes, minterp, recog, inline
from . import c17

VARIANT = gentypes.VARIANT
ANY = gentypes.ANY

EXPLANATION = (
    "PARTIAL (equivalence of re-serialized documents for all payloads is not decided; the payload carrier's tables are C13). "
    "Decided on the generated instance, both configurations: (R10.1) every generated enum / union has an Unknown variant "
    "(wrapping conjure_object::private::Variant, resp. {type_: Box<str>, value: Any}) exactly in the default configuration and "
    "none in the exhaustive one, joined with the IR's enums and unions in both directions; (R10.2) classification tables: "
    "from_str and the union variant classifier map every IR name to its own variant, only the fall-through arm reaches the "
    "Unknown construction (default) or an error (exhaustive), and as_str / the union serializer are the inverse tables, so a "
    "listed value can never be classified as unknown and re-serializes under the same name; (R10.3) the predicate guarding "
    "Variant construction accepts exactly non-empty [A-Z0-9_]+ (byte table obtained by constant propagation of the predicate's "
    "MIR over all 256 bytes) and every Variant construction site is guarded by it; (R10.4) the union Unknown arm writes "
    "(\"type\", type_) then (type_, value), both member orders of visit_map build Unknown with the payload read as Any, a "
    "type/member disagreement is an error, and Ok is only returned after the 'no further member' check; (R10.5) the generator "
    "emits the Unknown pieces exactly on the !exhaustive branch.")


def variant_probe_table(ctx, F, co, root):
    """A function str -> Result<Variant, _> evaluated (decision-table interpreter with concrete strings and iterators) on probe
    names: the empty name, every ASCII character alone / after `A` / before `A`, non-ASCII characters, a long legal name.  It
    must return Ok(Variant(name)) exactly for the non-empty names over [A-Z0-9_].  -> True / False (recorded) or None when a
    probe leaves the interpretable fragment."""
    from .. import minterp
    I = minterp.Interp(F, co, inline=lambda d_, rid: rid.startswith("conjure_object::"), max_depth=5)
    legal = set("ABCDEFGHIJKLMNOPQRSTUVWXYZ0123456789_")
    probes = ["", "AZ09_", "A_B_C_1_2", "\u00e9", "A\u00e9", "\u00e9A", "\uff21", "A\uff21B", "A B", " A", "A ", "A\n"]
    for k in range(128):
        ch = chr(k)
        probes += [ch, "A" + ch, ch + "A"]
    bad = []
    n = 0
    for s_ in probes:
        try:
            r = I.run(root, [s_])
        except minterp.Unsupported:
            return None
        if not (minterp.is_adt(r) and r[1] == "core::result::Result"):
            return None
        n += 1
        want = bool(s_) and all(ch in legal for ch in s_)
        got = r[2] == 0
        if got and not (minterp.is_adt(r[3][0]) and r[3][0][1] == VARIANT and r[3][0][3] and r[3][0][3][0] == s_):
            bad.append(f"{s_!r} -> a Variant holding {r[3][0]!r:.40}")
        elif got != want:
            bad.append(f"{s_!r} is {'accepted' if got else 'rejected'}")
    ctx.check(not bad, "R10.3", root.loc(), f"{root.id}|name-class|probes", f"{root.id}: enum / variant names must be accepted exactly when non-empty over [A-Z0-9_]: " + "; ".join(bad[:6]),
              instance=f"{root.id}: {n} probe names (every ASCII character alone / after / before a legal one, non-ASCII, empty) = specification")
    return not bad


def run(ctx):
    ctx.explanation = EXPLANATION
    ctx.assumptions = ["serde-derive's untagged fallback tries the listed variants before the Unknown variant (documented order)", "C13 decides the Any carrier"]
    F = ctx.F
    ct = F.crate("conjure_test")
    co = F.crate("conjure_object")
    ir = instance.IR()
    enums = gentypes.find_enums(ct, F)
    unions = gentypes.find_unions(ct, F)
    ir_enums = [k for k, (kind, d) in ir.types.items() if kind == "enum"]
    ir_unions = [k for k, (kind, d) in ir.types.items() if kind == "union"]
    ctx.floor("R10.1", "generated enums", len(enums), 2 * len(ir_enums))
    ctx.floor("R10.1", "generated unions", len(unions), 2 * len(ir_unions))
    seen = set()
    # ---------------- enums
    for e in enums:
        k = gentypes.ir_enum_for(ir, list(e.as_table.values()))
        who = f"{e.config}/{e.path.split('::')[-1]}"
        if k is None:
            ctx.violation("R10.1", e.as_str.loc(), f"{e.path}|ir-join", f"{e.path}: as_str constants {sorted(e.as_table.values())} match no IR enum")
            continue
        seen.add((e.config, k))
        values = [v["value"] for v in ir.types[k][1]["values"]]
        unk = gentypes.unknown_variant_of(ct, F, e.adt)
        if e.config == "default":
            ok = len(unk) == 1 and unk[0][1] == "enum-unknown" and len(e.names) == len(values) + 1
        else:
            ok = not unk and len(e.names) == len(values)
        ctx.check(ok, "R10.1", e.as_str.loc(), f"{e.path}|unknown-variant", f"{who}: variants {e.names}, unknown-carrying variants {unk}; the {e.config} configuration requires {'exactly one Unknown(Variant) variant' if e.config == 'default' else 'no Unknown variant'}",
                  instance=f"{who}: {len(values)} listed + {len(unk)} unknown")
        # R10.2 tables
        tab, fall = gentypes.str_match_table(e.from_str, F, gentypes.agg_leaf(e.path))
        inv = {v: kname for kname, v in e.as_table.items()}
        for val in values:
            got = tab.get(val, [])
            ctx.check(got == [inv.get(val)] and inv.get(val) is not None, "R10.2", e.from_str.loc(), f"{e.path}|from_str|{val}",
                      f"{who}: from_str({val!r}) -> {got}, as_str inverse says {inv.get(val)}: a listed value must be classified as itself", instance=f"{who}: {val} <-> {inv.get(val)}")
        extra = set(tab) - set(values)
        ctx.check(not extra, "R10.2", e.from_str.loc(), f"{e.path}|from_str|extra", f"{who}: from_str recognises names the IR does not list: {sorted(extra)}", nontrivial=False)
        # fall-through
        fam = [e.from_str] + ct.closures_of(e.from_str)
        if e.config == "default":
            parses = [t for x in fam for _, t in x.calls() if t["call"]["name"] == "parse" and any(ty_adt(s) == VARIANT for s in t["call"]["substs"])]
            unk_aggs = [(x, bb, s) for x in fam for bb, j, s in x.stmts() if s["r"].get("agg") == "adt" and s["r"]["adt"] == e.path and unk and s["r"]["variant"] == unk[0][0]]
            cfg = CFG(e.from_str)
            only_fall = True
            for x, bb, s in unk_aggs:
                if x is e.from_str:
                    pos = [1 for sbb, allowed, allv in dt.edge_conditions(cfg, bb) if dt.switch_atom(x, sbb)[0] == "call" and dt.str_eq_const(x, dt.switch_atom(x, sbb)[1]) and dt.bool_polarity(allowed)]
                    only_fall = only_fall and not pos
            ctx.check(len(parses) == 1 and unk_aggs and only_fall, "R10.2", e.from_str.loc(), f"{e.path}|from_str|fallthrough",
                      f"{who}: unlisted names must be validated as a Variant (str::parse::<Variant>) and wrapped in the Unknown variant, only on the fall-through arm", instance=f"{who}: unlisted -> parse::<Variant> -> Unknown")
        else:
            errs = [s for x in fam for bb, j, s in x.stmts() if s["r"].get("agg") == "adt" and s["r"].get("variant") == "Err"]
            ctx.check(len(errs) >= 1 and not any(s["r"]["adt"] == e.path and s["r"]["variant"] not in inv.values() for x in fam for bb, j, s in x.stmts() if s["r"].get("agg") == "adt"),
                      "R10.2", e.from_str.loc(), f"{e.path}|from_str|fallthrough", f"{who}: unlisted names must be rejected", instance=f"{who}: unlisted -> Err(ParseEnumError)")
        ctx.check(not (set(e.as_wild) & set(inv.values())), "R10.2", e.as_str.loc(), f"{e.path}|as_str|no-wildcard", f"{who}: as_str reaches listed variants through a wildcard arm", nontrivial=False)
        # derive-generated field visitor knows every IR value
        fv = [b for b in ct.bodies if b.name == "visit_str" and b.id.startswith(e.path.rsplit("::", 1)[0] + "::_") and "__FieldVisitor" in b.path and e.path.split("::")[-1] + ">" in b.path.split("::deserialize")[0] + ">"]
        for b in fv[:1]:
            consts = set()
            for bb, t in b.calls():
                se = dt.str_eq_const(b, t) if t["call"]["def"].startswith("core::cmp::PartialEq") else None
                if se:
                    consts.add(se[1])
            ctx.check(set(values) <= consts, "R10.2", b.loc(), f"{e.path}|derive-visitor", f"{who}: the derived deserializer recognises {sorted(consts)}, IR values {values}", instance=f"{who}: derived visitor knows {values}")
    # ---------------- unions
    for u in unions:
        who = f"{u.config}/{u.path.split('::')[-1]}"
        unk = gentypes.unknown_variant_of(ct, F, u.adt)
        listed = [n for n in u.names if not unk or n != unk[0][0]]
        member_of = {}
        for vn in listed:
            ents = u.arms.get(vn, [])
            ks = [dt.resolve_const(u.ser, t["args"][1]) for bb, t in ents]
            vs = [dt.resolve_const(u.ser, t["args"][2]) for bb, t in ents]
            if len(ents) == 2 and ks[0] and ks[0].get("str") == "type" and vs[0] and "str" in vs[0] and ks[1] and ks[1].get("str") == vs[0]["str"]:
                member_of[vn] = vs[0]["str"]
                tr = Tracer(u.ser)
                ctx.ok("R10.2", u.ser.loc(ents[0][1]["ln"]), f"{who}: {vn} -> {{\"type\": {vs[0]['str']!r}, {vs[0]['str']!r}: value}}")
            else:
                ctx.violation("R10.2", u.ser.loc(), f"{u.path}|serialize|{vn}", f"{who}: variant {vn} must serialize as (\"type\", name) then (name, value) with one constant name; found keys {[k and k.get('str') for k in ks]} / values {[v and v.get('str') for v in vs]}")
        k = gentypes.ir_union_for(ir, list(member_of.values()))
        if k is None:
            ctx.violation("R10.1", u.ser.loc(), f"{u.path}|ir-join", f"{u.path}: member names {sorted(member_of.values())} match no IR union")
            continue
        seen.add((u.config, k))
        members = [f["fieldName"] for f in ir.types[k][1]["union"]]
        if u.config == "default":
            ok = len(unk) == 1 and unk[0][1] == "union-unknown" and len(u.names) == len(members) + 1
        else:
            ok = not unk and len(u.names) == len(members)
        ctx.check(ok, "R10.1", u.ser.loc(), f"{u.path}|unknown-variant", f"{who}: variants {u.names}, unknown-carrying {unk}; the {u.config} configuration requires {'exactly one Unknown{type_, value: Any}' if u.config == 'default' else 'no Unknown variant'}",
                  instance=f"{who}: {len(members)} listed + {len(unk)} unknown")
        # classifier
        if u.variant_visit is None:
            ctx.violation("R10.2", u.ser.loc(), f"{u.path}|classifier", f"{who}: variant-name classifier (visit_str) not found")
        else:
            tab, fall = gentypes.str_match_table(u.variant_visit, F, gentypes.agg_leaf(u.variant_adt))
            inv = {m: v for v, m in member_of.items()}
            for m in members:
                ctx.check(tab.get(m) == [inv.get(m)], "R10.2", u.variant_visit.loc(), f"{u.path}|classify|{m}", f"{who}: member name {m!r} is classified as {tab.get(m)}, the serializer writes it for {inv.get(m)}", instance=f"{who}: {m!r} <-> {inv.get(m)}")
            fnames = [f for f, _ in fall]
            if u.config == "default":
                ctx.check(len(fall) >= 1 and all(f not in inv.values() for f in fnames) and all(n == len(members) for _, n in fall), "R10.2", u.variant_visit.loc(), f"{u.path}|classify|fallthrough",
                          f"{who}: only names equal to no listed member may become Unknown (fall-through arms {fall})", instance=f"{who}: unlisted -> Unknown after {len(members)} negative tests")
            else:
                errs = [t for _, t in u.variant_visit.calls() if t["call"]["name"] in ("unknown_variant", "invalid_value", "custom")]
                vb = u.variant_visit
                vcfg = CFG(vb)
                okb = [bb for bb, _, s in dt.ok_return_blocks(vb)]
                leak = False
                for i, blk in enumerate(vb.blocks):
                    if "switch" not in blk["t"] or i not in vcfg.reach:
                        continue
                    atom = dt.switch_atom(vb, i)
                    if atom[0] == "call" and dt.str_eq_const(vb, atom[1]):
                        for val, tg in dt.switch_edges(vb, i) if hasattr(dt, "switch_edges") else [(v_, t_) for v_, t_ in blk["t"]["targets"]] + [(None, blk["t"]["otherwise"])]:
                            if val == 0:  # the comparison was false
                                # all-negative continuation: no further string test reachable => unlisted name
                                more = any("switch" in vb.blocks[x]["t"] and dt.switch_atom(vb, x)[0] == "call" and dt.str_eq_const(vb, dt.switch_atom(vb, x)[1]) for x in vcfg.reachable_from(tg))
                                if not more and any(o in vcfg.reachable_from(tg) for o in okb):
                                    leak = True
                ctx.check(not fall and len(errs) >= 1 and not leak and (members == [] or okb), "R10.2", u.variant_visit.loc(), f"{u.path}|classify|fallthrough",
                          f"{who}: unlisted member names must be rejected (fall-through values {fall}, Ok reachable after all tests failed: {leak})", instance=f"{who}: unlisted -> error")
        # R10.4 unknown arm and visit_map
        if u.config == "default" and unk:
            ents = u.arms.get(unk[0][0], [])
            ok = len(ents) == 2
            if ok:
                tr = Tracer(u.ser, through_calls=False)
                k0 = dt.resolve_const(u.ser, ents[0][1]["args"][1])
                f_v0 = field_names(tr.sources(ents[0][1]["args"][2]))
                f_k1 = field_names(tr.sources(ents[1][1]["args"][1]))
                f_v1 = field_names(tr.sources(ents[1][1]["args"][2]))
                ok = k0 is not None and k0.get("str") == "type" and "type_" in f_v0 and "type_" in f_k1 and "value" in f_v1 and "value" not in f_k1
                ok = ok and CFG(u.ser).dominates(ents[0][0], ents[1][0])
            ctx.check(ok, "R10.4", u.ser.loc(), f"{u.path}|unknown-serialize", f"{who}: the Unknown arm must write (\"type\", type_) then (type_, value)", instance=f"{who}: Unknown -> {{\"type\": type_, type_: value}}")
        if u.visit_map is not None:
            b = u.visit_map
            cfg = CFG(b)
            if u.config == "default" and unk:
                ua = F.adt(unk_struct(ct, u.adt, unk[0][0]))
                sites = [(bb, s) for bb, j, s in b.stmts() if s["r"].get("agg") == "adt" and s["r"]["adt"] == unk_struct(ct, u.adt, unk[0][0])]
                anyvals = [t for _, t in b.calls() if t["call"]["name"] == "next_value" and any(ty_adt(x) == ANY for x in t["call"]["substs"])]
                ctx.check(len(sites) == 2 and len(anyvals) == 2, "R10.4", b.loc(), f"{u.path}|visit_map|both-orders", f"{who}: Unknown must be constructed in both member orders with the payload read as Any (sites {len(sites)}, Any reads {len(anyvals)})",
                          instance=f"{who}: Unknown built in both orders, payload: Any")
            # disagreement -> Err ; trailing member check
            oks = dt.ok_return_blocks(b)
            nk = [(bb, t) for bb, t in b.calls() if t["call"]["name"] == "next_key"]
            good = False
            for okbb, _, s in oks:
                for sbb, allowed, allv in dt.edge_conditions(cfg, okbb):
                    atom = dt.switch_atom(b, sbb)
                    if atom[0] == "call" and atom[1]["call"]["name"] in ("is_some", "is_none"):
                        pol = dt.bool_polarity(allowed)
                        none = (pol is False) if atom[1]["call"]["name"] == "is_some" else (pol is True)
                        vt = dt.value_tracer(b)
                        if none and any(dt.derives_from_call(b, atom[1]["args"][0], kb, vt) for kb, _ in nk):
                            good = True
            ctx.check((good and len(oks) == 1) or (not oks and not u.names), "R10.4", b.loc(), f"{u.path}|visit_map|no-third-member", f"{who}: Ok(value) must be returned only after checking that no further member follows", instance=f"{who}: Ok dominated by 'no third member'")
            insts, probs = gentypes.union_agreement(u, ct, F)
            for x in insts:
                ctx.ok("R10.4", b.loc(), f"{who}: member-first order accepted only if {x}")
            for k_, w_ in probs:
                ctx.violation("R10.4", b.loc(), f"{u.path}|visit_map|{k_}", f"{who}: a document whose member and `type` disagree must be rejected in the member-first order — {w_}")
            neq = [t for _, t in b.calls() if t["call"]["def"] in ("core::cmp::PartialEq::ne", "core::cmp::PartialEq::eq")]
            ctx.check(len(neq) >= (2 if (u.config == "default" and unk) else 1) or not members, "R10.4", b.loc(), f"{u.path}|visit_map|disagreement", f"{who}: type/member disagreement must be detected in the value-first order (and for unknown names)", instance=f"{who}: type vs member compared", nontrivial=False)
    for cfgname in ("default", "exhaustive"):
        for k in ir_enums + ir_unions:
            ctx.check((cfgname, k) in seen, "R10.1", "conjure_test", f"{cfgname}|{k[1]}|generated", f"IR type {k[1]} has no generated counterpart in the {cfgname} configuration", nontrivial=False)
    # ---------------- R10.3 name class
    def builds_variant(x):
        return any(s["r"].get("agg") == "adt" and s["r"]["adt"] == VARIANT for _, _, s in x.stmts())
    # functions (with their closures: `valid(s).then(|| Variant(..))`) that construct a Variant
    roots = {}
    for x in co.bodies:
        if builds_variant(x) and x.trait != "core::clone::Clone":
            r_ = co.body(x.d.get("root")) if x.kind == "closure" and x.d.get("root") else x
            roots[(r_ or x).id] = r_ or x
    fams = {rid: [r_] + co.closures_of(r_) for rid, r_ in roots.items()}
    pred = [b for b in co.bodies if b.kind in ("fn", "assoc_fn") and tystr(b.local_ty(0)) == "bool" and b.argc == 1 and any(
        any(t["call"].get("id") == b.id for y in fam for _, t in y.calls()) for fam in fams.values())]
    vsites = []
    for cn in ("conjure_test", "conjure_http", "conjure_serde", "conjure_error"):
        for x in F.crate(cn).bodies:
            for bb, j, s in x.stmts():
                if s["r"].get("agg") == "adt" and s["r"]["adt"] == VARIANT:
                    ctx.violation("R10.3", x.loc(s["ln"]), f"{x.id}|foreign-variant-site", f"{x.id}: constructs a Variant outside conjure_object")
    probe_done = False
    if len(pred) != 1:
        # no single bool predicate (the validator may return a structured verdict): the constructors themselves are evaluated
        # on a table of probe names
        verdicts = [variant_probe_table(ctx, F, co, r_) for _, r_ in sorted(roots.items()) if r_.kind in ("fn", "assoc_fn") and r_.argc == 1]
        if verdicts and all(v is not None for v in verdicts):
            probe_done = True
            ctx.floor("R10.3", "Variant construction sites", len(roots), 1)
        else:
            ctx.violation("R10.3", "conjure_object", "anchor|variant-predicate", f"expected one bool predicate guarding Variant construction, found {len(pred)} (and the constructors are not evaluable on probe names)")
    if probe_done:
        pass
    elif len(pred) != 1:
        pass
    else:
        p = pred[0]
        for rid, r_ in sorted(roots.items()):
            # decided on the function with its combinators lowered and its closures spliced in
            x = inline.expand(co, r_, depth=0, lower=True)
            rest = [y for y in co.closures_of(r_) if y.id not in x.inlined and builds_variant(y)]
            for x in [x] + rest:
                cfg = CFG(x)
                tr = Tracer(x)
                for bb, j, s in x.stmts():
                    if not (s["r"].get("agg") == "adt" and s["r"]["adt"] == VARIANT):
                        continue
                    vsites.append((x, bb, s))
                    ok = False
                    for sbb, allowed, allv in dt.edge_conditions(cfg, bb):
                        atom = dt.switch_atom(x, sbb)
                        if atom[0] == "call" and atom[1]["call"].get("id") == p.id and dt.bool_polarity(allowed) is True:
                            a1 = {q for q in tr.sources(atom[1]["args"][0]) if q[0] != "const"}
                            a2 = {q for q in Tracer(x, through_calls=True).sources(s["r"]["ops"][0]) if q[0] not in ("const", "call")}
                            ok = bool(a1) and a1 <= a2
                    ctx.check(ok, "R10.3", x.loc(s["ln"]), f"{r_.id}|variant-guarded", f"{r_.id}: Variant constructed without being guarded by the name predicate on the same string", instance=f"{r_.id}: Variant(s) guarded by predicate(s)")
        ctx.floor("R10.3", "Variant construction sites", len(vsites), 1)
        # name class: truth table of the validator over (emptiness test, all()) and the per-unit class by constant propagation
        try:
            an = recog.analyse(F, co, p)
            want = set(b"ABCDEFGHIJKLMNOPQRSTUVWXYZ0123456789_")
            acc = an["accepted"]
            show = lambda x: chr(x) if 32 < x < 127 else f"U+{x:04X}"
            ctx.check(acc == want, "R10.3", an["pred"].loc(), "name-class|bytes", f"enum-name class: wrongly accepted {[show(x) for x in sorted(acc - want)[:8]]}, wrongly rejected {[show(x) for x in sorted(want - acc)[:8]]}",
                      instance=f"name class = [A-Z0-9_] ({len(acc)} accepted, {an['domain']} {an['unit']} values evaluated)")
            trp = Tracer(p, through_calls=True)
            rooted = all(trp.root_locals(t["args"][0]) == {1} for _, t in (an["all_call"], an["empty_call"]))
            ctx.check(an["law_ok"] and rooted, "R10.3", p.loc(), "name-class|non-empty", "the name predicate must return true exactly when the name is non-empty and every unit is in the class"
                      + (f" — {an['witness']}" if an["witness"] else "") + ("" if rooted else " — the tests do not look at the argument"), instance="name class: true iff non-empty && all(class)")
        except recog.NotAnalysable as e_:
            # not `non-empty && all(class)`: the constructors are evaluated on the probe names instead
            verdicts = [variant_probe_table(ctx, F, co, r_) for _, r_ in sorted(roots.items()) if r_.kind in ("fn", "assoc_fn") and r_.argc == 1]
            if not (verdicts and all(v is not None for v in verdicts)):
                ctx.violation("R10.3", p.loc(), "name-class|shape", f"name predicate left the analysable fragment (non-empty && all(class)): {e_}")
    # ---------------- R10.5 generator
    tm = F.tmpl()
    if tm is not None:
        n = 0
        for fn in tm["functions"]:
            if not any(fn["file"].endswith(x) for x in ("conjure-codegen/src/enums.rs", "conjure-codegen/src/unions.rs")):
                continue
            for q in fn["quotes"]:
                txt = q["text"]
                mentions = ("Unknown" in txt and ("Unknown (" in txt or "Unknown {" in txt or "#unknown" in txt)) or "unknown" in " ".join(q["interp"])
                if not mentions:
                    continue
                conds = [c_ for c_ in q["conds"] if "exhaustive" in c_]
                if not conds:
                    continue
                n += 1
                ok = all((c_.startswith("if !") or c_.startswith("if ! ") or c_.startswith("else of if") and "!" not in c_.split("if", 2)[-1][:3]) for c_ in conds)
                ctx.check(ok, "R10.5", f"{fn['file']}:{q['line']}", f"{fn['name']}|unknown-under-not-exhaustive|{q['line'] - fn['line']}", f"{fn['name']}: a template mentioning the Unknown variant is emitted under {conds}; it must be on the !exhaustive branch",
                          instance=f"{fn['name']}: Unknown piece under {conds[0][:40]}", nontrivial=False)
        ctx.floor("R10.5", "Unknown templates guarded by the exhaustive flag", n, 4)
        # wire names of enum values are the declared strings themselves, never derived from the (case-converted) Rust identifier:
        # `rename_all` re-derives them from the identifier and is not the inverse of the identifier's conversion in general
        # (LEVEL_2 -> Level2 -> LEVEL2)
        nren = 0
        for fn in tm["functions"]:
            if "conjure-codegen/src/" not in fn["file"]:
                continue
            for q in fn["quotes"]:
                txt = q["text"].replace(" ", "")
                if "rename_all" in txt and "serde" in txt:
                    ctx.violation("R10.5", f"{fn['file']}:{q['line']}", f"{fn['name']}|serde-rename-all", f"{fn['name']}: emits #[serde(rename_all = ..)]: wire names would be re-derived from Rust identifiers instead of being the declared values (declared names that the identifier conversion does not round-trip change on the wire and listed values are classified as unknown)")
                if fn["file"].endswith("conjure-codegen/src/enums.rs") and "serde(rename=#" in txt:
                    nren += 1
                    var = txt.split("serde(rename=#", 1)[1].split(")")[0]
                    bound = (fn["lets"].get(var) or "").replace(" ", "")
                    derived = any(x in bound for x in ("type_name(", "field_name(", "_case(", "to_lowercase(", "to_uppercase("))
                    ctx.check(not derived and not q["conds"], "R10.5", f"{fn['file']}:{q['line']}", f"{fn['name']}|variant-rename-declared-value",
                              f"{fn['name']}: the serde name of an enum variant is `{var}` = `{bound[:60]}` under {q['conds']}; it must be the declared value itself, unconditionally",
                              instance=f"{fn['name']}: #[serde(rename = #{var})] with the declared value")
        if not nren:
            enum_serde = [q for fn in tm["functions"] if fn["file"].endswith("conjure-codegen/src/enums.rs") for q in fn["quotes"] if "serde::Serialize" in q["text"].replace(" ", "") and "enum#" in q["text"].replace(" ", "")]
            if enum_serde:
                ctx.violation("R10.5", "conjure-codegen/src/enums.rs", "enum|variant-rename-missing", "generated enums derive Serialize/Deserialize but no variant carries #[serde(rename = <declared value>)]: the wire name would be the Rust identifier")
    # ---------------- R10.6 the payload of an unknown union variant is carried by Any (shared with C13)
    from . import c13
    ctx.include(c13, {"R13.1", "R13.2", "R13.3"}, "R10.6", "the payload of an unknown variant must re-serialize to an equivalent document")


def field_names(sources):
    out = set()
    for s in sources:
        while s[0] == "field":
            for e in thaw(s[2]):
                if isinstance(e, dict) and e.get("n"):
                    out.add(e["n"])
            s = s[1]
    return out


def unk_struct(ct, adt, vname):
    for v in adt["variants"]:
        if v["name"] == vname:
            return ty_adt(v["fields"][0]["ty"])
    return None


_run_c10 = run


def run(ctx):
    _run_c10(ctx)
    # R10.7 per-call state parked in a thread-local by the dynamic value is put back on every exit
    from .. import tls as _tls
    _tls.check(ctx, ctx.F.crate("conjure_object"), "R10.7", "an unknown variant's payload must be carried whatever was (unsuccessfully) read before on the same thread")
