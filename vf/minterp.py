"""Decision-table extraction: path-sensitive constant propagation over loop-free MIR whose inputs range over finite
enum domains.  Values:
   ints / bools / strs                       python values
   ("adt", path, variant_index, [fields])    enum / struct values (also Option/Result)
   ("tuple", [fields])
   ("sym", text)                             opaque symbolic input
   ("proj", base, path)                      projection out of an opaque value
   ("call", def, [args])                     result of a call that is not interpreted
References are transparent (a reference to a value is the value); writes through references are not supported
(the evaluator raises Unsupported and the rule fails closed)."""
from .facts import op_place, place_local, place_proj


class Unsupported(Exception):
    pass


NO_VALUE = object()


class _Fact(dict):
    """call fact carried inside a function-item value; compares / hashes by definition path only"""
    def __eq__(self, o):
        return isinstance(o, dict) and self.get("def") == o.get("def")

    def __ne__(self, o):
        return not self.__eq__(o)

    def __hash__(self):
        return hash(self.get("def"))

    def __repr__(self):
        return "<fn>"


class _It:
    """a concrete iterator over finitely many concrete items; a mutable object, shared by the copies of a `&mut` borrow"""
    __slots__ = ("items",)

    def __init__(self, items):
        self.items = list(items)

    def __repr__(self):
        return f"_It({self.items!r})"


def is_it(v):
    return isinstance(v, tuple) and len(v) == 2 and v[0] == "iter" and isinstance(v[1], _It)


def _bytes_of(v):
    """the bytes of a concrete string / byte-string value, else None"""
    if isinstance(v, str):
        return v.encode()
    if isinstance(v, tuple) and v and v[0] == "mem" and isinstance(v[1], (bytes, bytearray)):
        return bytes(v[1])
    return None


def adt(path, vi, fields=()):
    return ("adt", path, vi, list(fields))


STD_VARIANTS = {"core::cmp::Ordering": ["Less", "Equal", "Greater"], "core::option::Option": ["None", "Some"], "core::result::Result": ["Ok", "Err"], "core::num::FpCategory": ["Nan", "Infinite", "Zero", "Subnormal", "Normal"],
                "core::ops::control_flow::ControlFlow": ["Continue", "Break"], "core::task::poll::Poll": ["Ready", "Pending"]}


class Interp:
    def __init__(self, facts, crate, inline=None, max_depth=3, pure_eq=True):
        self.F = facts
        self.crate = crate
        self.inline = inline  # predicate(def, id) -> bool : interpret this local callee
        self.max_depth = max_depth
        self.oracle = {}      # {adt path: variant index} assumed for discriminants of opaque values of that enum type
        self.call_oracle = None   # f(callee fact, argv) -> value, or NO_VALUE to interpret normally
        # iterative form of a structural recursion: `loop { cur = match cur { Wrapper(x) => inner(x), .. => return .. } }`.
        # When set to an enum path, re-reaching the same discriminant read (depth 0) with an opaque scrutinee of that enum and
        # no other loop-carried state (every other local live at the loop head unchanged) yields ("recurse", scrutinee):
        # the function continues exactly as a recursive call on that value would.
        self.loop_recurse = None
        self._tsubs = [{}]     # type arguments of the generic functions being interpreted (innermost last)

    def variant_index(self, path, name):
        if path in STD_VARIANTS:
            return STD_VARIANTS[path].index(name)
        a = self.F.adt(path)
        return [v["name"] for v in a["variants"]].index(name)

    def variant_name(self, path, idx):
        if path in STD_VARIANTS:
            return STD_VARIANTS[path][idx]
        a = self.F.adt(path)
        return a["variants"][idx]["name"]

    def n_variants(self, path):
        if path in STD_VARIANTS:
            return len(STD_VARIANTS[path])
        return len(self.F.adt(path)["variants"])

    def run(self, body, args, depth=0, start=0, env=None, stop=()):
        """interpret from block `start`; reaching a block in `stop` (after at least one step) returns ("stop", bb)"""
        env = dict(env or {})
        for k, a in enumerate(args):
            env[k + 1] = a
        bb = start
        steps = 0
        loop_seen = {}
        while True:
            steps += 1
            if steps > 400:
                raise Unsupported("loop or too long")
            if steps > 1 and bb in stop:
                self.last_env = env
                return ("stop", bb)
            blk = body.blocks[bb]
            for j_, s in enumerate(blk["s"]):
                if "d" not in s:
                    continue
                if depth == 0 and self.loop_recurse and "discr" in s["r"] and hasattr(body, "local_ty"):
                    rec = self._loop_recurse(body, env, bb, j_, s, loop_seen)
                    if rec is not None:
                        return rec
                self.assign(body, env, s["d"], self.rvalue(body, env, s["r"]))
            t = blk["t"]
            if "return" in t:
                return env.get(0, ("tuple", []))
            if "goto" in t:
                bb = t["goto"]
            elif "drop" in t:
                bb = t["target"]
            elif "assert" in t:
                try:
                    cv = self.operand(body, env, t["assert"])
                except Unsupported:
                    cv = None
                if isinstance(cv, (bool, int)) and bool(cv) != bool(t.get("expected", True)):
                    raise Unsupported(f"assertion ({t.get('kind')}) fails: the code panics here")
                bb = t["target"]
            elif "switch" in t and "cfg" in str(t.get("x") or "") and isinstance(self._try_operand(body, env, t["switch"]), bool):
                # `if cfg!(debug_assertions) { .. }` (debug_assert!): the tables describe the release build, where the block is
                # compiled out; a debug assertion does not decide results (and its condition may be outside the fragment)
                nxt = t["otherwise"]
                for val, tg in t["targets"]:
                    if val == 0:
                        nxt = tg
                bb = nxt
            elif "switch" in t:
                v = self.operand(body, env, t["switch"])
                if isinstance(v, bool):
                    v = int(v)
                if not isinstance(v, int):
                    raise Unsupported(f"switch on non-constant {v!r}")
                nxt = t["otherwise"]
                for val, tg in t["targets"]:
                    if val == v:
                        nxt = tg
                bb = nxt
            elif "call" in t:
                f = t["call"]
                if self._tsubs[-1]:
                    from .inline import _subst_types
                    f = _subst_types(f, self._tsubs[-1])
                argv = [self.operand(body, env, a) for a in t["args"]]
                res = self.call(body, f, argv, depth)
                self.assign(body, env, t["dest"], res)
                if t.get("target") is None:
                    raise Unsupported("diverging call")
                bb = t["target"]
            elif "unreachable" in t:
                raise Unsupported("reached unreachable")
            else:
                raise Unsupported("terminator " + ",".join(t))

    def _loop_recurse(self, body, env, bb, j, s, seen):
        from . import dt as _dt
        from .facts import ty_adt as _ty_adt
        if _ty_adt(_dt.place_ty(body, self.F, s["r"]["discr"]) or {}) != self.loop_recurse:
            return None
        key = (bb, j)
        if key not in seen:
            seen[key] = dict(env)
            return None
        try:
            v = self.place(body, env, s["r"]["discr"])
        except Unsupported:
            return None
        if not is_opaque(v):
            return None
        if not hasattr(body, "_live_in"):
            body._live_in = _dt.live_in(body)
        root = place_local(s["r"]["discr"])
        snap = seen[key]
        carried = [l for l in body._live_in[bb] if l != root and env.get(l, NO_VALUE) != snap.get(l, NO_VALUE)]
        if carried:
            raise Unsupported(f"the loop carries state besides the type being peeled ({['_%d' % l for l in carried]})")
        return ("recurse", v)

    def call(self, body, f, argv, depth):
        d = f.get("def", "")
        name = f.get("name", "")
        if self.call_oracle is not None:
            r_ = self.call_oracle(f, argv)
            if r_ is not NO_VALUE:
                return r_
        if d in ("core::clone::Clone::clone", "core::ops::deref::Deref::deref", "core::convert::AsRef::as_ref", "core::borrow::Borrow::borrow",
                 "core::convert::Into::into", "core::convert::From::from", "core::convert::identity") and argv and not is_opaque(argv[0]) \
                and not ((f.get("resolved") or {}).get("local") and self.inline is not None and self.inline((f.get("resolved") or {}).get("def") or d, (f.get("resolved") or {}).get("id"))
                         and self.crate.body((f.get("resolved") or {}).get("id")) is not None):
            return argv[0]          # (a local impl — Deref of a newtype, a custom From — is interpreted instead)
        if d in ("core::cmp::PartialEq::eq", "core::cmp::PartialEq::ne") and len(argv) == 2 and not contains_opaque(argv[0]) and not contains_opaque(argv[1]):
            r = argv[0] == argv[1]
            return r if d.endswith("eq") else not r
        if d.startswith("core::ops::function::Fn") and name in ("call", "call_mut", "call_once") and len(argv) == 2 and isinstance(argv[0], tuple) and argv[0] and argv[0][0] in ("closure", "fn") \
                and isinstance(argv[1], tuple) and argv[1] and argv[1][0] == "tuple":
            return self.apply(body, argv[0], list(argv[1][1]), depth)
        if ((name == "parse" and d.startswith("core::str::<impl str>::parse")) or (name == "from_str" and d == "core::str::traits::FromStr::from_str")) and argv and isinstance(argv[-1], str) \
                and f.get("substs") and (f["substs"][-1 if name == "parse" else 0] or {}).get("prim") in ("f32", "f64"):
            # Rust's float grammar (core::num::dec2flt): optional sign, then inf / infinity / nan (any case) or a decimal with
            # optional exponent; no surrounding whitespace, no underscores
            import re as _re
            txt = argv[-1]
            m_ = _re.fullmatch(r"([+-]?)(?:(inf|infinity|nan)|((?:\d+\.?\d*|\.\d+)(?:[eE][+-]?\d+)?))", txt, _re.I)
            if not m_:
                return adt("core::result::Result", 1, [("sym", "ParseFloatError")])
            if m_.group(2):
                v_ = float("nan") if m_.group(2).lower() == "nan" else float("inf")
            else:
                v_ = float(m_.group(3))
            return adt("core::result::Result", 0, [-v_ if m_.group(1) == "-" else v_])
        if name in ("is_some", "is_none", "is_ok", "is_err") and argv and is_adt(argv[0]) and argv[0][1] in ("core::option::Option", "core::result::Result") and d.startswith(argv[0][1]):
            some_like = argv[0][2] == (1 if argv[0][1].endswith("Option") else 0)
            return some_like if name in ("is_some", "is_ok") else not some_like
        if d in ("core::cmp::Ord::cmp", "core::cmp::PartialOrd::partial_cmp") and len(argv) == 2 and all(isinstance(x_, (bool, int)) for x_ in argv):
            a_, b_ = int(argv[0]), int(argv[1])
            o_ = adt("core::cmp::Ordering", 0 if a_ < b_ else 1 if a_ == b_ else 2, [])
            return o_ if d.endswith("::cmp") else adt("core::option::Option", 1, [o_])
        RI = "core::ops::range::RangeInclusive"
        if d == RI + "::<Idx>::new" and len(argv) == 2:
            return adt(RI, 0, [argv[0], argv[1], False])
        if d in (RI + "::<Idx>::start", RI + "::<Idx>::end") and argv and is_adt(argv[0]) and argv[0][1] == RI:
            return argv[0][3][0 if name == "start" else 1]
        if name == "contains" and len(argv) == 2 and is_adt(argv[0]) and argv[0][1] in (RI, "core::ops::range::Range") and d.startswith("core::ops::range::"):
            lo_, hi_ = argv[0][3][0], argv[0][3][1]
            if all(isinstance(x_, int) and not isinstance(x_, bool) for x_ in (lo_, hi_, argv[1])):
                return lo_ <= argv[1] <= hi_ if argv[0][1] == RI else lo_ <= argv[1] < hi_
        comb = self._combinator(body, f, argv, depth)
        if comb is not NO_VALUE:
            return comb
        # `.await`, as the compiler spells it (into_future, Pin::new_unchecked, get_context, poll, switch on Ready / Pending): every
        # future completes at its first poll — an `async fn` of this crate is interpreted when polled, an opaque future's
        # value is the value its call was given (call_oracle); suspension (`yield`) is therefore never reached
        if d in ("core::convert::TryFrom::try_from", "core::convert::TryInto::try_into") and len(argv) == 1 and isinstance(argv[0], int) and not isinstance(argv[0], bool) and f.get("substs"):
            # integer narrowing / widening: value preserving or an error
            tgt_ = (f["substs"][0] if d.endswith("try_from") else f["substs"][-1]) or {}
            from . import consteval as _ce
            if tgt_.get("prim") in _ce.INT_BITS:
                return adt("core::result::Result", 0, [argv[0]]) if wrap_int(argv[0], tgt_["prim"]) == argv[0] else adt("core::result::Result", 1, [("sym", "TryFromIntError")])
        if name == "parse" and d.startswith("core::str::<impl str>::parse") and argv and isinstance(argv[0], str) and f.get("substs") and hasattr(self.crate, "resolve_trait_call"):
            # `s.parse::<T>()` is `<T as FromStr>::from_str(s)`: a local impl is interpreted
            late_ = self.crate.resolve_trait_call({"trait": "core::str::traits::FromStr", "name": "from_str", "self_ty": f["substs"][-1], "substs": [f["substs"][-1]]})
            cb_ = self.crate.body(late_["id"]) if late_ else None
            if cb_ is not None and depth < self.max_depth + 1 and (self.inline is None or self.inline(late_["def"], late_["id"])):
                return self.run(cb_, [argv[0]], depth + 1)
        itv = self._iterators(body, f, argv, depth)
        if itv is not NO_VALUE:
            return itv
        if d in ("core::cmp::min", "core::cmp::max", "core::cmp::Ord::min", "core::cmp::Ord::max") and len(argv) == 2 and all(isinstance(x_, int) and not isinstance(x_, bool) for x_ in argv):
            return min(argv) if name == "min" else max(argv)
        if name in ("new_uninit", "new_uninit_in") and d.startswith("alloc::boxed::Box"):
            return ("uninit",)        # `vec![a, b]` / `Box::new(..)` as the compiler spells them: storage filled by the next store
        if name in ("assume_init", "write") and d.startswith("alloc::boxed::Box") and argv:
            return argv[-1] if name == "write" else argv[0]
        if d in ("core::mem::drop", "core::mem::forget"):
            return ("tuple", [])
        if d == "core::future::into_future::IntoFuture::into_future" and argv:
            return argv[0]
        if d in ("core::pin::Pin::<Ptr>::new_unchecked", "core::pin::Pin::<Ptr>::new", "core::future::get_context") and argv:
            return argv[0]
        if d == "core::future::future::Future::poll" and len(argv) == 2:
            fut = argv[0]
            if isinstance(fut, tuple) and fut and fut[0] == "closure":
                cb = self.crate.body(fut[1])
                if cb is None or cb.kind != "coroutine":
                    raise Unsupported("poll of an unknown future")
                if depth >= self.max_depth + 2:
                    raise Unsupported("await nesting too deep")
                self._tsubs.append(dict(fut[3]) if len(fut) > 3 else {})
                try:
                    return adt("core::task::poll::Poll", 0, [self.run(cb, [fut, argv[1]], depth + 1)])
                finally:
                    self._tsubs.pop()
            return adt("core::task::poll::Poll", 0, [fut])
        rd = (f.get("resolved") or {}).get("def") or ""
        if (d == "core::ops::try_trait::Try::branch" or "Try>::branch" in rd) and argv and is_adt(argv[0]) and argv[0][1] in ("core::option::Option", "core::result::Result"):
            v0 = argv[0]
            CF = "core::ops::control_flow::ControlFlow"
            if v0[2] == (1 if v0[1].endswith("Option") else 0):      # Some / Ok
                return adt(CF, 0, [v0[3][0]])
            return adt(CF, 1, [v0])
        if (d == "core::ops::try_trait::FromResidual::from_residual" or "FromResidual" in rd) and argv and is_adt(argv[0]) and argv[0][1] in ("core::option::Option", "core::result::Result"):
            return argv[0]
        if d == "core::intrinsics::discriminant_value" and argv and is_adt(argv[0]):
            return argv[0][2]
        if d == "core::option::Option::<T>::is_some" and is_adt(argv[0]):
            return argv[0][2] == 1
        if d == "core::option::Option::<T>::is_none" and is_adt(argv[0]):
            return argv[0][2] == 0
        if name in FLOAT_PREDICATES and ("<impl f64>" in d or "<impl f32>" in d) and argv and isinstance(argv[0], float):
            return FLOAT_PREDICATES[name](argv[0])
        if name == "classify" and ("<impl f64>" in d or "<impl f32>" in d) and argv and isinstance(argv[0], float):
            v_ = argv[0]
            k_ = 0 if v_ != v_ else 1 if v_ in (float("inf"), float("-inf")) else 2 if v_ == 0 else 3 if abs(v_) < 2.2250738585072014e-308 else 4
            return adt("core::num::FpCategory", k_, [])
        if name in ASCII_PREDICATES and ("<impl u8>" in d or "<impl char>" in d) and argv and isinstance(argv[0], int) and not isinstance(argv[0], bool):
            v = argv[0]
            return 0 <= v < 128 and ASCII_PREDICATES[name](chr(v))
        if f.get("trait") and not (f.get("resolved") or {}).get("local") and hasattr(self.crate, "resolve_trait_call"):
            late = self.crate.resolve_trait_call(f)      # a local trait's method on a type that is concrete by now
            if late is not None:
                f = dict(f, resolved=late)
        rid = (f.get("resolved") or {}).get("id") if f.get("resolved", {}).get("local") else (f.get("id") if f.get("local") else None)
        if rid and depth < self.max_depth and (self.inline is None or self.inline(d, rid)):
            cb = self.crate.body(rid)
            if cb is not None and cb.kind in ("fn", "assoc_fn", "closure"):
                res_ = f.get("resolved") or {}
                targs = res_.get("substs") if res_.get("local") and res_.get("id") == rid else f.get("substs")
                gens = cb.d.get("generics") or []
                tsub = dict(zip(gens, targs)) if targs is not None and gens and len(gens) == len(targs) else {}
                self._tsubs.append({k_: v_ for k_, v_ in tsub.items() if v_ != {"param": k_}})
                try:
                    return self.run(cb, argv, depth + 1)
                except Unsupported:
                    pass
                finally:
                    self._tsubs.pop()
        # tuple-struct / enum-variant constructors used as functions (`.map(Wrapper)`)
        try:
            a_ = self.F.adt(d)
            if a_ and a_.get("kind") == "struct" and len(a_["variants"][0]["fields"]) == len(argv):
                return adt(d, 0, argv)
            if "::" in d:
                par, vn = d.rsplit("::", 1)
                a_ = self.F.adt(par)
                if a_ and a_.get("kind") == "enum":
                    for vi_, v_ in enumerate(a_["variants"]):
                        if v_["name"] == vn and len(v_["fields"]) == len(argv):
                            return adt(par, vi_, argv)
        except Exception:
            pass
        return ("call", (f.get("resolved") or {}).get("def") or d, argv)

    def apply(self, body, fv, args, depth):
        """call a function value (closure / function item) with concrete argument values"""
        if isinstance(fv, tuple) and fv and fv[0] == "closure":
            cb = self.crate.body(fv[1])
            if cb is None:
                raise Unsupported("closure body unavailable")
            self._tsubs.append(dict(fv[3]) if len(fv) > 3 and fv[3] else dict(self._tsubs[-1]) if self._tsubs else {})
            try:
                return self.run(cb, [fv] + list(args), depth + 1)
            finally:
                self._tsubs.pop()
        if isinstance(fv, tuple) and fv and fv[0] == "fn":
            fact = fv[2] if len(fv) > 2 else {"def": fv[1], "name": fv[1].split("::")[-1]}
            d = fact.get("def", "")
            for path, names in STD_VARIANTS.items():
                for vi, vn in enumerate(names):
                    if d == f"{path}::{vn}":
                        return adt(path, vi, list(args))
            return self.call(body, dict(fact), list(args), depth)
        raise Unsupported("call of an unknown function value")

    def _iterators(self, body, f, argv, depth):
        """std iterator adaptors over concrete finite sequences (strings, byte strings, arrays): evaluated eagerly, closures
        applied in iteration order"""
        d, name = f.get("def", ""), f.get("name", "")
        OPT_ = "core::option::Option"
        if not argv:
            return NO_VALUE
        a0 = argv[0]
        # ---- sources
        if isinstance(a0, str) and d.startswith("core::str::<impl str>::"):
            if name == "bytes":
                return ("iter", _It(list(a0.encode())))
            if name == "chars":
                return ("iter", _It([ord(ch) for ch in a0]))
            if name == "char_indices":
                out_, k_ = [], 0
                for ch in a0:
                    out_.append(("tuple", [k_, ord(ch)]))
                    k_ += len(ch.encode())
                return ("iter", _It(out_))
            if name == "as_bytes":
                return ("mem", a0.encode(), None)
            if name == "len":
                return len(a0.encode())
            if name == "is_empty":
                return a0 == ""
            if name == "is_ascii":
                return a0.isascii()
            if name in ("split", "rsplit") and len(argv) == 2 and (isinstance(argv[1], str) or (isinstance(argv[1], int) and not isinstance(argv[1], bool))):
                sep_ = argv[1] if isinstance(argv[1], str) else chr(argv[1])
                if sep_:
                    parts_ = a0.split(sep_)
                    return ("iter", _It(parts_ if name == "split" else parts_[::-1]))
            if name in ("split_once", "rsplit_once") and len(argv) == 2 and (isinstance(argv[1], str) or (isinstance(argv[1], int) and not isinstance(argv[1], bool))):
                pat_ = argv[1] if isinstance(argv[1], str) else chr(argv[1])
                k_ = a0.find(pat_) if name == "split_once" else a0.rfind(pat_)
                return adt(OPT_, 0, []) if (k_ < 0 or not pat_) else adt(OPT_, 1, [("tuple", [a0[:k_], a0[k_ + len(pat_):]])])
            if name in ("find", "rfind") and len(argv) == 2 and (isinstance(argv[1], str) or (isinstance(argv[1], int) and not isinstance(argv[1], bool))):
                pat_ = argv[1] if isinstance(argv[1], str) else chr(argv[1])
                k_ = a0.find(pat_) if name == "find" else a0.rfind(pat_)
                return adt(OPT_, 0, []) if k_ < 0 else adt(OPT_, 1, [len(a0[:k_].encode())])
            if name in ("eq_ignore_ascii_case",) and len(argv) == 2 and isinstance(argv[1], str):
                return a0.lower() == argv[1].lower() if a0.isascii() and argv[1].isascii() else a0 == argv[1]
            if name in ("starts_with", "ends_with", "contains") and len(argv) == 2 and (isinstance(argv[1], str) or (isinstance(argv[1], int) and not isinstance(argv[1], bool))):
                pat_ = argv[1] if isinstance(argv[1], str) else chr(argv[1])
                return a0.startswith(pat_) if name == "starts_with" else a0.endswith(pat_) if name == "ends_with" else pat_ in a0
            if name in ("trim_end_matches", "trim_start_matches", "trim_matches", "strip_prefix", "strip_suffix") and len(argv) == 2 \
                    and (isinstance(argv[1], str) or (isinstance(argv[1], int) and not isinstance(argv[1], bool))):
                pat_ = argv[1] if isinstance(argv[1], str) else chr(argv[1])
                if pat_:
                    s_ = a0
                    if name == "strip_prefix":
                        return adt(OPT_, 1, [s_[len(pat_):]]) if s_.startswith(pat_) else adt(OPT_, 0, [])
                    if name == "strip_suffix":
                        return adt(OPT_, 1, [s_[:-len(pat_)]]) if s_.endswith(pat_) else adt(OPT_, 0, [])
                    if name in ("trim_start_matches", "trim_matches"):
                        while s_.startswith(pat_):
                            s_ = s_[len(pat_):]
                    if name in ("trim_end_matches", "trim_matches"):
                        while s_.endswith(pat_):
                            s_ = s_[:-len(pat_)]
                    return s_
            if name in ("to_string", "to_owned", "as_str", "to_lowercase", "to_uppercase", "to_ascii_lowercase", "to_ascii_uppercase") and len(argv) == 1:
                return {"to_lowercase": a0.lower(), "to_uppercase": a0.upper(), "to_ascii_lowercase": "".join(ch.lower() if ch.isascii() else ch for ch in a0),
                        "to_ascii_uppercase": "".join(ch.upper() if ch.isascii() else ch for ch in a0)}.get(name, a0)
            if name in ("trim", "trim_start", "trim_end") and len(argv) == 1:
                ws_ = " \t\n\r\x0b\x0c\x85\xa0\u1680\u2000\u2001\u2002\u2003\u2004\u2005\u2006\u2007\u2008\u2009\u200a\u2028\u2029\u202f\u205f\u3000"
                return a0.strip(ws_) if name == "trim" else a0.lstrip(ws_) if name == "trim_start" else a0.rstrip(ws_)
        if isinstance(a0, str) and len(argv) == 1 and (d in ("alloc::string::ToString::to_string", "alloc::borrow::ToOwned::to_owned", "alloc::string::String::as_str", "alloc::string::String::into_boxed_str")
                                                    or (name in ("as_str", "len", "is_empty", "as_bytes", "into_bytes") and d.startswith("alloc::string::String::"))):
            return {"len": len(a0.encode()), "is_empty": a0 == "", "as_bytes": ("mem", a0.encode(), None), "into_bytes": ("mem", a0.encode(), None)}.get(name, a0)
        b0 = _bytes_of(a0) if not isinstance(a0, str) else None
        if b0 is not None and d.startswith("core::slice::<impl [T]>::"):
            if name == "iter":
                return ("iter", _It(list(b0)))
            if name == "len":
                return len(b0)
            if name == "is_empty":
                return not b0
            if name == "is_ascii":
                return all(x < 128 for x in b0)
            if name in ("first", "last"):
                return adt(OPT_, 1, [b0[0 if name == "first" else -1]]) if b0 else adt(OPT_, 0, [])
            if name == "contains" and len(argv) == 2 and isinstance(argv[1], int):
                return argv[1] in b0
        if isinstance(a0, tuple) and a0 and a0[0] == "array" and name in ("binary_search", "contains") and len(argv) == 2 and d.startswith("core::slice::<impl [T]>::") \
                and all(isinstance(x_, (str, int)) and not isinstance(x_, bool) for x_ in list(a0[1]) + [argv[1]]) and len({type(x_) for x_ in list(a0[1]) + [argv[1]]}) <= 1:
            items_, key_ = list(a0[1]), argv[1]
            if name == "contains":
                return key_ in items_
            # core's binary search, step for step (its answer on an unsorted slice is whatever these steps produce)
            size_ = len(items_)
            if size_ == 0:
                return adt("core::result::Result", 1, [0])
            base_ = 0
            while size_ > 1:
                half_ = size_ // 2
                mid_ = base_ + half_
                if not items_[mid_] > key_:
                    base_ = mid_
                size_ -= half_
            if items_[base_] == key_:
                return adt("core::result::Result", 0, [base_])
            return adt("core::result::Result", 1, [base_ + (1 if items_[base_] < key_ else 0)])
        if isinstance(a0, tuple) and a0 and a0[0] == "array" and name in ("iter", "into_iter") and not contains_opaque(a0):
            return ("iter", _It(list(a0[1])))
        if name == "into_iter" and d == "core::iter::traits::collect::IntoIterator::into_iter":
            if is_it(a0):
                return a0
            if b0 is not None:
                return ("iter", _It(list(b0)))
        if not is_it(a0):
            return NO_VALUE
        # ---- adaptors and consumers on a concrete iterator
        it = a0[1]
        if not (d.startswith("core::iter::") or d.startswith("core::str::") or d.startswith("core::slice::") or d.startswith("core::iter::traits::")):
            return NO_VALUE

        def call_(fn, *args):
            return self.apply(body, fn, list(args), depth)

        def truthy(v):
            if not isinstance(v, bool):
                raise Unsupported("iterator predicate did not evaluate to a bool")
            return v
        if name == "next" and len(argv) == 1:
            return adt(OPT_, 1, [it.items.pop(0)]) if it.items else adt(OPT_, 0, [])
        if name == "next_back" and len(argv) == 1:
            return adt(OPT_, 1, [it.items.pop()]) if it.items else adt(OPT_, 0, [])
        if name in ("by_ref", "fuse", "copied", "cloned", "into_iter", "peekable") and len(argv) == 1:
            return a0
        if name == "enumerate" and len(argv) == 1:
            return ("iter", _It([("tuple", [k_, x_]) for k_, x_ in enumerate(it.items)]))
        if name == "rev" and len(argv) == 1:
            return ("iter", _It(it.items[::-1]))
        if name in ("skip", "take") and len(argv) == 2 and isinstance(argv[1], int) and not isinstance(argv[1], bool):
            return ("iter", _It(it.items[argv[1]:] if name == "skip" else it.items[:argv[1]]))
        if name == "count" and len(argv) == 1:
            n_ = len(it.items)
            it.items = []
            return n_
        if name == "last" and len(argv) == 1:
            r_ = adt(OPT_, 1, [it.items[-1]]) if it.items else adt(OPT_, 0, [])
            it.items = []
            return r_
        if name == "nth" and len(argv) == 2 and isinstance(argv[1], int):
            k_ = argv[1]
            r_ = adt(OPT_, 1, [it.items[k_]]) if k_ < len(it.items) else adt(OPT_, 0, [])
            it.items = it.items[k_ + 1:]
            return r_
        if len(argv) == 2 and isinstance(argv[1], tuple) and argv[1] and argv[1][0] in ("closure", "fn"):
            fn = argv[1]
            if name == "map":
                return ("iter", _It([call_(fn, x_) for x_ in it.items]))
            if name == "filter":
                return ("iter", _It([x_ for x_ in it.items if truthy(call_(fn, x_))]))
            if name in ("take_while", "skip_while", "map_while"):
                out_, rest_ = [], list(it.items)
                while rest_:
                    r_ = call_(fn, rest_[0])
                    if name == "map_while":
                        if not (is_adt(r_) and r_[1] == OPT_):
                            raise Unsupported("map_while closure result")
                        if r_[2] == 0:
                            break
                        out_.append(r_[3][0])
                    elif not truthy(r_):
                        break
                    else:
                        out_.append(rest_[0])
                    rest_.pop(0)
                return ("iter", _It(rest_ if name == "skip_while" else out_))
            if name in ("all", "any"):
                while it.items:
                    x_ = it.items.pop(0)
                    if truthy(call_(fn, x_)) != (name == "all"):
                        return name == "any"
                return name == "all"
            if name == "find":
                while it.items:
                    x_ = it.items.pop(0)
                    if truthy(call_(fn, x_)):
                        return adt(OPT_, 1, [x_])
                return adt(OPT_, 0, [])
            if name in ("position", "rposition"):
                seq_ = list(enumerate(it.items))
                for k_, x_ in (seq_ if name == "position" else seq_[::-1]):
                    if truthy(call_(fn, x_)):
                        return adt(OPT_, 1, [k_])
                return adt(OPT_, 0, [])
            if name == "find_map":
                while it.items:
                    r_ = call_(fn, it.items.pop(0))
                    if not (is_adt(r_) and r_[1] == OPT_):
                        raise Unsupported("find_map closure result")
                    if r_[2] == 1:
                        return r_
                return adt(OPT_, 0, [])
            if name == "for_each":
                while it.items:
                    call_(fn, it.items.pop(0))
                return ("tuple", [])
        if name == "fold" and len(argv) == 3 and isinstance(argv[2], tuple) and argv[2] and argv[2][0] in ("closure", "fn"):
            acc_ = argv[1]
            while it.items:
                acc_ = call_(argv[2], acc_, it.items.pop(0))
            return acc_
        return NO_VALUE

    def _combinator(self, body, f, argv, depth):
        """std Option / Result / bool combinators on concrete receivers (semantics table shared with vf.lower)"""
        from . import lower as _lower
        OPT_, RES_ = "core::option::Option", "core::result::Result"
        if f.get("name") == "transpose" and argv and is_adt(argv[0]) and not f.get("trait"):
            r0 = argv[0]
            if r0[1] == OPT_ and f.get("def", "").startswith(OPT_):
                if r0[2] == 0:
                    return adt(RES_, 0, [adt(OPT_, 0, [])])
                inner = r0[3][0]
                if is_adt(inner) and inner[1] == RES_:
                    return adt(RES_, 0, [adt(OPT_, 1, [inner[3][0]])]) if inner[2] == 0 else adt(RES_, 1, [inner[3][0]])
            if r0[1] == RES_ and f.get("def", "").startswith(RES_):
                if r0[2] == 1:
                    return adt(OPT_, 1, [adt(RES_, 1, [r0[3][0]])])
                inner = r0[3][0]
                if is_adt(inner) and inner[1] == OPT_:
                    return adt(OPT_, 0, []) if inner[2] == 0 else adt(OPT_, 1, [adt(RES_, 0, [inner[3][0]])])
            return NO_VALUE
        co = _lower.combinator_of({"call": f})
        if co is None or not argv:
            return NO_VALUE
        kind, row = co
        recv = argv[0]
        if kind == "bool":
            if not isinstance(recv, bool):
                return NO_VALUE
            vi, payload = int(recv), None
        else:
            if not (is_adt(recv) and recv[1] == kind):
                return NO_VALUE
            vi = recv[2]
            payload = recv[3][0] if recv[3] else None

        def ev(e):
            k = e[0]
            if k == "payload":
                return payload
            if k == "same":
                return recv
            if k == "arg":
                return argv[e[1]]
            if k == "bool":
                return e[1]
            if k == "unit":
                return adt(e[1], e[2], [])
            if k == "wrap":
                return adt(e[1], e[2], [ev(e[3])])
            if k == "callf":
                return self.apply(body, argv[e[1]], [ev(x) for x in e[2]], depth)
            if k == "zip":
                o_ = argv[e[1]]
                if not (is_adt(o_) and o_[1] == "core::option::Option"):
                    raise Unsupported("zip with a symbolic option")
                return adt("core::option::Option", 1, [("tuple", [payload, o_[3][0]])]) if o_[2] == 1 else adt("core::option::Option", 0, [])
            if k == "ifp":
                c_ = self.apply(body, argv[e[1]], [payload], depth)
                if not isinstance(c_, bool):
                    raise Unsupported("filter predicate on a symbolic value")
                return ev(e[2]) if c_ else ev(e[3])
            raise Unsupported("combinator expression")
        try:
            return ev(row[vi])
        except IndexError:
            return NO_VALUE

    def assign(self, body, env, place, val):
        if isinstance(place, int):
            env[place] = val
            return
        proj = [e for e in place["p"] if e != "*"]
        if not proj:
            env[place["l"]] = val
            return
        # field store into a value the local owns (`x.a.b = v`, also through a Box it owns): functional update.  A store through a
        # reference would have to update the referent, which this value model (references are transparent copies) cannot do
        lty = body.local_ty(place["l"]) if hasattr(body, "local_ty") else None
        if place["l"] in env and env[place["l"]] == ("uninit",):
            env[place["l"]] = val
            return
        if lty is None or "ref" in lty or "ptr" in lty or place["l"] not in env or not all(isinstance(e, dict) and "f" in e for e in proj):
            raise Unsupported("assignment through projection")

        def upd(v, path):
            if not path or v == ("uninit",):
                return val
            k = path[0]["f"]
            if is_adt(v) and k < len(v[3]):
                fs = list(v[3])
                fs[k] = upd(fs[k], path[1:])
                return ("adt", v[1], v[2], fs)
            if isinstance(v, tuple) and v and v[0] == "tuple" and k < len(v[1]):
                fs = list(v[1])
                fs[k] = upd(fs[k], path[1:])
                return ("tuple", fs)
            raise Unsupported("assignment through projection of " + repr(v)[:40])
        env[place["l"]] = upd(env[place["l"]], proj)

    def place(self, body, env, p):
        l = place_local(p)
        if l not in env:
            raise Unsupported(f"_{l} uninitialised")
        v = env[l]
        variant = None
        for e in place_proj(p):
            if e == "*":
                continue
            if isinstance(e, dict) and "dc" in e:
                variant = e["dc"]
                continue
            if isinstance(e, dict) and "idx" in e:
                i = env.get(e["idx"])
                if isinstance(v, tuple) and v and v[0] == "mem" and isinstance(i, int) and not isinstance(i, bool):
                    if not 0 <= i < len(v[1]):
                        raise Unsupported("index out of range: the code panics here")
                    v = v[1][i]
                    continue
                if isinstance(v, tuple) and v and v[0] == "array" and isinstance(i, int):
                    v = v[1][i]
                    continue
                raise Unsupported("index projection on " + repr(v)[:40])
            if isinstance(e, dict) and "f" in e:
                if is_adt(v):
                    if variant is not None and v[2] != variant:
                        raise Unsupported("downcast to inactive variant")
                    v = v[3][e["f"]]
                elif isinstance(v, tuple) and v and v[0] == "tuple":
                    v = v[1][e["f"]]
                elif isinstance(v, tuple) and v and v[0] == "closure" and e["f"] < len(v[2]):
                    v = v[2][e["f"]]          # captured variable of a closure value
                elif is_opaque(v):
                    v = ("proj", v, (variant, e["f"], e.get("n")))
                else:
                    raise Unsupported(f"field of {v!r}")
                variant = None
                continue
            raise Unsupported("projection " + str(e))
        return v

    def _try_operand(self, body, env, op):
        try:
            return self.operand(body, env, op)
        except Unsupported:
            return None

    def operand(self, body, env, op):
        c = op.get("c")
        if c is not None:
            for k in ("int", "bool", "str"):
                if k in c:
                    return c[k]
            if "float" in c:
                try:
                    return float(c["float"].replace("NaN", "nan")) if isinstance(c["float"], str) else float(c["float"])
                except (TypeError, ValueError):
                    return ("sym", "float-const")
            if "char" in c:
                return ord(c["char"]) if isinstance(c["char"], str) and len(c["char"]) == 1 else c["char"]
            if "fn" in c:
                return ("fn", c["fn"]["def"], _Fact(c["fn"]))
            if "promoted" in c:
                return self.promoted(body, c["promoted"])
            if c.get("zst"):
                return ("tuple", [])
            if "tyconst" in c:
                return ("tyconst", c["tyconst"])      # a const generic parameter
            for k in ("static", "item"):
                if k in c:
                    cst = self.crate.consts.get(c[k]) if hasattr(self.crate, "consts") else None
                    if cst and "int" in cst:
                        return cst["int"]
                    ref_to_table = bool(cst) and "ref" in (cst.get("ty") or {}) and any(k_ in ((cst["ty"].get("ref") or {})) for k_ in ("slice", "array"))
                    if (cst and (cst.get("ty") or {}).get("adt")) or cst is None or ref_to_table:
                        # (also an associated const, `Self::MAX`, which is not in the table of free const items)
                        # a structured constant (`const R: RangeInclusive<i64> = -L..=L`): evaluate its initialiser
                        v_ = self._const_body_value(c[k])
                        if v_ is NO_VALUE and c.get("item_id"):
                            v_ = self._const_body_value(c["item_id"])
                        if v_ is not NO_VALUE:
                            return v_
                    if cst and "mem" in cst:
                        return ("mem", bytes.fromhex(cst["mem"]), c[k])
                    return ("item", c[k])
            return ("sym", "const")
        return self.place(body, env, op_place(op))

    def _const_body_value(self, path):
        cache = self.__dict__.setdefault("_const_cache", {})
        if path not in cache:
            cache[path] = NO_VALUE
            cb = [x for x in getattr(self.crate, "bodies", []) if x.kind in ("const", "static") and (x.path == path or x.id == path)]
            if len(cb) == 1:
                try:
                    cache[path] = self.run(cb[0], [], depth=1)
                except Unsupported:
                    pass
        return cache[path]

    def promoted(self, body, k):
        p = body.d["promoted"][k]

        class PB:
            pass
        pb = PB()
        pb.blocks = p["blocks"]
        pb.d = {"promoted": []}
        return self.run(pb, [])

    def rvalue(self, body, env, r):
        if "use" in r:
            return self.operand(body, env, r["use"])
        if "ref" in r:
            return self.place(body, env, r["ref"])
        if "cast" in r:
            v = self.operand(body, env, r["cast"])
            if r.get("kind") == "IntToInt" and isinstance(v, int) and not isinstance(v, bool):
                return wrap_int(v, (r.get("to") or {}).get("prim"))
            if r.get("kind") == "FloatToFloat" and isinstance(v, float) and (r.get("to") or {}).get("prim") == "f32":
                import struct as _st
                if v != v or v in (float("inf"), float("-inf")):
                    return v
                try:
                    return _st.unpack("f", _st.pack("f", v))[0]
                except OverflowError:
                    return float("inf") if v > 0 else float("-inf")
            return v
        if "discr" in r:
            v = self.place(body, env, r["discr"])
            if is_adt(v):
                return v[2]
            if self.oracle and is_opaque(v) and hasattr(body, "local_ty"):
                from . import dt as _dt
                from .facts import ty_adt as _ty_adt
                a = _ty_adt(_dt.place_ty(body, self.F, r["discr"]) or {})
                if a in self.oracle:
                    return self.oracle[a]
            raise Unsupported(f"discriminant of {v!r}")
        if "agg" in r:
            ops = [self.operand(body, env, o) for o in r["ops"]]
            if r["agg"] == "adt":
                return ("adt", r["adt"], r["vi"], ops)
            if r["agg"] == "tuple":
                return ("tuple", ops)
            if r["agg"] in ("closure", "coroutine"):
                # (a closure / coroutine shares its parent's type parameters: it carries the instantiation it was created under)
                return ("closure", r["id"], ops, dict(self._tsubs[-1]) if self._tsubs and self._tsubs[-1] else {})
            if r["agg"] == "array":
                return ("array", ops)
            raise Unsupported("aggregate " + r["agg"])
        if "bin" in r:
            a = self.operand(body, env, r["a"])
            b = self.operand(body, env, r["b"])
            if isinstance(a, float) and isinstance(b, float):
                op = r["bin"]
                table = {"Eq": a == b, "Ne": a != b, "Lt": a < b, "Le": a <= b, "Gt": a > b, "Ge": a >= b}
                if op in table:
                    return table[op]
            if isinstance(a, (int, bool)) and isinstance(b, (int, bool)):
                op = r["bin"]
                table = {"Eq": a == b, "Ne": a != b, "Lt": a < b, "Le": a <= b, "Gt": a > b, "Ge": a >= b}
                if op in table:
                    return table[op]
                if op == "BitAnd":
                    return a & b
                if op == "BitOr":
                    return a | b
                if op in ("Add", "Sub"):
                    return a + b if op == "Add" else a - b
                if op == "Mul":
                    return a * b
                if op == "BitXor":
                    return a ^ b
                if op in ("Shl", "ShlUnchecked") and 0 <= b < 128:
                    return a << b
                if op in ("Shr", "ShrUnchecked") and 0 <= b < 128:
                    return a >> b
                if op in ("Div", "Rem") and b != 0:
                    q_ = abs(a) // abs(b) * (1 if (a >= 0) == (b >= 0) else -1)
                    return q_ if op == "Div" else a - q_ * b
                if op in ("AddWithOverflow", "SubWithOverflow", "MulWithOverflow", "AddUnchecked", "SubUnchecked", "MulUnchecked"):
                    v_ = a + b if op.startswith("Add") else a - b if op.startswith("Sub") else a * b
                    return ("tuple", [v_, False]) if op.endswith("WithOverflow") else v_
            raise Unsupported("binop on symbolic values")
        if "un" in r:
            a = self.operand(body, env, r["a"])
            if r["un"] == "Not" and isinstance(a, bool):
                return not a
            if r["un"] == "Neg" and isinstance(a, (int, float)) and not isinstance(a, bool):
                return -a
            raise Unsupported("unop")
        raise Unsupported("rvalue " + ",".join(r))


import math as _math

FLOAT_PREDICATES = {
    "is_nan": _math.isnan,
    "is_finite": _math.isfinite,
    "is_infinite": _math.isinf,
    "is_sign_negative": lambda v: _math.copysign(1.0, v) < 0,
    "is_sign_positive": lambda v: _math.copysign(1.0, v) > 0,
}

ASCII_PREDICATES = {
    "is_ascii": lambda c: True,
    "is_ascii_uppercase": lambda c: "A" <= c <= "Z",
    "is_ascii_lowercase": lambda c: "a" <= c <= "z",
    "is_ascii_alphabetic": lambda c: "A" <= c <= "Z" or "a" <= c <= "z",
    "is_ascii_digit": lambda c: "0" <= c <= "9",
    "is_ascii_alphanumeric": lambda c: "A" <= c <= "Z" or "a" <= c <= "z" or "0" <= c <= "9",
    "is_ascii_hexdigit": lambda c: c in "0123456789abcdefABCDEF",
    "is_ascii_punctuation": lambda c: c in "!\"#$%&'()*+,-./:;<=>?@[\\]^_`{|}~",
    "is_ascii_graphic": lambda c: "!" <= c <= "~",
    "is_ascii_whitespace": lambda c: c in " \t\n\x0c\r",
    "is_ascii_control": lambda c: ord(c) < 32 or ord(c) == 127,
}

WIDTH = {"u8": 8, "i8": 8, "u16": 16, "i16": 16, "u32": 32, "i32": 32, "u64": 64, "i64": 64, "usize": 64, "isize": 64, "u128": 128, "i128": 128, "char": 32}


def wrap_int(v, prim):
    w = WIDTH.get(prim)
    if w is None:
        return v
    v &= (1 << w) - 1
    if prim[0] == "i" and v >> (w - 1):
        v -= 1 << w
    return v


def is_adt(v):
    return isinstance(v, tuple) and len(v) == 4 and v[0] == "adt"


def is_opaque(v):
    return isinstance(v, tuple) and v and v[0] in ("sym", "proj", "call")


def contains_opaque(v):
    if is_opaque(v):
        return True
    if is_adt(v):
        return any(contains_opaque(x) for x in v[3])
    if isinstance(v, tuple) and v and v[0] in ("tuple", "array"):
        return any(contains_opaque(x) for x in v[1])
    return False


def show(interp, v):
    """readable rendering of a value"""
    if is_adt(v):
        n = interp.variant_name(v[1], v[2])
        if v[3]:
            return n + "(" + ", ".join(show(interp, x) for x in v[3]) + ")"
        return n
    if isinstance(v, tuple) and v and v[0] == "tuple":
        return "(" + ", ".join(show(interp, x) for x in v[1]) + ")"
    if isinstance(v, tuple) and v and v[0] == "sym":
        return v[1]
    if isinstance(v, tuple) and v and v[0] == "proj":
        return show(interp, v[1]) + "." + str(v[2][2] or v[2][1])
    if isinstance(v, tuple) and v and v[0] == "call":
        return v[1].split("::")[-1] + "(" + ", ".join(show(interp, x) for x in v[2]) + ")"
    return repr(v)
