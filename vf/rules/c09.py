"""C09 — data of arguments not declared safe never reaches a safe-to-log channel (sink typing)."""
from ..facts import ty_adt, tystr, walk_ty, place_local, place_proj, op_place, strip_refs
from ..cfg import CFG, Tracer, thaw
from .. import tguard, dt, instance, safety, inline
from . import c06, c17

BT = "conjure_object::bearer_token::BearerToken"
ERR = "conjure_error::error::Error::"
SAFE_PARAMS_INSERT = "conjure_http::safe_params::SafeParams::insert"

EXPLANATION = (
    "Sink typing over every safe-to-log channel in conjure_http and in the generated handlers: each Error::*_safe constructor, "
    "with_safe_param and SafeParams::insert — as call terminators AND as function items used as values (map_err(Error::internal_safe)) "
    "— is enumerated from the MIR; the cause must be a string constant or a data-free ADT (every field of every variant, recursively, "
    "is () / PhantomData — decided from the ADT's definition, also for foreign types, so no allow-list of type names is needed); a "
    "type parameter, projection or value-bearing type in a safe sink is a violation (io::Error allow-listed at the two "
    "WriteBody::write_body sites: errors of writing the response); with_safe_param values are the `actual` count (integer derived "
    "from Iterator::count and constants only) or the helper's own log_as parameter (R9.1). Generated handlers insert into SafeParams "
    "exactly the arguments the IR declares safe (independent reference evaluation of the log-safety rules), under their declared "
    "names, with the value decoded for that argument, and never the auth token (R9.3); the macro emits the insertion only under "
    "arg.safe(), whose table is constant false for auth and context arguments. BearerToken's Debug never reads the token and no "
    "Display impl exists (R9.4). NOT decided: implicit flows, handler code.")


def data_free(F, t, depth=0, seen=None):
    """type carries no run-time data (recursively only unit / PhantomData fields)"""
    seen = seen or set()
    if t is None or depth > 6:
        return False
    if "tuple" in t:
        return all(data_free(F, x, depth + 1, seen) for x in t["tuple"])
    if "adt" in t:
        p = t["adt"]
        if p == "core::marker::PhantomData":
            return True
        if p in seen:
            return True
        a = F.adt(p)
        if a is None or not a["variants"]:
            return False if a is None else True
        seen = seen | {p}
        m = dict(zip(a.get("generics", []), t.get("args", [])))
        for v in a["variants"]:
            for f in v["fields"]:
                if not data_free(F, dt.subst(f["ty"], m), depth + 1, seen):
                    return False
        return True
    return False


def sinks_in(body):
    """(term, fnref, as_value) for safe sinks in one body"""
    out = []
    for bb, t in body.calls():
        f = t["call"]
        if is_sink(f):
            out.append((bb, t, f, False))
        for a in t["args"]:
            g = (a.get("c") or {}).get("fn")
            if g and is_sink(g):
                out.append((bb, t, g, True))
    return out


def is_sink(f):
    d = f.get("def", "")
    return (d.startswith(ERR) and (f.get("name", "").endswith("_safe") or f.get("name") == "with_safe_param")) or d == SAFE_PARAMS_INSERT


def run(ctx):
    ctx.explanation = EXPLANATION
    ctx.assumptions = ["Display of http::header::ToStrError / InvalidHeaderValue / mediatype::MediaTypeError prints constant text (they hold no data: decided)",
                       "handler code itself is outside the property"]
    F = ctx.F
    c = F.crate("conjure_http")
    ctx.units["conjure_http bodies"] = len(c.bodies)
    n = 0
    callers_of = {}
    for x in c.bodies:
        for _, t_ in x.calls():
            cid = t_["call"].get("id") if t_["call"].get("local") else None
            if cid:
                callers_of.setdefault(cid, []).append((x, t_))

    def origins(b, op, depth=0):
        """[(body, operand)] where the value given to a sink really comes from: a value rooted in a parameter of a private
        helper is followed to the argument of every local caller (error constructors shared by several call sites)"""
        p_ = op_place(op)
        if p_ is None or depth > 3:
            return [(b, op)]
        # a field of a private classification value (`CountViolation::Repeated { actual }` consumed by `into_error(self)`): the
        # value is what the construction sites of that variant put into the field
        srcs_ = list(Tracer(b).sources(op))
        if len(srcs_) == 1 and srcs_[0][0] == "field" and srcs_[0][1][0] == "arg" and depth < 3:
            from ..cfg import thaw as _thaw
            proj_ = [e_ for e_ in _thaw(srcs_[0][2]) if isinstance(e_, dict)]
            k_ = srcs_[0][1][1]
            aty_ = ty_adt(strip_refs(b.local_ty(k_)) if 1 <= k_ <= b.argc else {}) or ""
            a_ = F.adt(aty_) if aty_ else None
            fields_ = [e_["f"] for e_ in proj_ if "f" in e_]
            variant_ = next((e_["dc"] for e_ in proj_ if "dc" in e_), 0)
            if a_ and a_.get("local") and a_.get("vis") != "pub" and aty_.startswith("conjure_http::") and len(fields_) == 1:
                out_ = []
                for x in c.bodies:
                    for _, _, s2 in x.stmts():
                        if s2["r"].get("agg") == "adt" and s2["r"]["adt"] == aty_ and s2["r"].get("vi", 0) == variant_ and fields_[0] < len(s2["r"]["ops"]):
                            out_ += origins(x, s2["r"]["ops"][fields_[0]], depth + 1)
                if out_:
                    return out_
        roots = Tracer(b).root_locals(op)
        if len(roots) == 1 and b.kind in ("fn", "assoc_fn") and b.d.get("vis") != "pub" and callers_of.get(b.id):
            k = next(iter(roots))
            # the value must reach the sink unchanged (moves / references only)
            if 1 <= k <= b.argc and not dt.transforming_calls(b, op)[1]:
                out_ = []
                for x, t_ in callers_of[b.id]:
                    if len(t_["args"]) >= k:
                        out_ += origins(x, t_["args"][k - 1], depth + 1)
                if out_:
                    return out_
        return [(b, op)]

    def op_type(b, op):
        cst = op.get("c")
        if cst is not None:
            return cst.get("ty")
        p_ = op_place(op)
        ty = dt.place_ty(b, F, p_) if p_ is not None else None
        # look through a plain move chain to the defining local's type (a generic helper's parameter has type `E`)
        return ty

    for b in c.bodies:
        for bb, t, f, as_value in sinks_in(b):
            n += 1
            where = b.loc(t["ln"])
            name = f["name"]
            key = f"{b.id}|{name}"
            if f["def"] == SAFE_PARAMS_INSERT:
                ctx.violation("R9.1", where, key, f"{b.id}: runtime code inserts into SafeParams (only generated handlers may, for declared-safe arguments)")
                continue
            if name == "with_safe_param":
                kc = dt.resolve_const(b, t["args"][1]) if not as_value else None
                k = kc.get("str") if kc else None
                vty = f["substs"][0] if f.get("substs") else None
                orgs = origins(b, t["args"][2]) if not as_value else [(b, None)]
                if k == "param":
                    # the helper's log name (identity decided by C19 R19.1): a captured &str or a &str parameter of the
                    # extraction helper, possibly handed through a private tagging helper
                    ok = not as_value
                    for ob, oop in orgs:
                        srcs = list(Tracer(ob).sources(oop))
                        is_str = "str" in tystr(op_type(ob, oop) or {})
                        from_param = all(src_is_upvar(s_) or (s_[0] == "arg" and 1 <= s_[1] <= ob.argc) for s_ in srcs) and bool(srcs)
                        ok = ok and is_str and from_param
                    ctx.check(ok, "R9.1", where, key + "|param", f"{b.id}: safe param `param` must be the helper's log name (a &str parameter / captured variable, not request data)", instance=f"{b.id}: with_safe_param(\"param\", log_as)")
                else:
                    # `actual` and any other safe parameter must carry a compile-time constant or a count
                    ok = not as_value
                    shown = []
                    for ob, oop in orgs:
                        vc = dt.resolve_const(ob, oop)
                        oty = tystr(op_type(ob, oop) or {})
                        shown.append(oty)
                        # a count computed by a private helper and handed back (e.g. in a tuple) is followed into the helper
                        eb_ = inline.expand(c, ob, depth=2, pred=inline.private_helpers()) if ob.kind in ("fn", "assoc_fn", "closure") else ob
                        countish = oty in ("usize", "i32", "u32", "u64", "i64") and all(base_kind(eb_, s_) for s_ in Tracer(eb_, through_calls=True).sources(oop))
                        ok = ok and (vc is not None or countish)
                    ctx.check(ok, "R9.1", where, key + f"|{k}", f"{b.id}: with_safe_param({k!r}, <{'/'.join(sorted(set(shown))) or tystr(vty)}>) attaches a value that is neither a constant nor a count to a safe-to-log parameter (request data would be logged as safe)",
                              instance=f"{b.id}: with_safe_param({k!r}, constant/count)")
                continue
            # *_safe constructors: the cause (first argument), judged where it really comes from
            if as_value:
                cause = f["substs"][0] if f.get("substs") else None
                cs = tystr(cause)
                if cs == "&str":
                    ctx.violation("R9.1", where, key, f"{b.id}: {name} used as a function value over &str causes: the message cannot be shown constant")
                elif cause is not None and "adt" in cause and data_free(F, cause):
                    ctx.ok("R9.1", where, f"{b.id}: {name}::<{cs}> as a function value — data-free cause type")
                elif cs == "std::io::error::Error" and b.name == "write_body" and (b.trait or "").endswith("WriteBody"):
                    ctx.ok("R9.1", where, f"{b.id}: {name}::<io::Error> allow-listed (error of writing the body to the transport, no argument data)", nontrivial=False)
                else:
                    ctx.violation("R9.1", where, key + f"|{cs}", f"{b.id}: {name} is used as a function value over cause type {cs}, which can carry request data")
                continue
            for ob, oop in origins(b, t["args"][0]):
                cause = op_type(ob, oop)
                if ob is b and (cause is None or "param" in (cause or {})) and f.get("substs"):
                    cause = f["substs"][0]
                cs = tystr(cause or {})
                okey = key if ob is b else f"{key}|via:{ob.path.split('::')[-1]}"
                if cs in ("&str", "&'static str", "str"):
                    kc = dt.resolve_const(ob, oop)
                    ctx.check(kc is not None and "str" in kc, "R9.1", where, okey + "|const-message", f"{b.id}: {name} with a non-constant string cause (a safe cause message must be a literal; passed from {ob.path})",
                              instance=f"{b.id}: {name}({(kc or {}).get('str')!r})")
                    continue
                if cause is not None and "adt" in cause and data_free(F, cause):
                    ctx.ok("R9.1", where, f"{b.id}: {name}::<{cs}> — data-free cause type" + ("" if ob is b else f" (passed from {ob.path.split('::')[-1]})"))
                    continue
                if cs == "std::io::error::Error" and ob.name == "write_body" and (ob.trait or "").endswith("WriteBody"):
                    ctx.ok("R9.1", where, f"{b.id}: {name}::<io::Error> allow-listed (error of writing the body to the transport, no argument data)", nontrivial=False)
                    continue
                ctx.violation("R9.1", where, okey + f"|{cs}", f"{b.id}: {name} receives a cause of type {cs}" + ("" if ob is b else f" (from {ob.path})") + ", which can carry request data (not a constant message and not a data-free type): the cause would be logged as safe")
    ctx.floor("R9.1", "safe sinks in conjure_http", n, 12)
    # Display of local data-free error types used as safe causes prints constants only
    used = set()
    for b in c.bodies:
        for bb, t, f, as_value in sinks_in(b):
            if f.get("substs") and "adt" in f["substs"][0]:
                used.add(f["substs"][0]["adt"])
    for cn in ("conjure_object", "conjure_http"):
        cc = F.crate(cn)
        for b in cc.bodies:
            if b.trait == "core::fmt::Display" and b.self_ty and b.self_ty.get("adt") in used and data_free(F, b.self_ty) and b.name == "fmt":
                calls = [t for _, t in b.calls()]
                ok = all(t["call"]["name"] in ("write_str",) and dt.resolve_const(b, t["args"][1]) is not None for t in calls if "fmt" in t["call"]["def"] or t["call"]["name"] == "write_str")
                ctx.check(ok and calls, "R9.1", b.loc(), f"{b.id}|display-const", f"{b.id}: Display of a data-free error type must write only constants", instance=f"{tystr(b.self_ty)}: Display writes a constant")
    # ---------------------------------------------------------------- R9.3 generated handlers
    ct = F.crate("conjure_test")
    ir = instance.IR()
    sf = safety.Safety(ir)
    hs = instance.handlers(ct)
    by_key = {}
    for h in hs:
        by_key.setdefault((h.service, h.name), []).append(h)
    total_ins = 0
    for svc, e in ir.endpoints:
        want = {a["argName"] for a in e["args"] if sf.is_safe_arg(a)}
        for h in by_key.get((svc, e["endpointName"]), []):
            b = h.body
            key = f"{h.config}/{h.flavor}/{svc}.{e['endpointName']}"
            ex = instance.extraction_calls(h)
            by_log = {}
            for kind, bb, t in ex:
                if kind.startswith("auth"):
                    continue
                by_log[instance.const_str_arg(b, t["args"][-1])] = bb
            auth_calls = [bb for kind, bb, t in ex if kind.startswith("auth")]
            ins = [(bb, t) for bb, t in b.calls() if t["call"]["def"] == SAFE_PARAMS_INSERT]
            got = set()
            vt = dt.value_tracer(b)
            for bb, t in ins:
                total_ins += 1
                k = instance.const_str_arg(b, t["args"][1])
                got.add(k)
                src_bb = by_log.get(k)
                ok = src_bb is not None and dt.derives_from_call(b, t["args"][2], src_bb, vt)
                ctx.check(ok, "R9.3", b.loc(), f"{key}|insert|{k}", f"{key}: SafeParams entry {k!r} must hold the value decoded for the argument declared as {k!r}", instance=f"{key}: safe_params[{k!r}] = decoded {k}")
                for abb in auth_calls:
                    ctx.check(not dt.derives_from_call(b, t["args"][2], abb, vt), "R9.3", b.loc(), f"{key}|auth-in-safe-params", f"{key}: the auth token flows into SafeParams", nontrivial=False)
                # "once decoded": the argument is recorded before any further argument is decoded — a request whose later
                # argument fails to decode still reports the safe arguments decoded before it
                if src_bb is not None:
                    cfg_i = CFG(b)
                    later = [(kind, xbb) for kind, xbb, t2 in ex if xbb != src_bb and cfg_i.dominates(src_bb, xbb) and cfg_i.dominates(xbb, bb)]
                    ctx.check(not later, "R9.3", b.loc(), f"{key}|recorded-once-decoded|{k}",
                              f"{key}: the safe argument {k!r} is recorded in SafeParams only after {len(later)} further argument(s) ({sorted({kd for kd, _ in later})}) have been decoded: if one of those fails to decode, {k!r} is missing from the response's safe parameters although it was decoded",
                              instance=f"{key}: safe_params[{k!r}] inserted before the next argument is decoded")
            if want:
                # the set is attached to the response *before* the first argument is decoded: a request whose later argument
                # fails to decode still reports the safe arguments decoded so far
                inst = [(bb, t) for bb, t in b.calls() if t["call"]["name"] == "insert" and "xtensions" in t["call"]["def"] and any("SafeParams" in tystr(x) for x in t["call"].get("substs") or [])]
                cfg_h = CFG(b)
                first_ok = len(inst) == 1 and all(cfg_h.dominates(inst[0][0], xbb) and xbb != inst[0][0] for kind, xbb, t in ex if not kind.startswith("auth"))
                ctx.check(first_ok, "R9.3", b.loc(), f"{key}|safe-params-installed-first",
                          f"{key}: SafeParams must be inserted into the response extensions once, before any argument is decoded (found {len(inst)} installation(s); it does not dominate every extraction call): safe arguments decoded before a failing one would otherwise be lost",
                          instance=f"{key}: response_extensions.insert(SafeParams) dominates all extraction calls")
            ctx.check(got == want, "R9.3", b.loc(), f"{key}|safe-set", f"{key}: SafeParams receives {sorted(got)}; the IR declares safe: {sorted(want)}", instance=f"{key}: safe set {sorted(want)}")
            # no other safe sink in handlers
            for bb, t, f, as_value in sinks_in(b):
                if f["def"] != SAFE_PARAMS_INSERT:
                    ctx.violation("R9.3", b.loc(), f"{key}|extra-sink|{f['name']}", f"{key}: generated handler calls {f['name']}")
    ctx.floor("R9.3", "SafeParams insertions in generated handlers", total_ins, 12)
    # macro: insertion template only under arg.safe(); ArgType::safe constant false for auth/context
    cm = F.crate("conjure_macros")
    # the safety predicate(s) of the macro's argument model: methods of ArgType named *safe* returning bool or Option<_>
    sb = [b for b in cm.bodies if b.impl and b.kind == "assoc_fn" and (ty_adt(b.self_ty) or "").endswith("endpoints::ArgType") and "safe" in b.name
          and (tystr(b.local_ty(0)) == "bool" or tystr(b.local_ty(0)).startswith("core::option::Option"))]
    safe_names = sorted({b.name for b in sb}) or ["safe"]
    tm = F.tmpl()
    if tm is not None:
        found = 0
        for fn in tm["functions"]:
            if not fn["file"].endswith("conjure-macros/src/endpoints.rs"):
                continue
            for q in fn["quotes"]:
                for call in q["calls"]:
                    if call["name"] == "insert" and len(call["args"]) == 2 and "#safe_params" in q["text"].replace(" ", ""):
                        found += 1
                        vs_ = [tguard.positive_guard(q["conds"], nm_, allow_others=True) for nm_ in safe_names]
                        v = False if False in vs_ else (True if True in vs_ else None)
                        if v is None:
                            # decision taken outside the template's syntactic conditions (early return / helper): the emitting
                            # function must at least consult ArgType's safety predicate; the generated instance is decided above (safe-set)
                            mb = [x for x in F.crate("conjure_macros").bodies if x.kind in ("fn", "assoc_fn") and x.name == fn["name"]]
                            consulted = any(t_["call"]["name"] in safe_names and "ArgType" in t_["call"]["def"] for x in mb for y in [x] + F.crate("conjure_macros").closures_of(x) for _, t_ in y.calls())
                            if consulted:
                                ctx.note(f"R9.3 {fn['name']}: insertion template's conditions {q['conds']} not in a recognised form; the function consults ArgType's safety predicate; instance decided by the safe-set rule")
                                continue
                            v = False
                        ctx.check(v, "R9.3", f"{fn['file'].split('/repo/')[-1]}:{q['line']}", f"{fn['name']}|insert-under-safe", f"macro: the SafeParams insertion template in {fn['name']} is not guarded by arg.safe() (conditions: {q['conds']})",
                                  instance=f"{fn['name']}: safe_params.insert emitted only if arg.safe()")
        ctx.floor("R9.3", "SafeParams insertion templates", found, 1)
    if sb:
        from .. import minterp
        AT = ty_adt(sb[0].self_ty)
        vnames = [v_["name"] for v_ in F.adt(AT)["variants"]]
        for pb in sb:
            I = minterp.Interp(F, cm, inline=lambda d_, rid: rid.startswith("conjure_macros::") and rid != pb.id, max_depth=2)
            for v in ("Auth", "Context"):
                if v not in vnames:
                    continue
                vi = vnames.index(v)
                try:
                    r_ = I.run(pb, [minterp.adt(AT, vi, [("sym", "x")] * len(F.adt(AT)["variants"][vi]["fields"]))])
                    neg = r_ is False or (minterp.is_adt(r_) and r_[1] == "core::option::Option" and r_[2] == 0)
                    shown = "false" if r_ is False else ("None" if neg else minterp.show(I, r_))
                except minterp.Unsupported as e_:
                    if tystr(pb.local_ty(0)) == "bool":
                        table, wild, names = const_bool_by_variant(pb, F, AT)
                        neg = table.get(v) == {False}
                        shown = str(table.get(v))
                    else:
                        neg, shown = False, f"not analysable ({e_})"
                ctx.check(neg, "R9.3", pb.loc(), f"ArgType::safe|{v}", f"macro: ArgType::{pb.name}() for {v} arguments is {shown}, must be constant false / None (auth tokens and contexts are never safe params)",
                          instance=f"ArgType::{pb.name}({v}) = {shown}")
    else:
        ctx.violation("R9.3", "conjure_macros", "anchor|ArgType::safe", "ArgType::safe not found")
    # ---------------------------------------------------------------- R9.4
    co = F.crate("conjure_object")
    dbg = [b for b in co.bodies if b.trait == "core::fmt::Debug" and ty_adt(b.self_ty) == BT and b.name == "fmt"]
    if len(dbg) != 1:
        ctx.violation("R9.4", "conjure_object", "anchor|BearerToken-Debug", "Debug impl for BearerToken not found")
    else:
        b = dbg[0]
        reads = []
        for bb, j, s in b.stmts():
            for k in ("use", "ref"):
                v = s["r"].get(k)
                p = op_place(v) if k == "use" and isinstance(v, dict) else v
                if p is not None and not isinstance(p, int) and p["l"] == 1 and any(isinstance(e, dict) and "f" in e for e in p["p"]):
                    reads.append(s["ln"])
        derived = b.d.get("x") is not None and "derive" in str(b.d.get("x"))
        ctx.check(not reads and not derived, "R9.4", b.loc(), "BearerToken|debug-redacted", f"<BearerToken as Debug>::fmt reads the token field (lines {reads}) or is derived", instance="BearerToken Debug never projects the token")
    disp = [i for i in co.impls if i.get("trait") == "core::fmt::Display" and ty_adt(i["self_ty"]) == BT]
    ctx.check(not disp, "R9.4", "conjure_object", "BearerToken|no-display", "BearerToken implements Display (the token would leak through {} formatting)", instance="BearerToken: no Display impl")
    # ---------------------------------------------------------------- R9.5 the generator marks an argument safe only if its type is
    # (shared with C08: an argument wrongly classified safe is copied into SafeParams by the generated handler)
    from . import c08
    ctx.include(c08, {"R8.1", "R8.2"}, "R9.5", "an argument whose type can hold unsafe data (unions carry arbitrary unknown variants) must not be classified safe: the generated handler would record it in SafeParams")


def base_kind(b, s):
    while s[0] == "field":
        s = s[1]
    if s[0] == "const":
        return True
    if s[0] == "call" and b.blocks[s[1]]["t"]["call"]["name"] in ("count", "len"):
        return True
    if s[0] == "other":
        return "bin" in b.blocks[s[1]]["s"][s[2]]["r"]
    return False


def src_is_upvar(s):
    inner = None
    while s[0] == "field":
        inner = s
        s = s[1]
    return s == ("arg", 1) and inner is not None


def const_bool_by_variant(body, facts, adt_path):
    cfg = CFG(body)
    a = facts.adt(adt_path)
    names = [v["name"] for v in a["variants"]]
    out = {}
    wild = set()
    for bb, j, s in body.stmts():
        if place_local(s["d"]) != 0 or place_proj(s["d"]):
            continue
        c = c17.rv_const(body, s["r"])
        if c is None or "bool" not in c:
            continue
        for sbb, allowed, allv in dt.edge_conditions(cfg, bb):
            atom = dt.switch_atom(body, sbb)
            if atom[0] != "discr":
                continue
            for v in dt.allowed_variants(allowed, allv, names):
                out.setdefault(v, set()).add(c["bool"])
    return out, wild, names


_run_c09 = run


def run(ctx):
    _run_c09(ctx)
    # R9.6 the partition of an error's parameters: a parameter the error type does not list as safe must not land in safe_params
    from . import c17 as _c17
    ctx.include(_c17, {"R17.2"}, "R9.6", "an error parameter not declared safe (it may echo request data) must not be exposed through Error::safe_params")
