"""C17 — errors encode faithfully; parameters partitioned by declared safety."""
import re
import json, os
from ..facts import ty_adt, tystr, walk_ty, place_local, place_proj, op_place
from ..cfg import CFG, Tracer, thaw
from . import c06
from .. import dt, core, extract

STATUS = {"PermissionDenied": 403, "InvalidArgument": 400, "NotFound": 404, "Conflict": 409, "RequestEntityTooLarge": 413,
          "FailedPrecondition": 500, "Internal": 500, "Timeout": 500, "CustomClient": 400, "CustomServer": 500}
WIRE = {"PermissionDenied": "PERMISSION_DENIED", "InvalidArgument": "INVALID_ARGUMENT", "NotFound": "NOT_FOUND", "Conflict": "CONFLICT",
        "RequestEntityTooLarge": "REQUEST_ENTITY_TOO_LARGE", "FailedPrecondition": "FAILED_PRECONDITION", "Internal": "INTERNAL",
        "Timeout": "TIMEOUT", "CustomClient": "CUSTOM_CLIENT", "CustomServer": "CUSTOM_SERVER"}
ERRCODE = "conjure_error::types::error_code::ErrorCode"
ERRTYPE = "conjure_error::ErrorType"
SCALAR_VISITS = {"visit_bool", "visit_i64", "visit_u64", "visit_f64", "visit_str", "visit_string"}

EXPLANATION = (
    "Decides (R17.1) the status table of ErrorCode::status_code (discriminant switch -> constant) against the specification's "
    "10 rows with no wildcard arm, and the wire names of the codes; (R17.2) that in the function building a service error the "
    "insert into the map finally stored in `safe_params` is on the true edge of safe_args.contains(key) and the insert into the "
    "one stored in `unsafe_params` on the false edge of the same test, with the same key/value; (R17.3) propagated errors pass a "
    "constant empty safe list, direct ones the error type's safe_args(); (R17.4) encode() wires code/name/instance id into the "
    "matching builder setters and inserts exactly the parameters accepted by the scalar seed; (R17.5) the scalar visitor "
    "overrides exactly visit_{bool,i64,u64,f64,str,string}, each returning to_string of its argument (sequences, maps, bytes, "
    "null rejected by serde's defaults = 'omitted'); (R17.6) every generated ErrorType impl of the instance (both configs) "
    "returns the IR's code, Namespace:Name, None and the IR's safe argument names sorted; conjure-error's standard types are "
    "internally consistent. NOT decided: JSON round trip of SerializableError, float text, uuid randomness.")


def const_returns_by_variant(body, facts, adt_path):
    """{variant: constant} for `match self {V => const}` bodies; also reports wildcard use"""
    cfg = CFG(body)
    a = facts.adt(adt_path)
    names = [v["name"] for v in a["variants"]]
    out = {}
    wild = set()
    targets = result_locals(body)
    for bb, j, s in body.stmts():
        if place_local(s["d"]) not in targets or place_proj(s["d"]):
            continue
        c = rv_const(body, s["r"])
        if c is None:
            continue
        val = c.get("int", c.get("str"))
        for sbb, allowed, allv in dt.edge_conditions(cfg, bb):
            atom = dt.switch_atom(body, sbb)
            if atom[0] != "discr":
                continue
            pt = dt.place_ty(body, facts, atom[1])
            while pt and "ref" in pt:
                pt = pt["ref"]
            if pt and pt.get("adt") != adt_path:
                continue
            listed = {v for v in allv if v is not None}
            for v in allowed:
                if v is None:
                    for k, n in enumerate(names):
                        if k not in listed:
                            out.setdefault(n, set()).add(val)
                            wild.add(n)
                else:
                    out.setdefault(names[v], set()).add(val)
    return out, wild, names


def result_locals(body):
    """locals whose value is returned: _0 and the join temporaries copied / reborrowed into it"""
    targets = {0}
    changed = True
    while changed:
        changed = False
        for bb, j, s in body.stmts():
            if place_local(s["d"]) in targets and not place_proj(s["d"]):
                r = s["r"]
                src = None
                if "use" in r and op_place(r["use"]) is not None and not place_proj(op_place(r["use"])):
                    src = place_local(op_place(r["use"]))
                elif "ref" in r and (isinstance(r["ref"], int) or r["ref"]["p"] == ["*"]):
                    src = place_local(r["ref"])
                if src is not None and src not in targets and not (1 <= src <= body.argc) and len(body.defs().get(src, [])) > 1:
                    targets.add(src)
                    changed = True
    return targets


def rv_const(body, r):
    if "use" in r:
        return dt.resolve_const(body, r["use"])
    if "ref" in r and not isinstance(r["ref"], int) and r["ref"]["p"] == ["*"]:
        return dt.resolve_const(body, {"cp": r["ref"]["l"]})
    if "ref" in r and isinstance(r["ref"], int):
        return dt.resolve_const(body, {"cp": r["ref"]})
    return None


def origin(tr, op):
    return frozenset(s for s in tr.sources(op) if s[0] != "const")


def promoted_str_array(body, op):
    """list of string constants of a `&[..]` promoted array operand (through reborrows / unsize casts)"""
    seen = 0
    cur = op
    while seen < 10:
        seen += 1
        r = dt.resolve_copy(body, cur)
        if r[0] == "const":
            c = r[1]
            if "promoted" in c:
                p = body.d["promoted"][c["promoted"]]
                for b in p["blocks"]:
                    for s in b["s"]:
                        if "d" in s and s["r"].get("agg") == "array":
                            return [(o.get("c") or {}).get("str") for o in s["r"]["ops"]]
                return None
            return None
        if r[0] == "def" and r[1][1] != "T":
            rv = r[1][2]["r"]
            if "cast" in rv:
                cur = rv["cast"]
                continue
            if "ref" in rv:
                cur = {"cp": place_local(rv["ref"])}
                continue
        return None
    return None


def membership_test(crate, b, atom):
    """(collection operand, key operand, negated) if the switch atom is a membership test `key in collection`:
    contains / contains_key; binary_search(..).is_ok()/is_err(); get(..).is_some()/is_none(); iter().any(|a| a == key)."""
    if atom[0] != "call":
        return None
    t = atom[1]
    n = t["call"]["name"]
    if n in ("contains", "contains_key") and len(t["args"]) == 2:
        return t["args"][0], t["args"][1], False
    if n in ("is_ok", "is_err", "is_some", "is_none") and t["args"]:
        r = dt.resolve_copy(b, t["args"][0])
        seen = 0
        while r[0] == "def" and r[1][1] != "T" and "ref" in r[1][2]["r"] and seen < 4:
            seen += 1
            pl = r[1][2]["r"]["ref"]
            r = dt.resolve_copy(b, {"cp": pl if isinstance(pl, int) else pl["l"]})
        if r[0] == "def" and r[1][1] == "T" and r[1][2]["call"]["name"] in ("binary_search", "get", "get_key_value") and len(r[1][2]["args"]) == 2:
            inner = r[1][2]
            return inner["args"][0], inner["args"][1], n in ("is_err", "is_none")
        return None
    if n == "any" and len(t["args"]) == 2:
        srcs = [x for x in Tracer(b).sources(t["args"][1]) if x[0] == "agg"]
        if len(srcs) == 1:
            st = b.blocks[srcs[0][1]]["s"][srcs[0][2]]
            clo = crate.body(st["r"].get("id")) if st["r"].get("agg") == "closure" else None
            if clo is not None and len(st["r"]["ops"]) == 1:
                eqs = [x for _, x in clo.calls() if x["call"]["def"] in ("core::cmp::PartialEq::eq",)]
                others = [x for _, x in clo.calls() if x["call"]["def"] not in ("core::cmp::PartialEq::eq", "core::ops::deref::Deref::deref")]
                if len(eqs) == 1 and not others and place_local(eqs[0]["dest"]) == 0:
                    return t["args"][0], st["r"]["ops"][0], False
    return None


PARTITION_VIEWS = ("deref", "as_ref", "borrow", "as_str", "clone", "to_string", "to_owned", "into", "from", "as_deref", "borrowed", "into_owned")
PARTITION_MODELS = [   # (encoded parameters, declared safe list) — small models: empty / subset / superset / unsorted / repeated / prefix names
    ({"a": "va", "b": "vb"}, []), ({"a": "va", "b": "vb"}, ["a"]), ({"a": "va", "b": "vb"}, ["b"]), ({"a": "va", "b": "vb"}, ["a", "b"]), ({"a": "va", "b": "vb"}, ["b", "a"]),
    ({"a": "va", "b": "vb"}, ["c"]), ({"a": "va"}, ["c", "a", "a"]), ({"a": "va", "ab": "vab"}, ["ab"]), ({"ab": "vab", "b": "vb"}, ["a", "b"]), ({}, ["a"]),
    ({"a": "va", "b": "vb", "c": "vc"}, ["c", "a"]), ({"b": "vb"}, ["a", "b", "c"]),
]


def partition_table(ctx, F, ce, b):
    """R17.2 by interpretation over small models: the builder is run (minterp; private helpers, closures and combinators
    interpreted) on concrete parameter maps and safe lists, with the std collections it uses modelled on a little heap
    (maps, slices and their iterators); the safe_params / unsafe_params of the error it returns are compared with
    `parameter listed in safe_args` / the rest.  -> True when every model stayed inside the interpretable fragment."""
    import itertools
    from .. import minterp
    OPT = "core::option::Option"
    MAPS = ("std::collections::hash::map::HashMap", "alloc::collections::btree::map::BTreeMap")

    def skey(v):
        while True:
            if minterp.is_adt(v) and v[1].endswith("borrow::Cow") and v[3]:
                v = v[3][0]
                continue
            if isinstance(v, tuple) and v and v[0] == "call" and v[1].split("::")[-1] in PARTITION_VIEWS and v[2]:
                v = v[2][0]
                continue
            return v

    def mentions(v, s):
        if v == s:
            return True
        if isinstance(v, (list, tuple)):
            return any(mentions(x, s) for x in v)
        return False

    def find_struct(v, heap):
        if minterp.is_adt(v):
            a_ = F.adt(v[1])
            if a_ and a_["kind"] == "struct":
                names = [f_["name"] for f_ in a_["variants"][0]["fields"]]
                if "safe_params" in names and "unsafe_params" in names:
                    return {k: v[3][names.index(k)] for k in ("safe_params", "unsafe_params")}
            for x in v[3]:
                r = find_struct(x, heap)
                if r:
                    return r
        if isinstance(v, tuple) and v and v[0] == "tuple":
            for x in v[1]:
                r = find_struct(x, heap)
                if r:
                    return r
        return None
    bad, done = [], 0
    for params, safe in PARTITION_MODELS:
        heap = {}
        cnt = itertools.count()

        def new(kind, val, heap=heap, cnt=cnt):
            k = next(cnt)
            heap[k] = val
            return (kind, k)
        P = new("map", dict(params))

        def oracle(f, argv, heap=heap, new=new, P=P):
            n, dd = f.get("name"), f.get("def", "")
            if n == "parameters" and "SerializableError" in dd:
                return P
            if n in ("new", "with_capacity") and any(m.rsplit("::", 1)[-1] in dd for m in MAPS) and (not argv or n == "with_capacity"):
                return new("map", {})
            if n == "default" and f.get("substs") and ty_adt(f["substs"][0]) in MAPS:
                return new("map", {})
            if n == "new" and dd.startswith("alloc::boxed::Box") and argv:
                return argv[0]
            if n in ("into_iter", "iter", "iter_mut", "by_ref", "copied", "cloned", "into_keys", "keys") and argv:
                a = argv[0]
                if isinstance(a, tuple) and a and a[0] == "map":
                    return new("iter", [k for k, v in sorted(heap[a[1]].items())] if n in ("keys", "into_keys") else [("tuple", [k, v]) for k, v in sorted(heap[a[1]].items())])
                if isinstance(a, tuple) and a and a[0] == "array":
                    return new("iter", list(a[1]))
                if isinstance(a, tuple) and a and a[0] == "iter":
                    return a
            if n == "collect" and argv and isinstance(argv[0], tuple) and argv[0] and argv[0][0] == "iter" and argv[0][1] in heap:
                items_ = list(heap[argv[0][1]])
                heap[argv[0][1]] = []
                tgt_ = tystr(f["substs"][-1]) if f.get("substs") else ""
                if ("HashMap" in tgt_ or "BTreeMap" in tgt_) and all(isinstance(x_, tuple) and x_ and x_[0] == "tuple" for x_ in items_):
                    return new("map", {skey(x_[1][0]): x_[1][1] for x_ in items_})
                return new("coll", items_)
            if argv and isinstance(argv[0], tuple) and argv[0] and argv[0][0] == "coll" and argv[0][1] in heap:
                l_ = heap[argv[0][1]]
                if n in ("contains", "contains_key") and len(argv) == 2:
                    return skey(argv[1]) in [skey(x_) for x_ in l_]
                if n == "binary_search" and len(argv) == 2:
                    raise minterp.Unsupported("binary_search")
                if n == "len":
                    return len(l_)
                if n == "is_empty":
                    return not l_
                if n in ("iter", "into_iter"):
                    return new("iter", list(l_))
                if n in ("reserve", "shrink_to_fit"):
                    return ("tuple", [])
            if n in ("reserve", "shrink_to_fit") and argv and isinstance(argv[0], tuple) and argv[0] and argv[0][0] == "map":
                return ("tuple", [])
            if n == "next" and argv and isinstance(argv[0], tuple) and argv[0] and argv[0][0] == "iter":
                l = heap[argv[0][1]]
                return minterp.adt(OPT, 1, [l.pop(0)]) if l else minterp.adt(OPT, 0, [])
            if n == "contains" and len(argv) == 2 and isinstance(argv[0], tuple) and argv[0] and argv[0][0] == "array":
                return skey(argv[1]) in [skey(x) for x in argv[0][1]]
            if n in ("len", "is_empty") and argv and isinstance(argv[0], tuple) and argv[0] and argv[0][0] == "array":
                return len(argv[0][1]) if n == "len" else not argv[0][1]
            if argv and isinstance(argv[0], tuple) and argv[0] and argv[0][0] == "map":
                m = heap[argv[0][1]]
                if n == "insert" and len(argv) == 3:
                    k = skey(argv[1])
                    old = m.get(k)
                    m[k] = argv[2]
                    return minterp.adt(OPT, 1, [old]) if old is not None else minterp.adt(OPT, 0, [])
                if n == "contains_key" and len(argv) == 2:
                    return skey(argv[1]) in m
                if n == "get" and len(argv) == 2:
                    k = skey(argv[1])
                    return minterp.adt(OPT, 1, [m[k]]) if k in m else minterp.adt(OPT, 0, [])
                if n == "get_key_value" and len(argv) == 2:
                    k = skey(argv[1])
                    return minterp.adt(OPT, 1, [("tuple", [k, m[k]])]) if k in m else minterp.adt(OPT, 0, [])
                if n == "remove" and len(argv) == 2:
                    k = skey(argv[1])
                    return minterp.adt(OPT, 1, [m.pop(k)]) if k in m else minterp.adt(OPT, 0, [])
                if n == "len":
                    return len(m)
                if n == "is_empty":
                    return not m
            return minterp.NO_VALUE
        I = minterp.Interp(F, ce, inline=lambda d_, rid: True, max_depth=4)
        I.call_oracle = oracle
        args = [("array", list(safe)) if tystr(b.local_ty(k)) in ("&[&str]", "&&[&str]") else ("sym", f"a{k}") for k in range(1, b.argc + 1)]
        try:
            r = I.run(b, args)
        except minterp.Unsupported as e:
            ctx.note(f"R17.2 {b.id}: small-model table not available ({e}); decided by the structural forms")
            return False
        st = find_struct(r, heap)
        if not st or not all(isinstance(st[k], tuple) and st[k] and st[k][0] == "map" for k in st):
            ctx.note(f"R17.2 {b.id}: small-model table not available (the returned error's parameter maps are not values of the model: {repr(st)[:120]}); decided by the structural forms")
            return False
        got = {k: heap[st[k][1]] for k in st}
        want_safe = {k for k in params if k in safe}
        ok = set(got["safe_params"]) == want_safe and set(got["unsafe_params"]) == set(params) - want_safe \
            and all(mentions(v, params[k]) and not any(mentions(v, pv) for pk, pv in params.items() if pk != k) for m_ in got.values() for k, v in m_.items() if k in params)
        done += 1
        if not ok:
            bad.append(f"parameters {sorted(params)} with safe list {safe}: safe_params = {sorted(map(str, got['safe_params']))}, unsafe_params = {sorted(map(str, got['unsafe_params']))}; specification: safe = {sorted(want_safe)}, unsafe = {sorted(set(params) - want_safe)}, each with its own value")
    ctx.check(not bad, "R17.2", b.loc(), f"{b.id}|partition-table", f"{b.id}: every encoded parameter must land in exactly one of safe_params / unsafe_params — safe exactly when the safe list names it: " + "; ".join(bad[:3]),
              instance=f"{b.id}: partition over {done} small models (parameter maps x safe lists, unsorted / repeated / prefix names included) = specification")
    return True


def run(ctx):
    ctx.explanation = EXPLANATION
    ctx.assumptions = ["serde's Visitor defaults reject unvisited kinds and widen narrower integers/floats to i64/u64/f64 (documented)",
                       "the staged builder of SerializableError stores what its setters receive (generated code, covered by C02's instance rules for objects)"]
    F = ctx.F
    ce = F.crate("conjure_error")
    ctx.units["conjure_error bodies"] = len(ce.bodies)
    # ---------------- R17.1 status table
    sc = [b for b in ce.bodies if b.name == "status_code" and b.impl and ty_adt(b.self_ty) == ERRCODE]
    if len(sc) != 1:
        ctx.violation("R17.1", "conjure_error", "anchor|status_code", "ErrorCode::status_code not found")
    else:
        table, wild, names = const_returns_by_variant(sc[0], F, ERRCODE)
        for v, exp in STATUS.items():
            got = table.get(v, set())
            ctx.check(got == {exp} and v not in wild, "R17.1", sc[0].loc(), f"status|{v}", f"ErrorCode::{v} maps to HTTP status {sorted(got)}{' via a wildcard arm' if v in wild else ''}, specification: {exp}",
                      instance=f"{v} -> {exp}")
        extra = [n for n in names if n not in STATUS and n in table]
        ctx.check(set(STATUS) <= set(names), "R17.1", sc[0].loc(), "status|variants", f"error code variants {names} do not cover the specification's 10 codes", nontrivial=False)
    ws = [b for b in ce.bodies if b.name == "as_str" and b.impl and ty_adt(b.self_ty) == ERRCODE]
    if len(ws) == 1:
        table, wild, names = const_returns_by_variant(ws[0], F, ERRCODE)
        for v, exp in WIRE.items():
            ctx.check(table.get(v) == {exp}, "R17.1", ws[0].loc(), f"wire|{v}", f"ErrorCode::{v} is written as {sorted(table.get(v, []))}, specification: {exp}", instance=f"{v} <-> {exp}")
    else:
        ctx.violation("R17.1", "conjure_error", "anchor|as_str", "ErrorCode::as_str not found")
    # ---------------- R17.2 partition
    # the builder is the private function that receives the error type's safe-argument list (`&[&str]`); it is decided with its
    # private helpers (constructors, classification helpers), combinators and closures spliced in
    from .. import inline as _inline

    def final_fields(x):
        """{field name: operand stored into it} for safe_params / unsafe_params: a later field store wins over the struct literal"""
        out = {}
        for bb, j, s in x.stmts():
            r = s["r"]
            if r.get("agg") == "adt":
                a_ = F.adt(r["adt"])
                if a_ and a_["kind"] == "struct":
                    names_ = [f_["name"] for f_ in a_["variants"][0]["fields"]]
                    if "safe_params" in names_ and "unsafe_params" in names_ and len(r["ops"]) == len(names_):
                        for k_ in ("safe_params", "unsafe_params"):
                            out.setdefault(k_, r["ops"][names_.index(k_)])
        for bb, j, s in x.stmts():
            for e_ in place_proj(s["d"]):
                if isinstance(e_, dict) and e_.get("n") in ("safe_params", "unsafe_params") and "use" in s["r"]:
                    out[e_["n"]] = s["r"]["use"]
        return out
    cands = [x for x in ce.bodies if x.kind == "assoc_fn" and x.impl and x.id.startswith("conjure_error::error::") and x.d.get("vis") != "pub"
             and any(tystr(x.local_ty(k)) in ("&[&str]", "&&[&str]") for k in range(1, x.argc + 1))]
    builders = []
    for x in cands:
        eb = _inline.expand(ce, x, depth=3, pred=lambda cb: cb.d.get("vis") != "pub", lower=True)
        ff = final_fields(eb)
        if len(ff) == 2:
            builders.append((eb, ff))
    table_ok = False
    if len(builders) == 1:
        raw = [x for x in cands if x.id == builders[0][0].id] or [x for x in cands]
        if len(raw) == 1:
            table_ok = partition_table(ctx, F, ce, raw[0])
    if len(builders) != 1:
        ctx.violation("R17.2", "conjure_error", "anchor|service-builder", f"expected one private function taking the safe-argument list and producing both safe_params and unsafe_params, found {len(builders)}")
    else:
        b, fields = builders[0]
        cfg = CFG(b)
        tr = Tracer(b)
        maps = {k: origin(tr, op_) for k, op_ in fields.items()}
        inserts = [(bb, t) for bb, t in b.calls() if t["call"]["name"] == "insert" and "HashMap" in t["call"]["def"] or t["call"]["name"] == "insert" and "BTreeMap" in t["call"]["def"]]
        seen = {}
        parts = [(bb, t) for bb, t in b.calls() if t["call"]["def"] == "core::iter::traits::iterator::Iterator::partition"]
        if table_ok:
            inserts, parts = [], []      # decided by the small-model table above; the structural forms are the fallback
        if not inserts and len(parts) == 1:
            # form P: (safe, unsafe) = params.map(..).partition(|(name, _)| name in safe_args)
            pbb, pt = parts[0]
            good, why = False, "the partition predicate is not a closure"
            aggs = [s_ for s_ in tr.sources(pt["args"][1]) if s_[0] == "agg"]
            if len(aggs) == 1:
                st = b.blocks[aggs[0][1]]["s"][aggs[0][2]]
                clo = ce.body(st["r"].get("id")) if st["r"].get("agg") == "closure" else None
                if clo is not None:
                    from .. import inline as _inline
                    ec = _inline.expand(ce, clo, depth=2, pred=lambda cb: cb.d.get("vis") != "pub")
                    tests = []
                    for cbb, ct_ in ec.calls():
                        mt = membership_test(ce, ec, ("call", ct_))
                        if mt is not None and place_local(ct_["dest"]) in dt.return_aliases(ec):
                            tests.append((ct_, mt))
                    why = f"the partition predicate must return one membership test of the safe-argument list (found {len(tests)})"
                    if len(tests) == 1 and not tests[0][1][2]:
                        ct_, mt = tests[0]
                        # the tested collection is the captured safe_args parameter; the key comes from the element
                        recv_caps = set()
                        for s_ in Tracer(ec, through_calls=True).sources(mt[0]):
                            inner = None
                            while s_[0] == "field":
                                inner = s_
                                s_ = s_[1]
                            if s_ == ("arg", 1) and inner is not None:
                                for e in thaw(inner[2]):
                                    if isinstance(e, dict) and "f" in e:
                                        recv_caps.add(e["f"])
                                        break
                        recv_ok = len(recv_caps) == 1 and all(1 <= r <= b.argc and "str" in tystr(b.local_ty(r)) for r in Tracer(b).root_locals(st["r"]["ops"][next(iter(recv_caps))])) if recv_caps else False
                        key_ok = 2 in Tracer(ec, through_calls=True, through_agg=True).root_locals(mt[1])
                        good = bool(recv_ok and key_ok)
                        why = f"membership test on the captured safe-argument list: {recv_ok}; key taken from the element: {key_ok}"
            # true elements -> field 0 -> safe_params, false -> field 1 -> unsafe_params
            def tuple_field(k):
                for s_ in tr.sources(fields[k]):
                    if s_[0] == "field" and s_[1] == ("call", pbb):
                        for e in thaw(s_[2]):
                            if isinstance(e, dict) and "f" in e:
                                return e["f"]
                return None
            fmap = (tuple_field("safe_params"), tuple_field("unsafe_params"))
            ctx.check(good and fmap == (0, 1), "R17.2", b.loc(pt["ln"]), f"{b.id}|partition",
                      f"{b.id}: parameters are split by Iterator::partition: the elements for which the predicate is true (tuple field 0) must be stored as safe_params, the others as unsafe_params, and the predicate must be `safe_args contains the key` ({why}; fields stored: safe_params <- .{fmap[0]}, unsafe_params <- .{fmap[1]})",
                      instance="partition(|k| k in safe_args) -> (safe_params, unsafe_params)")
            seen = {"safe_params": (pbb, True), "unsafe_params": (pbb, False)}
        for bb, t in inserts:
            target = origin(tr, t["args"][0])
            which = [k for k, m in maps.items() if m == target and m]
            pol = None
            sw_bb = None
            contains_t = None
            for sbb, allowed, allv in dt.edge_conditions(cfg, bb):
                atom = dt.switch_atom(b, sbb)
                mt = membership_test(ce, b, atom)
                if mt is not None:
                    pol = dt.bool_polarity(allowed)
                    if mt[2]:
                        pol = None if pol is None else not pol
                    sw_bb = sbb
                    contains_t = {"args": [mt[0], mt[1]]}
            ok = len(which) == 1 and pol is not None and contains_t is not None
            if ok:
                # membership is tested on the safe_args parameter with the inserted key
                recv = Tracer(b, through_calls=True).root_locals(contains_t["args"][0])
                key_same = Tracer(b, through_agg=True).root_locals(contains_t["args"][1]) & Tracer(b, through_agg=True).root_locals(t["args"][1]) or \
                    {s for s in Tracer(b, through_agg=True, through_calls=True).sources(contains_t["args"][1]) if s[0] != "const"} & {s for s in Tracer(b, through_agg=True, through_calls=True).sources(t["args"][1]) if s[0] != "const"}
                is_param = all(1 <= r <= b.argc and "str" in tystr(b.local_ty(r)) for r in recv) and recv
                ok = bool(is_param) and bool(key_same) and ((which[0] == "safe_params") == pol)
                seen[which[0]] = (sw_bb, pol)
            ctx.check(ok, "R17.2", b.loc(t["ln"]), f"{b.id}|insert|{which[0] if which else '?'}",
                      f"{b.id}: insert into the map stored in `{which[0] if which else '?'}` is on the {'true' if pol else 'false' if pol is not None else 'unknown'} edge of the safe-argument membership test; safe_params must be filled exactly when safe_args contains the key, unsafe_params otherwise",
                      instance=f"insert into {which[0] if which else '?'} on contains(key) == {pol}")
        ctx.check(table_ok or (set(seen) == {"safe_params", "unsafe_params"} and seen["safe_params"][0] == seen["unsafe_params"][0]), "R17.2", b.loc(), f"{b.id}|exclusive",
                  "the two inserts must be the two arms of one membership test (every parameter lands in exactly one set)", instance="safe/unsafe inserts are the two arms of one test")
        # ---------------- R17.3
        callers = [(x, bb, t) for x in ce.bodies for bb, t in x.calls() if t["call"].get("id") == b.id]
        safe_idx = None
        for k in range(1, b.argc + 1):
            if "str" in tystr(b.local_ty(k)) and "slice" in json.dumps(b.local_ty(k)):
                safe_idx = k - 1
        for x, bb, t in callers:
            op = t["args"][safe_idx]
            arr = promoted_str_array(x, op)
            trx = Tracer(x)
            src = trx.sources(op)
            from_type = any(s[0] == "call" and x.blocks[s[1]]["t"]["call"]["name"] == "safe_args" for s in src)
            if x.name.startswith("propagated"):
                ctx.check(arr == [] and not from_type, "R17.3", x.loc(t["ln"]), f"{x.id}|empty-safe-list",
                          f"{x.id}: errors propagated from a remote service must pass a constant empty safe list (got {arr if arr is not None else 'a non-constant list'})",
                          instance=f"{x.name}: safe list = &[]")
            else:
                ctx.check(from_type, "R17.3", x.loc(t["ln"]), f"{x.id}|type-safe-list", f"{x.id}: must pass error_type.safe_args()", instance=f"{x.name}: safe list = error_type.safe_args()")
        ctx.floor("R17.3", "callers of the service-error builder", len(callers), 2)
        # every public constructor that has the error *type* at hand (it encodes it) reaches the builder with that type's
        # safe_args() — also when it is routed through another constructor (a detour via the propagated_* constructors drops
        # the list and files every parameter as unsafe)
        ntyped = 0
        for x in ce.bodies:
            if x.kind not in ("fn", "assoc_fn") or x.d.get("vis") != "pub" or not x.id.startswith("conjure_error::error::"):
                continue
            if not any(t["call"]["name"] == "encode" and t["call"].get("local") for _, t in x.calls()):
                continue
            ntyped += 1
            ex = _inline.expand(ce, x, depth=2, pred=lambda cb: cb.id.startswith("conjure_error::error::") and cb.id != b.id)
            bcalls = [t for _, t in ex.calls() if t["call"].get("id") == b.id]
            good = len(bcalls) == 1 and safe_idx is not None and any(
                s_[0] == "call" and ex.blocks[s_[1]]["t"]["call"]["name"] == "safe_args" and ex.blocks[s_[1]]["t"]["call"].get("trait") == ERRTYPE
                for s_ in Tracer(ex).sources(bcalls[0]["args"][safe_idx]))
            ctx.check(good, "R17.3", x.loc(), f"{x.id}|typed-constructor-safe-list", f"{x.id}: constructs a service error from an error type but the type's safe_args() does not reach the partitioning step ({len(bcalls)} builder call(s) reached): its safe parameters would be reported as unsafe",
                      instance=f"{x.name}: error_type.safe_args() reaches the partition")
        ctx.floor("R17.3", "public constructors taking an error type", ntyped, 1)
    # ---------------- R17.3b the instance-id wrapper overrides: its instance_id() is Some(its own id) unconditionally
    wid = [x for x in ce.bodies if x.trait == ERRTYPE and x.name == "instance_id" and (ty_adt(x.self_ty) or "").endswith("WithInstanceId")]
    if wid:
        from .. import minterp as _mi
        I_ = _mi.Interp(F, ce, inline=lambda d_, rid: False)
        try:
            r_ = I_.run(wid[0], [("sym", "self")])
            shown = _mi.show(I_, r_)
            good = _mi.is_adt(r_) and r_[1] == "core::option::Option" and r_[2] == 1 and isinstance(r_[3][0], tuple) and r_[3][0][0] == "proj" and r_[3][0][1] == ("sym", "self") and "instance_id" in str(r_[3][0][2])
        except _mi.Unsupported as e_:
            good, shown = False, f"not a constant expression of self ({e_})"
        ctx.check(good, "R17.3", wid[0].loc(), "WithInstanceId|instance_id|overrides", f"WithInstanceId::instance_id returns {shown[:80]}; it must be Some(self.instance_id) whatever the wrapped error reports (the supplied instance id is the one that is encoded)",
                  instance="WithInstanceId::instance_id = Some(self.instance_id)")
    # ---------------- R17.4 encode wiring
    enc = [b for b in ce.bodies if b.name == "encode" and b.kind == "fn" and b.d.get("vis") == "pub"]
    seed_adt = None
    if len(enc) != 1:
        ctx.violation("R17.4", "conjure_error", "anchor|encode", "pub fn encode not found")
    else:
        b = enc[0]
        # (encode may forward to a more general sibling in the same file — `encode_with(error, Uuid::new_v4)` — which is read instead)
        from .. import inline as _inl17
        b = _inl17.expand(ce, b, depth=2, pred=lambda cb, f_=b.file: cb.kind == "fn" and cb.file == f_ and cb.name != "encode")
        cfg = CFG(b)
        tr = Tracer(b, through_calls=True)
        for getter, setter in (("code", "error_code"), ("name", "error_name"), ("instance_id", "error_instance_id")):
            st = [(bb, t) for bb, t in b.calls() if t["call"]["name"] == setter]
            good = False
            if len(st) == 1:
                def base_(s_):
                    while s_[0] == "field":
                        s_ = s_[1]
                    return s_
                gs = {b.blocks[s[1]]["t"]["call"]["name"] for s in map(base_, tr.sources(st[0][1]["args"][1])) if s[0] == "call" and b.blocks[s[1]]["t"]["call"].get("trait") == ERRTYPE}
                good = gs == {getter}
            ctx.check(good, "R17.4", b.loc(), f"encode|{setter}", f"encode: builder.{setter} must receive error.{getter}()", instance=f"{setter} <- ErrorType::{getter}")
        # the parameter loop: on encode itself when it is there, otherwise on the sibling encode forwards to
        b_fwd = b
        b = enc[0]
        if not any(t["call"]["name"] == "insert_parameters" for x_ in [b] + ce.closures_of(b) for _, t in x_.calls()):
            sib = [ce.body(i_) for i_ in getattr(b_fwd, "inlined", []) if ce.body(i_) is not None and any(t["call"]["name"] == "insert_parameters" for x_ in [ce.body(i_)] + ce.closures_of(ce.body(i_)) for _, t in x_.calls())]
            if len(sib) == 1:
                b = sib[0]
        cfg = CFG(b)
        ins = [(bb, t) for bb, t in b.calls() if t["call"]["name"] == "insert_parameters"]
        seeds = [(bb, t) for bb, t in b.calls() if t["call"]["def"] == "serde_core::de::DeserializeSeed::deserialize"]
        good = len(ins) == 1 and len(seeds) == 1 and dt.dominated_by_success(cfg, F, seeds[0][0], ins[0][0])
        if good:
            vs = Tracer(b).sources(ins[0][1]["args"][2])
            good = any((s[0] == "field" and s[1] == ("call", seeds[0][0])) or s == ("call", seeds[0][0]) for s in vs)
            seed_adt = ty_adt(seeds[0][1]["call"]["substs"][0])
        how = "insert_parameters(key, seed-string) dominated by seed Ok"
        if not good:
            # pipeline form: a closure turns (key, value) into Some((key, seed-string)) only when the seed succeeds
            # (filter_map), another one inserts the pairs it is given (fold / for_each)
            from .. import inline as _inline
            eb, fam = _inline.expanded_family(ce, b, depth=2, pred=lambda cb: cb.d.get("vis") != "pub" or cb.id.startswith("conjure_error::ser::"))
            prod = [(x, bb, t) for x in fam for bb, t in x.calls() if t["call"]["def"] == "serde_core::de::DeserializeSeed::deserialize"]
            cons = [(x, bb, t) for x in fam for bb, t in x.calls() if t["call"]["name"] == "insert_parameters"]
            if len(prod) == 1 and len(cons) == 1 and prod[0][0].kind == "closure" and cons[0][0].kind == "closure":
                px, pbb, pt = prod[0]
                cx, cbb, ct_ = cons[0]
                # the producer closure with its own combinators (`.ok()`, `zip`, `map`) written out
                px = _inline.expand(ce, px, depth=1, pred=lambda cb: cb.d.get("vis") != "pub", lower=True)
                pbb, pt = [(bb_, t_) for bb_, t_ in px.calls() if t_["call"]["def"] == "serde_core::de::DeserializeSeed::deserialize"][0]
                pcfg = CFG(px)
                pvt = Tracer(px, through_agg=True, transparent=set(dt.value_tracer(px).transparent) | {"core::result::Result::<T, E>::ok"})
                somes = [o for o in dt.ok_return_blocks(px) if o[2]["r"].get("variant") == "Some"]
                p_ok = len(somes) == 1 and any(dt.derives_from_call(px, o_, pbb, pvt) for o_ in somes[0][2]["r"]["ops"]) and pbb in [x_ for x_ in range(len(px.blocks)) if pcfg.dominates(x_, somes[0][0])]
                # no Some(..) is produced when the seed fails: the only Some return is reached through the seed's success
                nones_only = all(o[2]["r"].get("variant") != "Some" or o[:2] == somes[0][:2] for o in dt.ok_return_blocks(px)) if somes else False
                c_ok = 2 in Tracer(cx, through_agg=True).root_locals(ct_["args"][2]) or bool(Tracer(cx, through_agg=True).root_locals(ct_["args"][2]))
                good = bool(p_ok and nones_only and c_ok)
                seed_adt = ty_adt(pt["call"]["substs"][0])
                how = "filter_map(|(k, v)| seed(v).ok().map(|s| (k, s))) -> insert_parameters(k, s)"
            elif len(prod) == 1:
                seed_adt = ty_adt(prod[0][2]["call"]["substs"][0])
        ctx.check(good, "R17.4", b.loc(), "encode|parameters", "encode: a parameter must be inserted exactly when the scalar seed accepts its value, with the seed's string as the value",
                  instance=how)
    # ---------------- R17.5 scalar visitor set
    vis_adt = None
    if seed_adt:
        for x in ce.bodies:
            if x.trait == "serde_core::de::DeserializeSeed" and ty_adt(x.self_ty) == seed_adt:
                for bb, t in x.calls():
                    if (t["call"].get("trait") or "") == "serde_core::de::Deserializer":
                        vis_adt = ty_adt(t["call"]["substs"][-1])
                        ctx.check(t["call"]["name"] == "deserialize_any", "R17.5", x.loc(t["ln"]), "seed|deserialize_any", f"the scalar seed drives the value with {t['call']['name']}, expected deserialize_any", nontrivial=False)
    vi = [i for i in ce.impls if i.get("trait") == "serde_core::de::Visitor" and ty_adt(i["self_ty"]) == vis_adt] if vis_adt else []
    if len(vi) != 1:
        ctx.violation("R17.5", "conjure_error", "anchor|scalar-visitor", "scalar stringification visitor not found from encode()'s seed")
    else:
        items = {k for k in vi[0]["items"] if k.startswith("visit_")}
        ctx.check(items == SCALAR_VISITS, "R17.5", f"{vi[0]['file']}:{vi[0]['line']}", "visitor|set",
                  f"scalar visitor overrides {sorted(items)}; specification: exactly {sorted(SCALAR_VISITS)} (extra methods would encode non-scalars, missing ones drop scalars)",
                  instance=f"visitor overrides exactly {sorted(SCALAR_VISITS)}")
        for name, x in c_methods(ce, vi[0]).items():
            if not name.startswith("visit_"):
                continue
            from .. import inline as _inline
            x = _inline.expand(ce, x, depth=2, pred=lambda cb: cb.id.startswith("conjure_error::ser::"))
            oks = dt.ok_return_blocks(x)
            calls = [t["call"]["def"] for _, t in x.calls()]
            trx = Tracer(x)
            OWNING = ("alloc::string::ToString::to_string", "alloc::borrow::ToOwned::to_owned", "core::convert::From::from", "core::convert::Into::into", "alloc::string::String::from", "core::clone::Clone::clone")
            good = len(oks) == 1 and trx.root_locals(oks[0][2]["r"]["ops"][0]) == {2} and all(d in OWNING for d in calls) and len(calls) <= 2
            ctx.check(good, "R17.5", x.loc(), f"visitor|{name}", f"{name} must return the argument's to_string() (or the string itself); calls: {calls}", instance=f"{name} -> Ok(v.to_string())")
    # ---------------- R17.6 generated instance + standard types
    ir = json.load(open(os.path.join(extract.REPO, "conjure-test", "test-ir.json")))
    ct = F.crate("conjure_test")
    ctx.units["conjure_test bodies"] = len(ct.bodies)
    wire_inv = {v: k for k, v in WIRE.items()}
    impls = [i for i in ct.impls if i.get("trait") == ERRTYPE]
    by_name = {}
    for i in impls:
        ms = c_methods(ct, i)
        nm = ret_const(ms.get("name"))
        by_name.setdefault(nm, []).append((i, ms))
    for e in ir["errors"]:
        full = f"{e['namespace']}:{e['errorName']['name']}"
        got = by_name.get(full, [])
        ctx.check(len(got) == 2, "R17.6", "conjure_test", f"instance|{full}|configs", f"error {full}: expected a generated ErrorType impl in both configurations, found {len(got)}", instance=f"{full}: 2 configs")
        exp_safe = sorted(a["fieldName"] for a in e["safeArgs"])
        for i, ms in got:
            code = ret_variant(ms.get("code"))
            ctx.check(code == wire_inv.get(e["code"]), "R17.6", ms["code"].loc(), f"instance|{full}|code|{ms['code'].id}", f"{full}: code() returns {code}, IR says {e['code']}", instance=f"{full}: code = {code}")
            sa = promoted_str_array(ms["safe_args"], first_ret_operand(ms["safe_args"]))
            ctx.check(sa == exp_safe, "R17.6", ms["safe_args"].loc(), f"instance|{full}|safe_args|{ms['safe_args'].id}", f"{full}: safe_args() returns {sa}, IR (sorted): {exp_safe}", instance=f"{full}: safe_args = {sa}")
            iid = ret_variant(ms.get("instance_id"))
            ctx.check(iid == "None", "R17.6", ms["instance_id"].loc(), f"instance|{full}|instance_id|{ms['instance_id'].id}", f"{full}: instance_id() returns {iid}, expected None", instance=f"{full}: instance_id = None")
    ctx.check(len(impls) == 2 * len(ir["errors"]), "R17.6", "conjure_test", "instance|count", f"{len(impls)} generated ErrorType impls for {len(ir['errors'])} IR errors x 2 configs", nontrivial=False)
    std = [i for i in ce.impls if i.get("trait") == ERRTYPE and "adt" in i["self_ty"] and "::types::" in ty_adt(i["self_ty"])]
    for i in std:
        ms = c_methods(ce, i)
        tn = ty_adt(i["self_ty"]).split("::")[-1]
        code = ret_variant(ms.get("code"))
        nm = ret_const(ms.get("name"))
        sa = promoted_str_array(ms["safe_args"], first_ret_operand(ms["safe_args"]))
        ctx.check(code == tn and nm == f"Default:{tn}" and sa == [], "R17.6", f"{i['file']}:{i['line']}", f"standard|{tn}",
                  f"standard error type {tn}: code {code}, name {nm}, safe args {sa}; expected {tn}, Default:{tn}, []", instance=f"{tn}: {code}, {nm}, []")
    ctx.floor("R17.6", "standard error types", len(std), 8)
    # generator sorts before emission
    cg = F.crate("conjure_codegen")
    sorters = [b for b in cg.bodies if b.file.endswith("errors.rs") and any(t["call"]["name"] == "safe_args" for _, t in b.calls())
               and any(t["call"]["name"] in ("sort", "sort_unstable", "sort_by", "sort_by_key") or "BTreeSet" in t["call"]["def"] for _, t in b.calls())]
    ctx.check(len(sorters) >= 1, "R17.6", "conjure-codegen/src/errors.rs", "generator|sorted", "the generator no longer sorts an error's safe argument names before emitting safe_args()", instance="generator sorts safe_args before emission")

    # ---------------- R17.7 generator: the safe-argument name list holds wire names
    # Error::service looks the serde (wire) key of each parameter up in ErrorType::safe_args(): the generated list must hold the
    # IR field names themselves, not the Rust identifiers derived from them (serviceName vs service_name, type vs type_)
    cg = ctx.F.crate("conjure_codegen")
    tm = ctx.F.tmpl()
    gens = []
    if tm is not None:
        for fn in tm["functions"]:
            if fn["file"].endswith("conjure-codegen/src/errors.rs"):
                for q in fn["quotes"]:
                    mm = re.search(r"fn\s+safe_args\s*\(.*?\[\s*#\s*\(\s*#\s*(\w+)", q["text"], re.S)
                    if mm:
                        gens.append((fn["name"], mm.group(1)))
    ctx.check(len(gens) == 1, "R17.7", "conjure-codegen/src/errors.rs", "safe-args-template|anchor", f"expected one template emitting `fn safe_args`, found {gens}", nontrivial=False)
    for fname, var in gens:
        gb = [x for x in cg.bodies if x.kind == "fn" and x.name == fname and x.id.startswith("conjure_codegen::errors::")]
        if len(gb) != 1:
            ctx.violation("R17.7", "conjure_codegen", f"{fname}|body", f"{fname}: body not found")
            continue
        gb = gb[0]
        vec_locals = [k for k, l in enumerate(gb.d["locals"]) if l.get("n") == var and ty_adt(l.get("ty") or {}) == "alloc::vec::Vec"]

        def element_chains(body, vec_op, depth=0):
            """call chains (lists of callee defs) through which the elements stored into the vector pass"""
            out = []
            tr_ = Tracer(body, through_calls=True)
            srcs = list(tr_.sources(vec_op))
            # (a) closures of iterator adaptors feeding a collect()
            for s_ in srcs:
                if s_[0] == "agg":
                    st = body.blocks[s_[1]]["s"][s_[2]]
                    if st["r"].get("agg") == "closure":
                        clo = cg.body(st["r"]["id"])
                        if clo is not None:
                            roots, calls = dt.transforming_calls(clo, {"cp": 0})
                            out.append([t["call"]["def"] for t in calls] + [t2["call"]["def"] for t in calls for t2 in dt.transforming_calls(clo, t["args"][0])[1]] if calls else ["<no call>"])
            # (b) pushes into the vector
            vec_roots = set()
            cur = place_local(op_place(vec_op)) if op_place(vec_op) is not None else None
            hops = 0
            while cur is not None and hops < 8:
                hops += 1
                vec_roots.add(cur)
                d_ = dt.single_def(body, cur)
                nxt = None
                if d_ and d_[1] != "T" and "use" in d_[2]["r"] and op_place(d_[2]["r"]["use"]) is not None and not place_proj(op_place(d_[2]["r"]["use"])):
                    nxt = place_local(op_place(d_[2]["r"]["use"]))
                cur = nxt
            for _, t in body.calls():
                if t["call"]["name"] in ("push", "insert", "extend_from_slice") and "Vec" in t["call"]["def"] and any(c06.refers_to_local(body, t["args"][0], r_) for r_ in vec_roots):
                    roots, calls = dt.transforming_calls(body, t["args"][-1])
                    chain = [c_["call"]["def"] for c_ in calls]
                    for c_ in calls:
                        if c_["args"]:
                            chain += [c2["call"]["def"] for c2 in dt.transforming_calls(body, c_["args"][0])[1]]
                    out.append(chain or ["<no call>"])
            # (c) a local helper returning the vector
            for s_ in srcs:
                if s_[0] == "call" and depth < 2:
                    t = body.blocks[s_[1]]["t"]
                    hb = cg.body(t["call"].get("id")) if t["call"].get("local") else None
                    if hb is not None and hb.id.startswith("conjure_codegen::errors::"):
                        out += element_chains(hb, {"cp": 0}, depth + 1)
            return out
        chains = []
        for k in vec_locals:
            chains += element_chains(gb, {"cp": k})
        if not chains:
            # the list is resolved in another function of the file and handed over in a struct: the vector of that name there
            for ob_ in cg.bodies:
                if ob_.kind == "fn" and ob_.id.startswith("conjure_codegen::errors::") and ob_.id != gb.id:
                    for k, l in enumerate(ob_.d["locals"]):
                        if l.get("n") == var and ty_adt(l.get("ty") or {}) == "alloc::vec::Vec":
                            chains += element_chains(ob_, {"cp": k})
        ok = bool(chains) and all(any(d.endswith("FieldDefinition::field_name") for d in ch) for ch in chains)
        foreign = sorted({d for ch in chains for d in ch if not (d.endswith("FieldDefinition::field_name") or d in Tracer.TRANSPARENT or d.endswith("::as_str") or d.endswith("safe_args")
                                                               or d.startswith("core::iter::") or d.startswith("core::slice::") or d == "<no call>" or d.startswith("core::option::"))})
        ctx.check(ok and not foreign, "R17.7", gb.loc(), f"{fname}|safe-arg-names|wire",
                  f"{fname}: the names emitted into `fn safe_args` are computed through {foreign or 'an unrecognised expression'}; they must be the IR field names (FieldDefinition::field_name().0) because Error::service compares them with the serialized (wire) keys — a converted identifier (service_name, type_) never matches and the parameter is filed as unsafe",
                  instance=f"{fname}: safe_args = IR field names, sorted")
    # ---------------- R17.8 generator: the string returned by the generated name() is `<namespace>:<declared error name>`
    # verbatim — not the Rust identifier derived from it (UpperCamelCase conversion / keyword escaping change HTTPGatewayError,
    # My_Error, Self)
    import re as _re
    nn = 0
    for fn in (tm["functions"] if tm is not None else []):
        if not fn["file"].endswith("conjure-codegen/src/errors.rs"):
            continue
        for q in fn["quotes"]:
            m_ = _re.search(r"fn name \(& self\) -> & str \{ # (\w+) \}", q["text"])
            if not m_:
                continue
            nn += 1
            var = m_.group(1)
            seen_, work_, text_ = set(), [var], ""
            while work_:
                v_ = work_.pop()
                if v_ in seen_ or v_ not in fn["lets"]:
                    continue
                seen_.add(v_)
                rhs = fn["lets"][v_]
                text_ += " " + rhs
                work_ += [w for w in _re.findall(r"[A-Za-z_]\w*", rhs) if w in fn["lets"]]
            flat_ = text_.replace(" ", "")
            if not text_:
                ctx.note(f"R17.8 {fn['name']}: the value interpolated into name() (`{var}`) is not a local let-binding; instances decided by R17.6")
                continue
            conv = [x for x in ("type_name(", "field_name(", "_case(", "to_lowercase(", "to_uppercase(", "to_ascii_") if x in flat_]
            if not conv and not ("namespace()" in flat_ and "error_name()" in flat_):
                ctx.note(f"R17.8 {fn['name']}: the value interpolated into name() (`{var}` = `{fn['lets'][var][:60]}`) is computed by a helper this rule does not look into; instances decided by R17.6")
                continue
            ctx.check(not conv and "namespace()" in flat_ and "error_name()" in flat_, "R17.8", f"{fn['file']}:{q['line']}", f"{fn['name']}|error-name-verbatim",
                      f"{fn['name']}: name() returns `{var}` = `{fn['lets'][var][:80]}`, which is computed through {conv or 'something other than namespace() and error_name()'}: the wire name of an error must be its declared Namespace:Name, not the Rust identifier",
                      instance=f"{fn['name']}: name() = format!(\"{{}}:{{}}\", namespace(), error_name().name())")
    ctx.floor("R17.8", "templates emitting ErrorType::name", nn, 1)


def c_methods(crate, impl):
    return crate.methods_of_impl(impl)


def ret_const(body):
    if body is None:
        return None
    for bb, j, s in body.stmts():
        if place_local(s["d"]) == 0 and not place_proj(s["d"]) and "use" in s["r"]:
            c = dt.resolve_const(body, s["r"]["use"])
            if c:
                return c.get("str", c.get("int"))
        if place_local(s["d"]) == 0 and "ref" in s["r"]:
            c = dt.resolve_const(body, {"cp": place_local(s["r"]["ref"])})
            if c:
                return c.get("str")
    return None


def ret_variant(body):
    if body is None:
        return None
    for bb, j, s in body.stmts():
        if place_local(s["d"]) == 0 and s["r"].get("agg") == "adt":
            return s["r"]["variant"]
    return None


def first_ret_operand(body):
    for bb, j, s in body.stmts():
        if place_local(s["d"]) == 0 and not place_proj(s["d"]):
            r = s["r"]
            if "cast" in r:
                return r["cast"]
            if "use" in r:
                return r["use"]
    return {"cp": 0}
